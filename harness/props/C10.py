"""C10 — event detection is sound, complete w.r.t. sampling, ordered and sharp."""
import math
import os
import time

from harness import core
from harness.core import Outcome

ID = "C10"
LEAN_TARGETS = ["BeyondVerif.Props.C10", "BeyondVerif.Witness.C10"]
THEOREMS = [
    "BeyondVerif.C10.bisect_terminates",
    "BeyondVerif.C10.event_between",
    "BeyondVerif.C10.event_between_backward",
    "BeyondVerif.C10.event_sharp",
    "BeyondVerif.C10.event_other_side",
    "BeyondVerif.C10.raw_event_spec",
    "BeyondVerif.C10.event_iff_sign_change",
    "BeyondVerif.C10.event_unique",
    "BeyondVerif.C10.listen_event_between",
    "BeyondVerif.C10.listen_event_between_backward",
    "BeyondVerif.C10.listen_event_sharp",
    "BeyondVerif.C10.listenU_times",
    "BeyondVerif.C10.listen_exact",
    "BeyondVerif.C10.simultaneous_events_in_listener_order",
    "BeyondVerif.C10.listen_block_order",
    "BeyondVerif.C10.stream_eq_blocks",
    "BeyondVerif.C10.reuse_clean",
    "BeyondVerif.C10.stream_chronological",
    "BeyondVerif.C10.stream_chronological_backward",
    "BeyondVerif.C10.label_prev_compare",
    "BeyondVerif.C10.label_light",
    "BeyondVerif.C10.guards_spec",
    "BeyondVerif.C10.max_only_at_maximum",
    "BeyondVerif.C10.visibility_stream_spec",
    "BeyondVerif.C10.frameless_reads_own_frame",
    "BeyondVerif.C10.events_iterator_spec",
    "BeyondVerif.C10.find_event_spec",
    "BeyondVerif.C10.light_value_pm_one",
    "BeyondVerif.C10.umbra_inside_penumbra",
    "BeyondVerif.C10.light_geometry",
    "BeyondVerif.C10.light_frame_independent",
    "BeyondVerif.C10.passes_spec",
    "BeyondVerif.C10.stationKinds_spec",
    "BeyondVerif.C10.visibility_own_listeners_attached",
    "BeyondVerif.C10.visibility_horizon_complete",
    "BeyondVerif.Listen.bisect2_eq_wf",
    "BeyondVerif.Listen.bisectSteps_eq_wf",
    "BeyondVerif.C10W.backward_chronological",
    "BeyondVerif.C10W.apside_label_both_directions",
    "BeyondVerif.C10W.light_label_backward",
    "BeyondVerif.C10W.exact_zero_at_sample_two_events",
    "BeyondVerif.C10W.visibility_frameless_no_spurious",
    "BeyondVerif.C10W.visibility_frameless_genuine",
    "BeyondVerif.C10W.visibility_frameless_node_and_los",
    "BeyondVerif.C10W.penumbra_half_angle_witness",
]
LEVEL_TEXT = ("Lean theorems over a model of Speaker.listen/_bisect/Listener.check/clear, the interleaving of iter and the filter of "
              "TopocentricFrame.visibility (listeners with a frame of their own and listeners created with frame=None alike), for an arbitrary watched "
              "quantity f : Int -> Int, arbitrary guards, listener lists and sample sequences "
              "(dates in integer microseconds, timedelta/2 as round-half-even): an event is emitted between two samples iff the listener's guard holds "
              "and the sign of f differs (exactly one per listener), it lies in (t_k, t_k+1] (resp. [t_k+1, t_k) backward), f changes sign within 1 us of it, "
              "the stream is ordered in the direction of the iteration (forward and backward), events of one step with the same date keep the order of the "
              "listeners list (stable sort, both directions), listener history is irrelevant; with a truthy `events` the station's own AOS/LOS, MAX (and mask) listeners follow the caller's "
              "whatever those are — also listeners of the same class attached to the same station — and every sign change of the elevation between two samples has its event of the station's own "
              "horizon listener in the visibility stream; events_iterator is the label filter of the stream and find_event "
              "returns the item preceded by exactly `offset` items of that label, raising RuntimeError iff there are too few (or offset < 0); _bisect terminates "
              "(well-founded definition) in <= log2 passes. Watched quantity, guard, label and event class of every listener class are re-translated from "
              "the Python AST on each run and the label/guard/MAX/visibility theorems re-proved against them (labels match the crossing direction in time "
              "in both directions of iteration). LightListener.__call__ after its geometric inputs is translated from the source by py2lean (Generated/LightSrc) and "
              "proved over the reals to be +-1 valued, umbra-inside-penumbra, and equal to the two-cone predicate in the distance to the shadow axis (light_geometry; "
              "both cones with sin(alpha) = (R_sun - R_body)/d — the open penumbra finding has a kernel-checked counter-witness on these formulas). "
              "Exact differential correspondence: the REAL Speaker, listener classes, AnalyticalPropagator.iter, "
              "Ephem.iter and TopocentricFrame.visibility driven through stub states with integer polynomial components vs the compiled model.")
LEVEL_NOTE = ("agreement with closed-form Keplerian times, of the event dates with an independent apparent-disc shadow computation and the zero elevation(-rate) at AOS/LOS/MAX is numerical: "
              "oracle sweep on the real API only; labels of the derivative-based listeners (Node, StationSignal, Terminator) are tied to the crossing "
              "direction by the oracle only; model hand-written, tied by exact correspondence and by the regenerated listener tables")
TECHNIQUE = ("Lean 4 proofs (functional induction on the bisection loop, induction over sample sequences and listener lists) about an executable "
             "model; listener tables translated from the source AST; exact model/implementation correspondence through a stub propagator; oracle on real orbits")
TRUSTED = [
    "harness/props/C10.py translate_listeners: Python AST of listeners.py (`__call__`, `check`, `info`, `event` class and its bases of each listener class, `stations_listeners`) -> Generated/ListenSrc.lean",
    "correspondence harness: stub orbit/station/propagator/ephemeris classes (subclasses of the real AnalyticalPropagator, Ephem, LightListener, TerminatorListener; the real "
    "TopocentricFrame.visibility called on a stub station) whose spherical components are integer polynomials of the date; exact comparison of (date in us, listener index, label) streams",
    "harness/props/C10.py translate_light (+ harness/py2lean.py Tr.expr): LightListener.__call__ from `alpha_umb = …` on -> Generated/LightSrc{F,R}.lean; of the assignments before it, those selecting the frame "
    "(`sun_orb`, `orb`, `frame`) are matched against the recognised forms LIGHT_FRAME_RULES and become `Generated.ListenSrc.lightFrameIfNone`, the others (Sun object, positions, norms) are "
    "checked textually against LIGHT_PREAMBLE; light_inputs replicates them",
    "CPython datetime: `timedelta / 2` rounds half to even on microseconds; `Date + timedelta` and `Date - Date` are exact on the microsecond grid within one day of the epoch used (checked by the correspondence itself)",
]
ASSUMPTIONS = [
    "the model Model/Listen.lean is hand-written; it is tied to listeners.py / base.py / ephem.py / stations.py by the exact correspondence run and, for the per-class quantity/guard/label/event class, by AST translation",
    "dates are integer microseconds: the float representation of Date (day + seconds) is assumed exact on that grid (true within the magnitudes exercised; the oracle checks real orbits with a 5 us window)",
    "the watched quantity is a deterministic function of the date and of the frame the listener reads the state in: its own frame, or (frame=None) the frame the propagator yields its states in — "
    "no state object is re-framed while it is `listener.prev` (true of Speaker.listen/_bisect and, since d3db55e, of TopocentricFrame.visibility; the correspondence stub states carry a settable "
    "`frame` attribute, so an in-place re-framing shows up as a disagreement); the product f(begin)*f(mid) is assumed not to underflow",
    "the listener objects in one `listeners` list are distinct objects (the same object listed twice never fires at its second position)",
    "sign is three-valued as in numpy.sign: a crossing through an exact zero AT a sample date yields two events (one at the sample, one 1 us later) — witnessed in Witness/C10.lean, faithful to the code",
    "the anomaly difference is modelled in fixed point (rad * 2^20) and kept inside (-pi, pi) by the stub, so `|diff - diff_prev| < pi` is an integer comparison with ceil(pi * 2^20)",
]
NOT_COVERED = [
    "closed-form node / apsis / anomaly times, umbra/penumbra event dates vs an independent apparent-disc computation, zero elevation at AOS/LOS and zero elevation rate at MAX: numerical, oracle only (S)",
    "LightListener: the Sun ephemeris and the library's frame conversions themselves (C02 / C18) are outside the model: the model takes frames as isometries with an origin "
    "(light_frame_independent) and the norms / dot product as given (light_geometry); it is tied to the float code by exact agreement of the +-1 value on sampled geometries "
    "(positions within 1 mm of the real shadow boundary; the same state handed over in ITRF / TEME / EME2000 / a station frame) only",
    "LightListener with an EXPLICIT frame whose origin is not the body's centre: outside light_frame_independent (hypothesis F.o = 0) and false of the code — open finding "
    "C10-light-explicit-noncentral-frame, oracle family shadow-frame:explicit-noncentral",
]
OPEN = [
    "shadow clauses for a listener created with an explicit frame that is not centred on the body (LightListener(frame=station)): FALSE of the current code, the cone is built around the origin of that frame "
    "(known finding C10-light-explicit-noncentral-frame, proposed_fixes/C10-light-explicit-noncentral-frame.diff); light_frame_independent is proved for frame=None and body-centred frames",
    "penumbra clause (entries / exits agree with the conical shadow within 0.5 s) is FALSE of the current code: LightListener uses sin(alpha) = (R_sun - R_body)/d for the penumbra cone too "
    "(light_geometry states the predicate the code computes; kernel-checked counter-witness C10W.penumbra_half_angle_witness on the formulas translated from the source; "
    "known finding C10-penumbra-half-angle, proposed_fixes/C10-penumbra-half-angle.diff). When /repo is fixed the witness stops checking and light_geometry has to be restated with the two half-angles.",
]
RULE = ("correspondence: random listener lists (1-6 listeners out of 14 kinds) x random sample sequences (1 us to 100 s spacing, regular / irregular / backward, roots of the "
        "polynomials on and off the samples) x 6 iteration modes (dates, range, Ephem dates/step/stored points) x listener history (fresh / reused / abandoned generator) "
        "x (one listener: handed over in a list / as a bare Listener object); a quarter of the listeners share the components of their predecessor "
        "(integer polynomials with the same roots: exactly simultaneous crossings, exact on both sides); "
        "node / apside / anomaly listeners with a frame of their own or created with frame=None (reading the stub state's own, settable, frame); "
        "TopocentricFrame.visibility with 0-7 additional listeners (with / without frame) given through listeners= and/or events= (True / list / tuple / single / none), with and without mask, "
        "in 40 % of the cases 1-3 of them attached to the very station object visibility is called on (StationSignalListener with elev = 0 or != 0, Max, Mask, RadialVelocity, or the complete "
        "stations_listeners(station) set: the station's own listeners are attached all the same, each sign change has one event per listener watching it), "
        "plus the three kernel-checked regression witnesses of Witness/C10.lean replayed on the real method; "
        "a case is non-trivial when at least one event is emitted (visibility: and one sample is below the horizon); plus _bisect alone (result and number of propagations); "
        "plus LightListener.__call__ vs the translated formulas on state vectors -3..12 Earth radii behind the Earth, random and within 0 / 1 mm / 1 m / 1 km of the real umbra / penumbra boundary (exact +-1 agreement; non-trivial: in shadow); "
        "plus the real events_iterator (0-4 labels) / find_event (label, offset -1..7) over the real stream (non-trivial: something is returned). "
        "oracle: every clause as a predicate on real orbits (see samples); tolerances from the property text; families ordered cheap-first "
        "(simultaneous crossings, steep-edged masks, shadow events of one trajectory expressed in / computed from EME2000, ITRF and station frames, large anomaly steps, backward, geosynchronous, numerical, ephemeris, analytical, visibility — the latter also with additional listeners of the caller attached to the same station "
        "(elevation thresholds 2-12 deg and below the horizon, Max / Mask / RadialVelocity, the whole stations_listeners set; through events= list / single object / listeners=): same samples and same own "
        "AOS/LOS/MAX/mask events as visibility(events=True), nothing that belongs to no listener, and, independently of listeners.py, a zero-elevation AOS/LOS wherever the elevation changes sign between two samples); when a proof / translator / "
        "correspondence is broken in the quick tier the 10x sample is bounded (20 s per family and 150 s in total once 5 inputs of a family have run, 10 where the correspondence points) and stops at the first failing input outside the open findings")

US = None  # timedelta(microseconds=1), set by _setup


def _setup():
    """beyond is imported only here (core has put REPO first on sys.path)"""
    global US
    import warnings
    warnings.filterwarnings("ignore")
    from beyond.config import config
    config.set("eop", "missing_policy", "pass")
    from datetime import timedelta
    US = timedelta(microseconds=1)


# =====================================================================================
#                               oracle on the real API
# =====================================================================================

_station_counter = [0]
_ephem_counter = [0]


def gen_station(rng, inc=None, mask=False):
    """JSON description of a ground station under (roughly) the ground track so that passes exist"""
    if inc is not None:
        latmax = min(inc, math.pi - inc)
        lat = math.degrees(rng.uniform(-1, 1) * min(latmax, math.radians(70)))
    else:
        lat = rng.uniform(-60, 60)
    m = None
    if mask:
        k = rng.randint(3, 8)
        az = sorted(rng.uniform(0.05, 6.2) for _ in range(k)) + [2 * math.pi]
        el = [rng.uniform(0.0, 0.35) for _ in range(k + 1)]
        m = [az, el]
    return {"latlonalt": [lat, rng.uniform(-180, 180), rng.uniform(0, 2000)], "mask": m}


def build_station(st):
    from beyond.frames.stations import create_station
    _station_counter[0] += 1
    name = f"C10S{os.getpid()}x{_station_counter[0]}"
    return create_station(name, tuple(st["latlonalt"]), mask=st["mask"])


def gen_orbit(rng, kind):
    """JSON description of a random Keplerian orbit of the given class"""
    Re = 6378136.3
    if kind == "leo":
        rp = Re + rng.uniform(300e3, 1200e3)
        e = rng.uniform(0.001, 0.03)
        inc = rng.uniform(10, 170)
        argp = rng.uniform(0, 360)
    elif kind == "meo":
        rp = Re + rng.uniform(5000e3, 20000e3)
        e = rng.uniform(0.001, 0.3)
        inc = rng.uniform(10, 120)
        argp = rng.uniform(0, 360)
    elif kind == "gto":
        rp = Re + rng.uniform(250e3, 600e3)
        ra = 42164e3 + rng.uniform(-500e3, 500e3)
        e = (ra - rp) / (ra + rp)
        inc = rng.uniform(5, 30)
        argp = rng.uniform(0, 360)
    else:  # molniya
        e = rng.uniform(0.70, 0.74)
        rp = 26600e3 * (1 - e)
        inc = rng.uniform(62, 64.5)
        argp = rng.uniform(260, 290)
    a = rp / (1 - e)
    return {"class": kind,
            "kep": [a, e, math.radians(inc), math.radians(rng.uniform(0, 360)), math.radians(argp), math.radians(rng.uniform(0, 360))],
            "epoch": [2015 + rng.randrange(8), rng.randint(1, 12), rng.randint(1, 28), rng.randrange(24), rng.randrange(60), rng.randrange(60), rng.randrange(10**6)]}


def build_orbit(o):
    from beyond.dates import Date
    from beyond.orbits import Orbit
    return Orbit(list(o["kep"]), Date(*o["epoch"]), "keplerian", "EME2000", "Kepler")


def kep_period(o):
    return 2 * math.pi * math.sqrt(o["kep"][0] ** 3 / 3.986004415e14)


def period(orb):
    return float(orb.infos.period.total_seconds())


def _sign(x):
    return int(x > 0) - int(x < 0)


def guard_of(L):
    """the listener's own visibility condition, re-implemented independently of Listener.check"""
    from beyond.propagators import listeners as LS
    if isinstance(L, LS.StationMaskListener):
        return lambda o: o.copy(frame=L.station, form="spherical").phi > 0
    if isinstance(L, LS.StationMaxListener):
        def g(o):
            s = o.copy(frame=L.station, form="spherical")
            return s.phi > 0 and not s.phi_dot > 0
        return g
    if isinstance(L, LS.RadialVelocityListener):
        if L.sight:
            return lambda o: o.copy(frame=L.frame, form="spherical").phi > 0
        return lambda o: True
    # AnomalyListener: see run_stream (a genuine crossing of the wrapped difference has |v1 - v0| < pi)
    return lambda o: True


def lname(L):
    from beyond.propagators import listeners as LS
    n = type(L).__name__.replace("Listener", "")
    if isinstance(L, LS.LightListener):
        n += "-" + L.type
    if isinstance(L, LS.AnomalyListener):
        n += "-" + L.anomaly
    return n


def up_label(L):
    """(label when the watched quantity goes from negative to positive in the direction of time, label for the opposite)"""
    from beyond.propagators import listeners as LS
    if isinstance(L, LS.LightListener):
        t = "Umbra" if L.type == L.UMBRA else "Penumbra"
        return (t + " exit", t + " entry")
    if isinstance(L, LS.NodeListener):
        return ("Asc Node", "Desc Node")
    if isinstance(L, LS.ApsideListener):
        return ("Periapsis", "Apoapsis")
    if isinstance(L, LS.StationSignalListener):  # includes the mask listener
        return ("AOS", "LOS")
    if isinstance(L, LS.TerminatorListener):
        # cos(sun, sat) going from negative to positive: the satellite enters the day side
        return ("Day Terminator", "Night Terminator")
    return None


def label_rule(L):
    """how `info` decides between the two labels: from the value at the event state, by comparison with listener.prev,
    or from a separate derivative component"""
    from beyond.propagators import listeners as LS
    if isinstance(L, LS.LightListener):
        return "value"
    if isinstance(L, (LS.ApsideListener, LS.StationMaskListener)):
        return "prev-compare"
    return "derivative"


def run_stream(out, src, pkind, listeners, kw, desc, forward=True, propagate=None, sharp_us=5, fam_prefix=""):
    """iterate `src.iter(listeners=…, **kw)` and check the generic clauses of the property.
    Returns the list of (orb) of the stream.  `propagate(date)` re-evaluates the trajectory (for sharpness)."""
    from beyond.propagators import listeners as LS
    stream = list(src.iter(listeners=listeners, **kw))
    samples = [o for o in stream if not o.event]
    dirn = 1 if forward else -1
    fp = fam_prefix + pkind + ":"
    # ---- chronological order of the whole stream
    for a, b in zip(stream, stream[1:]):
        if dirn * (b.date._mjd - a.date._mjd) < 0:
            fam = (fp + "order") if forward else "backward:order"
            out.fail(fam, "output stream is not in chronological order (in the direction of the iteration)",
                     dict(desc, at=[str(a.date), str(b.date)], events=[str(a.event.info) if a.event else None, str(b.event.info) if b.event else None]),
                     observed=f"{a.date} before {b.date}")
            break
    # ---- blocks: events between two consecutive samples
    blocks = []
    cur = []
    for o in stream:
        if o.event:
            cur.append(o)
        else:
            blocks.append((cur, o))
            cur = []
    if cur:
        out.fail(fp + "trailing-event", "events after the last sample", desc, observed=[str(o.date) for o in cur])
    if blocks and blocks[0][0]:
        out.fail(fp + "leading-event", "events before the first sample", desc, observed=[str(o.date) for o in blocks[0][0]])
    vals = {id(L): [L(s) for s in samples] for L in listeners}
    guards = {id(L): guard_of(L) for L in listeners}
    nev = 0
    for k in range(1, len(blocks)):
        evs, s1 = blocks[k]
        s0 = blocks[k - 1][1]
        for L in listeners:
            v0, v1 = vals[id(L)][k - 1], vals[id(L)][k]
            expected = _sign(v0) != _sign(v1) and bool(guards[id(L)](s1))
            wrap = isinstance(L, LS.AnomalyListener) and abs(v1 - v0) >= math.pi
            if wrap:
                expected = False     # the jump of the wrapped difference at value +/- pi is not a crossing of the value
            elif isinstance(L, LS.AnomalyListener) and abs(v1) >= 2:
                continue             # more than 2 rad from the target at the new sample: the listener's own condition may drop it
            mine = [o for o in evs if o.event.listener is L]
            ln = lname(L)
            out.tally(f"pair:{ln}:{'event' if expected else 'none'}")
            if expected != (len(mine) == 1) or len(mine) > 1:
                out.fail("anomaly:wraparound-spurious" if (wrap and mine) else fp + ln + (":missed" if expected else ":spurious"),
                         "event emitted iff the watched quantity changes sign between two samples (and the guard holds)",
                         dict(desc, listener=ln, samples=[str(s0.date), str(s1.date)], values=[float(v0), float(v1)]),
                         observed=[str(o.date) + " " + str(o.event.info) for o in mine], expected=int(expected))
                continue
            if not mine:
                continue
            nev += 1
            ev = mine[0]
            # ---- between the samples
            lo, hi = (s0, s1) if forward else (s1, s0)
            inside = (lo.date._mjd < ev.date._mjd <= hi.date._mjd) if forward else (lo.date._mjd <= ev.date._mjd < hi.date._mjd)
            if not inside:
                out.fail(fp + ln + ":outside", "event date is not between the two samples", dict(desc, listener=ln),
                         observed=str(ev.date), expected=[str(s0.date), str(s1.date)])
            # ---- sharp: the quantity changes sign within sharp_us microseconds before the event (iteration direction)
            if propagate is not None:
                # (station-frame quantities carry ~1e-9 rad of rounding noise from the float date: any of the last
                #  sharp_us microseconds may hold the sign change)
                fe = L(ev)
                for back in range(1, sharp_us + 1):
                    fb = L(propagate(ev.date - dirn * back * US))
                    if fb * fe <= 0:
                        break
                if not fb * fe <= 0:
                    out.fail(fp + ln + ":not-sharp", f"watched quantity does not change sign within {sharp_us} us of the event",
                             dict(desc, listener=ln, event=str(ev.date)), observed=[float(fb), float(fe)])
                # the event is on the new-sample side: same sign as the new sample (or zero)
                if _sign(fe) not in (0, _sign(v1)):
                    out.fail(fp + ln + ":wrong-side", "event state is not on the side of the newer sample", dict(desc, listener=ln, event=str(ev.date)),
                             observed=[float(fe), float(v1)])
            # ---- label matches the direction of the crossing (in the direction of time)
            lab = up_label(L)
            if lab is not None and v0 != 0 and v1 != 0:
                going_up = (v0 < 0) == forward
                want = lab[0] if going_up else lab[1]
                if ev.event.info != want:
                    fam = (fp + ln + ":label") if forward else "backward:label:" + label_rule(L)
                    out.fail(fam, "event label does not match the direction of the crossing",
                             dict(desc, listener=ln, event=str(ev.date), values=[float(v0), float(v1)]), observed=ev.event.info, expected=want)
    out.count(key=(pkind, desc["epoch"], tuple(desc["listeners"]), desc.get("step")), nontrivial=nev > 0, kind=fam_prefix + pkind,
              events=min(nev, 9))
    return stream, blocks


# ------------------------------------------------------------------ closed forms (Keplerian motion)

def kepler_times(orb, kind, value, t0s, t1s):
    """seconds after orb.date in [t0s, t1s] at which the anomaly of the given kind equals value (mod 2π)"""
    k = orb.copy(form="keplerian")
    a, e, w, nu0 = float(k.a), float(k.e), float(k.ω), float(k.ν)
    n = float(orb.infos.n)

    def nu2M(nu):
        E = 2 * math.atan2(math.sqrt(1 - e) * math.sin(nu / 2), math.sqrt(1 + e) * math.cos(nu / 2))
        return E - e * math.sin(E)
    M0 = nu2M(nu0)
    if kind == "true":
        M = nu2M(value)
    elif kind == "mean":
        M = value
    elif kind == "eccentric":
        M = value - e * math.sin(value)
    elif kind == "aol":
        M = nu2M(value - w)
    else:
        raise ValueError(kind)
    base = ((M - M0) % (2 * math.pi)) / n
    P = 2 * math.pi / n
    res = []
    j = math.floor((t0s - base) / P) - 1
    while True:
        t = base + j * P
        if t > t1s:
            break
        if t >= t0s:
            res.append(t)
        j += 1
    return res


def check_closed_form(out, orb, blocks, L, kind, value, label, desc, tol=1e-3, forward=True):
    """events of listener L with the given label == closed-form crossing times of the Keplerian motion"""
    samples = [b[1] for b in blocks]
    ts = [(s.date - orb.date).total_seconds() for s in samples]
    lo, hi = min(ts), max(ts)
    exp = kepler_times(orb, kind, value, lo, hi)
    got = sorted((o.date - orb.date).total_seconds() for b in blocks for o in b[0] if o.event.listener is L and (label is None or o.event.info == label))
    ln = lname(L)
    # crossings within tol of a sample (or of the ends) may legitimately fall on either side
    def near_sample(t):
        return any(abs(t - s) < 10 * tol for s in ts)
    if ln.startswith("Anomaly"):
        # the listener's own condition: a crossing is looked at only when the NEWER sample is within 2 rad of the target
        def dropped(t):
            later = [s for s, x in zip(samples, ts) if (x >= t if forward else x <= t)]
            nxt = (min if forward else max)(later, key=lambda s: (s.date - orb.date).total_seconds()) if later else None
            return nxt is not None and abs(L(nxt)) >= 2
        drop = [t for t in exp if dropped(t)]
        exp = [t for t in exp if t not in drop]
        got = [t for t in got if not any(abs(t - d) <= tol for d in drop)]
    e2 = [t for t in exp if not near_sample(t)]
    g2 = [t for t in got if not near_sample(t)]
    ok = len(e2) == len(g2) and all(abs(x - y) <= tol for x, y in zip(e2, g2))
    out.tally(f"closed-form:{ln}:{label}")
    if not ok:
        extra = [t for t in g2 if not any(abs(t - x) <= tol for x in e2)]
        miss = [t for t in e2 if not any(abs(t - x) <= tol for x in g2)]
        fam = f"closed-form:{ln.split('-')[0]}:" + ("spurious" if extra else "missed")
        if ln.startswith("Anomaly") and extra and not miss:
            opposite = kepler_times(orb, kind, value + math.pi, lo, hi)
            if all(any(abs(t - x) <= tol for x in opposite) for t in extra):
                fam = "anomaly:wraparound-spurious"
        out.fail(fam, f"reported {label or ln} events differ from the closed-form crossing times of the Keplerian motion (tol {tol} s)",
                 dict(desc, listener=ln, value=value), observed=g2[:8], expected=e2[:8], extra=extra[:4], missing=miss[:4])


# ------------------------------------------------------------------ independent shadow model

def shadow_state(o, sun_body):
    """0 = full light, 1 = penumbra (Sun partially hidden), 2 = umbra (Sun fully hidden), from apparent discs seen from the
    satellite: angular radii a (Sun), b (Earth), separation c."""
    import numpy as np
    # geocentric geometry, whatever frame the state is expressed in (a topocentric or orbit-attached frame has its origin elsewhere)
    c = o.copy(form="cartesian", frame="EME2000")
    r = np.array(c[:3], dtype=float)
    s = np.array(sun_body.propagate(o.date).copy(frame=c.frame, form="cartesian")[:3], dtype=float)
    Re = c.frame.center.body.r
    Rs = sun_body.r
    d = s - r
    nd, nr = np.linalg.norm(d), np.linalg.norm(r)
    a = math.asin(Rs / nd)
    b = math.asin(Re / nr)
    cosc = float(d @ (-r)) / (nd * nr)
    cc = math.acos(max(-1.0, min(1.0, cosc)))
    if cc <= b - a:
        return 2
    if cc < a + b:
        return 1
    return 0


def check_shadow(out, blocks, L, propagate, desc, family=None):
    from datetime import timedelta
    from beyond.env.solarsystem import get_body
    sun = get_body("Sun")
    umbra = L.type == L.UMBRA
    tol = 0.01 if umbra else 0.5
    ind = (lambda o: shadow_state(o, sun) == 2) if umbra else (lambda o: shadow_state(o, sun) >= 1)
    for evs, _ in blocks:
        for o in evs:
            if o.event.listener is not L:
                continue
            a = ind(propagate(o.date - timedelta(seconds=tol)))
            b = ind(propagate(o.date + timedelta(seconds=tol)))
            out.tally(f"shadow:{L.type}")
            entry = "entry" in o.event.info
            if a == b or (b != entry):
                out.fail(family or f"shadow:{L.type}", f"{o.event.info} does not agree with the independent conical shadow computation within {tol} s",
                         dict(desc, event=str(o.date), label=o.event.info), observed=[a, b], expected=[not entry, entry])


# ------------------------------------------------------------------ the sweep

def gen_listeners(rng, o, with_station=True):
    """JSON description of the listener list: [kind, params…] in the order they are handed to iter()"""
    Ls = [["node"], ["apside"], ["light", "umbra"], ["light", "penumbra"],
          ["anomaly", rng.uniform(0, 2 * math.pi), rng.choice(["true", "mean", "eccentric", "aol"])]]
    sta = None
    if with_station:
        sta = gen_station(rng, o["kep"][2], mask=rng.random() < 0.5)
        Ls += [["signal"], ["max"]] + ([["mask"]] if sta["mask"] else []) + [["radvel", rng.random() < 0.5]]
    rng.shuffle(Ls)
    return Ls, sta


def build_listeners(specs, sta):
    from beyond.propagators import listeners as LS
    out = []
    for sp in specs:
        k = sp[0]
        if k == "node":
            out.append(LS.NodeListener())
        elif k == "apside":
            out.append(LS.ApsideListener())
        elif k == "light":
            out.append(LS.LightListener(sp[1]))
        elif k == "anomaly":
            out.append(LS.AnomalyListener(sp[1], sp[2]))
        elif k == "signal":
            out.append(LS.StationSignalListener(sta))
        elif k == "max":
            out.append(LS.StationMaxListener(sta))
        elif k == "mask":
            out.append(LS.StationMaskListener(sta))
        elif k == "radvel":
            out.append(LS.RadialVelocityListener(sta, sight=sp[1]))
        else:
            raise ValueError(k)
    return out


def gen_step(rng, P, big=True):
    """sampling step in seconds: between 1/200 (quick tier: 1/90) and 1/25 of a period"""
    return round(rng.uniform(P / (200 if big else 90), P / 25), rng.choice([0, 3, 6]))


def gen_spec(rng, mode, kind, big=True):
    o = gen_orbit(rng, kind)
    P = kep_period(o)
    sp = {"mode": mode, "orbit": o}
    if mode == "analytical":
        sp["listeners"], sp["station"] = gen_listeners(rng, o)
        sp["start_s"], sp["span_s"], sp["step_s"] = rng.uniform(-0.5, 0.5) * P, P * rng.uniform(1.0, 1.6), gen_step(rng, P, big)
    elif mode == "backward":
        sp["listeners"], sp["station"] = gen_listeners(rng, o, with_station=kind == "leo")
        sp["start_s"], sp["span_s"], sp["step_s"] = 0.0, -P * (2.5 if kind == "leo" else 1.3), -gen_step(rng, P, big)
    elif mode == "ephem":
        sp["listeners"], sp["station"] = gen_listeners(rng, o)
        sp["estep_s"] = P / (rng.uniform(60, 120) if big else rng.uniform(45, 75))
        sp["emode"] = ["nostep", "step", "dates"][_ephem_counter[0] % 3]    # (cycled: every tier sees the stored-points form first)
        _ephem_counter[0] += 1
        sp["start_s"], sp["span_s"], sp["step_s"] = 8 * sp["estep_s"], 1.5 * P - 16 * sp["estep_s"], gen_step(rng, P, big)
    elif mode == "numerical":
        sp["listeners"], sp["station"] = gen_listeners(rng, o, with_station=False)
        sp["nstep_s"] = P / 150
        sp["start_s"], sp["span_s"], sp["step_s"] = 0.0, 1.2 * P, gen_step(rng, P, big)
    elif mode == "visibility":
        sp["listeners"], sp["station"] = [], gen_station(rng, o["kep"][2], mask=rng.random() < 0.5)
        # (quick tier: 1.2 to 1.8 revolutions at 60-120 s, otherwise 2 to 4 at 30-120 s — sample size only, same checks)
        sp["start_s"], sp["span_s"], sp["step_s"] = 0.0, P * (rng.uniform(2, 4) if big else rng.uniform(1.2, 1.8)), round(rng.uniform(30, 120) if big else rng.uniform(60, 120), 3)
        # additional listeners of the caller attached to the SAME station (given through events= or listeners=): an
        # elevation threshold (`elev` option, degrees), the other station classes, or the complete stations_listeners() set
        if rng.random() < 0.15:
            sp["vis_extra"] = [["all"]]
        else:
            pool = [["signal", round(rng.uniform(2.0, 12.0), 3)], ["signal", round(rng.uniform(2.0, 12.0), 3)], ["signal", round(rng.uniform(-3.0, -0.5), 3)],
                    ["radvel", rng.random() < 0.5], ["max"], ["signal", 0.0]] + ([["mask"]] if sp["station"]["mask"] else [])
            sp["vis_extra"] = [pool[0]] + rng.sample(pool[1:], rng.choice([0, 0, 1, 2]))
            rng.shuffle(sp["vis_extra"])
        sp["vis_extra_via"] = rng.choice(["events", "events", "events-single", "listeners"])
    elif mode == "geosync":
        # inclined (eccentric) geosynchronous orbit seen from a station inside its ground-track loop: always in view,
        # the elevation has maxima AND minima while in view
        o["class"] = "geosync"
        o["kep"] = [42164.17e3, rng.uniform(0.0, 0.25), math.radians(rng.uniform(20, 60)), o["kep"][3], math.radians(rng.uniform(0, 360)), o["kep"][5]]
        P = kep_period(o)
        sp["station"] = {"under_track": [rng.uniform(-12, 12), rng.uniform(-12, 12)], "latlonalt": None, "mask": None}
        sp["listeners"] = [["signal"], ["max"], ["radvel", True]]
        rng.shuffle(sp["listeners"])
        sp["start_s"], sp["span_s"], sp["step_s"] = 0.0, P * (rng.uniform(1.1, 2.2) if big else rng.uniform(1.1, 1.5)), round(rng.uniform(300, 900) if big else rng.uniform(600, 900), 3)
    elif mode == "anomaly-large-step":
        # sampling steps between 1.2 and 1.9 rad of anomaly: still < 2 rad, so every genuine crossing is seen by the guard
        step = round(P * rng.uniform(1.2, 1.9) / (2 * math.pi), 3)
        akind = sp_kind = rng.choice(["mean", "mean", "eccentric", "true", "aol"])
        value = rng.uniform(0, 2 * math.pi)
        if akind == "mean":
            # deterministic: the 3rd sample sits 0.05 rad before the wrap-around of the watched difference
            e, nu = o["kep"][1], o["kep"][5]
            E = 2 * math.atan2(math.sqrt(1 - e) * math.sin(nu / 2), math.sqrt(1 + e) * math.cos(nu / 2))
            M0 = E - e * math.sin(E)
            value = (M0 + 2 * math.pi / P * 3 * step + 0.05 - math.pi) % (2 * math.pi)
        sp["listeners"], sp["station"] = [["anomaly", value, sp_kind]], None
        sp["start_s"], sp["span_s"], sp["step_s"] = 0.0, 4 * P, step
    elif mode == "simultaneous":
        # several listeners whose watched quantities cross zero at the SAME instant: the same class twice (distinct objects),
        # node <-> argument of latitude 0 / pi, apsis <-> true / mean / eccentric anomaly 0 / pi.  Every sign change must
        # have its own event, carrying its own listener and label: nothing lost, nothing duplicated.
        Ls = [["node"], ["node"], ["apside"], ["apside"], ["anomaly", 0.0, "aol"], ["anomaly", math.pi, "aol"],
              ["anomaly", 0.0, "true"], ["anomaly", math.pi, "true"], ["anomaly", 0.0, "mean"], ["anomaly", math.pi, "eccentric"],
              ["light", "umbra"], ["light", "umbra"]]
        v = rng.uniform(0, 2 * math.pi)
        ak = rng.choice(["true", "mean", "eccentric", "aol"])
        Ls += [["anomaly", v, ak], ["anomaly", v, ak]]
        rng.shuffle(Ls)
        sp["listeners"], sp["station"] = Ls, None
        sp["start_s"], sp["span_s"], sp["step_s"] = rng.uniform(-0.5, 0.5) * P, P * rng.uniform(1.05, 1.3), round(rng.uniform(P / 60, P / 25), 3)
    elif mode == "shadow-frames":
        # the same trajectory expressed in frames whose origin is not the Earth's centre (a station's topocentric frame) or
        # that rotate (ITRF), watched by LightListener(frame=None) and by listeners with an explicit frame
        sp["listeners"] = []
        sp["station"] = gen_station(rng, o["kep"][2])
        sp["estep_s"] = round(P / (rng.uniform(40, 70) if big else rng.uniform(25, 35)), 3)
        sp["start_s"], sp["span_s"], sp["step_s"] = 0.0, P * rng.uniform(1.05, 1.25), sp["estep_s"]
    elif mode == "steep-mask":
        # a mask with two steep edges placed on the azimuth track of a pass: the satellite goes behind the rising edge while its
        # elevation still increases, and reappears from the falling edge while it decreases — d(elevation - mask)/dt and the
        # elevation rate have opposite signs at both crossings
        sm = gen_steep_mask(rng, o)
        if sm is None:
            return gen_spec(rng, mode, kind, big)
        sp["station"], start, span = sm
        sp["listeners"] = [["mask"], ["signal"], ["max"]]
        rng.shuffle(sp["listeners"])
        step = round(rng.uniform(8, 25), 3)
        if rng.random() < 0.3:
            sp["start_s"], sp["span_s"], sp["step_s"] = start + span, -span, -step
        else:
            sp["start_s"], sp["span_s"], sp["step_s"] = start, span, step
    else:
        raise ValueError(mode)
    return sp


def gen_steep_mask(rng, o):
    """(station description with mask, start_s, span_s) for the orbit description `o`, or None when the candidate pass is
    not suitable (azimuth not monotone / wraps through 0, culmination too low or too high)"""
    import numpy as np
    from datetime import timedelta
    _setup()
    orb = build_orbit(o)
    P = kep_period(o)
    tm = rng.uniform(0.2, 1.0) * P
    g = orb.propagate(orb.date + timedelta(seconds=tm)).copy(frame="ITRF", form="spherical")
    lat = max(-75.0, min(75.0, math.degrees(float(g.phi)) + rng.uniform(-3.5, 3.5)))
    lon = math.degrees(float(g.theta)) + rng.uniform(-3.5, 3.5)
    st = {"latlonalt": [lat, lon, rng.uniform(0, 1500)], "mask": None}
    sta = build_station(st)
    ts = np.arange(tm - 900.0, tm + 900.0, 10.0)
    tr = [orb.propagate(orb.date + timedelta(seconds=float(t))).copy(frame=sta, form="spherical") for t in ts]
    phi = np.array([float(q.phi) for q in tr])
    az = np.array([float(q.theta) % (2 * math.pi) for q in tr])
    vis = np.where(phi > 0.03)[0]
    if len(vis) < 20 or vis[0] == 0 or vis[-1] == len(ts) - 1 or vis[-1] - vis[0] + 1 != len(vis):
        return None
    aa, pp = az[vis[0]:vis[-1] + 1], phi[vis[0]:vis[-1] + 1]
    d = np.diff(aa)
    if np.any(np.abs(d) > 1.0) or not (np.all(d > 0) or np.all(d < 0)):
        return None
    kmax = int(np.argmax(pp))
    pmax = float(pp[kmax])
    if pmax < 0.35 or pmax > 1.2 or kmax < 5 or kmax > len(pp) - 6:
        return None
    ku = int(np.argmin(np.abs(pp[:kmax] - 0.5 * pmax)))
    kd = kmax + 1 + int(np.argmin(np.abs(pp[kmax + 1:] - 0.5 * pmax)))
    lo, hi = sorted((float(aa[ku]), float(aa[kd])))
    w = 0.02
    if hi - lo < 0.3 or lo < 0.1 or hi > 2 * math.pi - 0.1:
        return None
    m0, H = 0.02, pmax + 0.25
    st["mask"] = [[0.0, lo - w, lo + w, hi - w, hi + w, 2 * math.pi], [m0, m0, H, H, m0, m0]]
    start = float(ts[vis[0]]) - 150.0
    return st, start, float(ts[vis[-1]]) + 150.0 - start


def run_spec(out, sp):
    """evaluate every clause that applies to the described iteration; failures carry `sp` (replayable)"""
    _setup()
    from datetime import timedelta
    from beyond.dates import Date
    from beyond.propagators import listeners as LS
    mode = sp["mode"]
    orb = build_orbit(sp["orbit"])
    kind = sp["orbit"]["class"]
    st_spec = sp.get("station")
    if st_spec and st_spec.get("under_track"):
        # station near the mean sub-satellite point (offsets in degrees)
        import numpy as np
        g = orb.copy(frame="ITRF", form="spherical")
        dlat, dlon = st_spec["under_track"]
        st_spec = dict(st_spec, latlonalt=[max(-80.0, min(80.0, dlat)), math.degrees(float(g.theta)) + dlon, 100.0])
    sta = build_station(st_spec) if st_spec else None
    Ls = build_listeners(sp["listeners"], sta)
    start = orb.date + timedelta(seconds=sp["start_s"])
    kw = dict(start=start, stop=timedelta(seconds=sp["span_s"]), step=timedelta(seconds=sp["step_s"]))
    desc = {"spec": sp, "epoch": str(orb.date), "listeners": [lname(L) for L in Ls], "step": sp["step_s"]}
    if mode in ("analytical", "backward", "anomaly-large-step", "geosync", "simultaneous", "steep-mask"):
        fwd = sp["step_s"] > 0
        stream, blocks = run_stream(out, orb, "analytical", Ls, kw, desc, forward=fwd, propagate=orb.propagate,
                                    fam_prefix=mode + ":" if mode in ("simultaneous", "steep-mask") else "")
        if mode == "steep-mask":
            # the scenario is what it claims to be: mask events at which the elevation rate and the crossing direction disagree
            for evs, _ in blocks:
                for o in evs:
                    if isinstance(o.event.listener, LS.StationMaskListener):
                        q = o.copy(frame=sta, form="spherical")
                        out.tally("steep-mask:" + ("rate-opposes-crossing" if (float(q.phi_dot) > 0) != (o.event.info == "AOS") else "rate-agrees"))
        if fwd:
            for L in Ls:
                if isinstance(L, LS.NodeListener):
                    check_closed_form(out, orb, blocks, L, "aol", 0.0, "Asc Node", desc)
                    check_closed_form(out, orb, blocks, L, "aol", math.pi, "Desc Node", desc)
                elif isinstance(L, LS.ApsideListener):
                    check_closed_form(out, orb, blocks, L, "mean", 0.0, "Periapsis", desc)
                    check_closed_form(out, orb, blocks, L, "mean", math.pi, "Apoapsis", desc)
                elif isinstance(L, LS.AnomalyListener):
                    check_closed_form(out, orb, blocks, L, L.anomaly, L.value, None, desc)
                elif isinstance(L, LS.LightListener):
                    check_shadow(out, blocks, L, orb.propagate, desc)
        if mode == "analytical":
            # reuse of the same listener objects: identical stream
            stream2 = list(orb.iter(listeners=Ls, **kw))
            sig = lambda st: [(o.date._mjd, o.event.info if o.event else None) for o in st]
            out.count(key=("reuse", desc["epoch"]), kind="reuse")
            if sig(stream) != sig(stream2):
                out.fail("analytical:reuse", "a second iteration with the same listener objects gives a different stream", desc,
                         observed=len(stream2), expected=len(stream))
            # ... and a third one over the same sample dates given explicitly (`dates=` form of iter)
            stream3 = list(orb.iter(listeners=Ls, dates=[b[1].date for b in blocks]))
            out.count(key=("reuse-dates", desc["epoch"]), kind="reuse-dates")
            if sig(stream) != sig(stream3):
                out.fail("analytical:reuse-dates", "iterating over the same dates (dates= form) with the same, already used, listener objects gives a different stream",
                         desc, observed=sig(stream3)[:6], expected=sig(stream)[:6])
    elif mode == "ephem":
        eph = orb.ephem(start=orb.date, stop=timedelta(seconds=sp["span_s"] + 2 * sp["start_s"]), step=timedelta(seconds=sp["estep_s"]))
        stop = start + timedelta(seconds=sp["span_s"])
        if sp["emode"] == "nostep":
            kw = dict(start=start, stop=stop)
        elif sp["emode"] == "step":
            kw = dict(start=start, stop=stop, step=timedelta(seconds=sp["step_s"]))
        else:
            kw = dict(dates=list(Date.range(start, stop, timedelta(seconds=sp["step_s"]))))
        stream, blocks = run_stream(out, eph, "ephem", Ls, kw, desc, propagate=eph.propagate)
        if sp["emode"] == "nostep":
            # the same walk over the stored points, started strictly inside the ephemeris at the first stored point AFTER an
            # event: the stream is the tail of the first one, it begins with that point — nothing dated before `start`
            sig = lambda st: [(o.date._mjd, o.event.info if o.event else None) for o in st]
            k = next((i for i in range(2, len(blocks)) if blocks[i][0]), None)
            if k is not None:
                s_next = blocks[k][1]
                tail = [blocks[k][1]] + [o for b in blocks[k + 1:] for o in b[0] + [b[1]]]
                got = list(eph.iter(start=s_next.date, stop=stop, listeners=Ls))
                out.count(key=("ephem-start-inside", desc["epoch"]), kind="ephem-start-inside")
                if sig(got) != sig(tail):
                    out.fail("ephem:start-inside", "Ephem.iter started at a stored point inside the ephemeris: the stream is not the tail of the full one "
                             "(events of the interval before `start` emitted, or dated outside [start, stop])",
                             dict(desc, start=str(s_next.date)), observed=sig(got)[:4], expected=sig(tail)[:4])
    elif mode == "shadow-frames":
        check_shadow_frames(out, orb, sta, sp, desc)
    elif mode == "numerical":
        from beyond.propagators.keplernum import KeplerNum
        from beyond.env.solarsystem import get_body
        orb.propagator = KeplerNum(timedelta(seconds=sp["nstep_s"]), get_body("Earth"))
        # the internal interpolating ephemeris is not reachable afterwards: sharpness is not re-evaluated here (it is for
        # analytical and ephemeris sources); soundness / completeness / order / labels are
        run_stream(out, orb, "numerical", Ls, kw, desc, propagate=None)
    elif mode == "visibility":
        check_visibility(out, orb, sta, kw, desc, sp.get("vis_extra"), sp.get("vis_extra_via", "events"))
    else:
        raise ValueError(mode)


def check_shadow_frames(out, orb, sta, sp, desc):
    """umbra / penumbra events of one trajectory, given to the listeners in different frames: the events agree with the
    independent (geocentric) shadow computation and with those found on the EME2000 ephemeris — the light value is a
    function of the geocentric geometry only"""
    from datetime import timedelta
    from beyond.orbits.ephem import Ephem
    from beyond.propagators import listeners as LS
    eph0 = orb.ephem(start=orb.date, stop=timedelta(seconds=sp["span_s"]), step=timedelta(seconds=sp["estep_s"]))
    variants = [("eme2000", eph0, None),
                ("station-expressed", Ephem([q.copy(frame=sta) for q in eph0]), None),
                ("itrf-expressed", Ephem([q.copy(frame="ITRF") for q in eph0]), None),
                ("station-expressed:explicit-EME2000", Ephem([q.copy(frame=sta) for q in eph0]), "EME2000"),
                ("explicit-ITRF", eph0, "ITRF"),
                ("explicit-noncentral", eph0, sta)]
    ref = None
    for name, eph, frame in variants:
        Ls = [LS.LightListener("umbra", frame=frame), LS.LightListener("penumbra", frame=frame)]
        stream = list(eph.iter(listeners=Ls))
        fam = "shadow-frame:" + name
        blocks, cur = [], []
        for o in stream:
            if o.event:
                cur.append(o)
            else:
                blocks.append((cur, o))
                cur = []
        evs = sorted(((o.date - orb.date).total_seconds(), o.event.info) for b in blocks for o in b[0])
        for L in Ls:
            check_shadow(out, blocks, L, eph.propagate, dict(desc, variant=name), family=fam)
        if ref is None:
            ref = evs
        # same events as on the geocentric ephemeris (the interpolation in another frame moves the dates by far less than 1 ms)
        ok = len(evs) == len(ref) and all(a[1] == b[1] and abs(a[0] - b[0]) <= 0.01 for a, b in zip(evs, ref))
        out.count(key=("shadow-frame", name, desc["epoch"]), nontrivial=len(ref) > 0, kind="shadow-frame:" + name, events=min(len(evs), 9))
        if not ok:
            out.fail(fam, "umbra / penumbra events depend on the frame the trajectory is expressed in (or the listener computes in)",
                     dict(desc, variant=name), observed=evs[:8], expected=ref[:8])


def build_same_station(extra, sta):
    """the caller's additional listeners attached to the station `sta` itself (description: see gen_spec, "vis_extra")"""
    from beyond.propagators import listeners as LS
    out = []
    for x in extra:
        if x[0] == "all":
            out += LS.stations_listeners(sta)
        elif x[0] == "signal":
            out.append(LS.StationSignalListener(sta, elev=math.radians(x[1])) if x[1] else LS.StationSignalListener(sta))
        elif x[0] == "max":
            out.append(LS.StationMaxListener(sta))
        elif x[0] == "mask":
            out.append(LS.StationMaskListener(sta))
        elif x[0] == "radvel":
            out.append(LS.RadialVelocityListener(sta, sight=x[1]))
        else:
            raise ValueError(x[0])
    return out


def check_visibility(out, orb, sta, kw, desc, extra=None, via="events"):
    """TopocentricFrame.visibility: exactly the above-horizon samples plus AOS/LOS/MAX (and mask) events"""
    from datetime import timedelta
    from beyond.propagators import listeners as LS
    got = list(sta.visibility(orb, events=True, **kw))
    # reference: all samples and all events from an explicit iteration with fresh station listeners
    Ls = LS.stations_listeners(sta)
    ref = list(orb.iter(listeners=Ls, **kw))
    exp = []
    for o in ref:
        s = o.copy(frame=sta, form="spherical")
        if o.event or not s.phi < 0:
            exp.append((o.date._mjd, o.event.info if o.event else None))
    obs = [(o.date._mjd, o.event.info if o.event else None) for o in got]
    nev = sum(1 for x in obs if x[1])
    out.count(key=("vis", desc["epoch"]), nontrivial=nev > 0, kind="visibility", events=min(nev, 9))
    if obs != exp:
        out.fail("visibility:stream", "visibility stream differs from (above-horizon samples + AOS/LOS/MAX events)", desc,
                 observed=len(obs), expected=len(exp))
    def sph(date):
        return orb.propagate(date).copy(frame=sta, form="spherical")
    for o in got:
        if not o.event:
            continue
        # "zero" = the quantity vanishes or changes sign within the last 5 us (float noise of the station frame ~1e-9 rad)
        if o.event.info in ("AOS", "LOS") and type(o.event) is LS.SignalEvent:
            if abs(o.phi) > 3e-9 and not any(sph(o.date - k * US).phi * o.phi <= 0 for k in range(1, 6)):
                out.fail("visibility:aos-los-elevation", "elevation at AOS/LOS is not zero", dict(desc, event=str(o.date)), observed=float(o.phi))
        if o.event.info == "MAX":
            if abs(o.phi_dot) > 1e-9 and not any(sph(o.date - k * US).phi_dot * o.phi_dot <= 0 for k in range(1, 6)):
                out.fail("visibility:max-rate", "elevation rate at MAX is not zero", dict(desc, event=str(o.date)), observed=float(o.phi_dot))
    # additional listeners of the caller, through `events=`: their events are yielded only above the horizon
    def with_user(mk, fam, what, span):
        kwu = dict(kw, stop=timedelta(seconds=min(kw["stop"].total_seconds(), span * period(orb))))
        got_u = list(sta.visibility(orb, events=mk(), **kwu))
        sta_cls = tuple(L.event for L in LS.stations_listeners(sta))
        exp_u, n_user_ev = [], 0
        for o in orb.iter(listeners=mk() + LS.stations_listeners(sta), **kwu):
            s = o.copy(frame=sta, form="spherical")
            n_user_ev += bool(o.event) and not isinstance(o.event, sta_cls)
            if not s.phi < 0 or isinstance(o.event, sta_cls):
                exp_u.append((o.date._mjd, o.event.info if o.event else None))
        obs_u = [(o.date._mjd, o.event.info if o.event else None) for o in got_u]
        out.count(key=(fam, desc["epoch"]), nontrivial=n_user_ev > 0, kind=fam)
        below = [o for o in got_u if o.phi < 0 and not isinstance(o.event, sta_cls)]
        if below or obs_u != exp_u:
            extra = [x for x in obs_u if x not in exp_u]
            out.fail(fam, what, dict(desc, below_horizon=[(str(o.date), o.event.info if o.event else None, float(o.phi)) for o in below[:4]],
                                     unexpected=extra[:4]), observed=len(obs_u), expected=len(exp_u))
    # (listeners that name their frame: independent of the frame the yielded points are left in)
    with_user(lambda: [LS.NodeListener(frame="EME2000"), LS.ApsideListener(frame="EME2000"), LS.LightListener()],
              "visibility:user-listeners",
              "visibility with additional listeners: stream differs from (above-horizon points + their events + the station's own AOS/LOS/MAX events)", 1.5)
    # (listeners with frame=None, "the frame is unchanged": they read the state in the orbit's own frame, prev included —
    #  fixed finding C10-visibility-prev-frame-mutated, d3db55e; the family stays)
    with_user(lambda: [LS.ApsideListener()], "visibility:prev-frame-mutated",
              "visibility with an additional frame-less listener: spurious / missing events (the yielded point, still `listener.prev`, was re-framed in place)", 1.0)
    if extra:
        check_same_station(out, orb, sta, kw, desc, extra, via, got)
    # a caller-owned listeners list, used twice
    mine = [LS.NodeListener()]
    kw2 = dict(kw, stop=timedelta(seconds=min(kw["stop"].total_seconds(), 1.2 * period(orb))))
    a = [(o.date._mjd, o.event.info if o.event else None) for o in sta.visibility(orb, events=True, listeners=mine, **kw2)]
    b = [(o.date._mjd, o.event.info if o.event else None) for o in sta.visibility(orb, events=True, listeners=mine, **kw2)]
    out.count(key=("vis-reuse", desc["epoch"]), nontrivial=any(x[1] for x in a), kind="visibility-reuse")
    if a != b:
        out.fail("visibility:reuse-listeners-list", "calling visibility twice with the same caller-owned listeners list gives a different stream",
                 dict(desc, listeners_after=len(mine)), observed=len(b), expected=len(a))


def check_same_station(out, orb, sta, kw, desc, extra, via, plain):
    """visibility with additional listeners of the caller that are attached to the SAME station (an elevation threshold, a
    radial-velocity listener, the station classes again, the whole stations_listeners() set).  `plain`: the events=True stream.
    (a) the samples are those of the plain stream; (b) every event of the plain stream — the station's own AOS/LOS (zero
    elevation), MAX, mask events — is in the stream, same date and label, at least once; (c) whatever else is in the stream
    carries one of the caller's listeners, and its watched quantity is that listener's; (d) independent of listeners.py:
    wherever the elevation changes sign between two consecutive samples there is an AOS resp. LOS event of zero elevation
    between them."""
    from datetime import timedelta
    from beyond.propagators import listeners as LS
    fam = "visibility:same-station-listeners"
    span = min(kw["stop"].total_seconds(), 1.3 * period(orb))
    kwu = dict(kw, stop=timedelta(seconds=span))
    user = build_same_station(extra, sta)
    if via == "listeners":
        got = list(sta.visibility(orb, events=True, listeners=user, **kwu))
    elif via == "events-single" and len(user) == 1:
        got = list(sta.visibility(orb, events=user[0], **kwu))
    else:
        got = list(sta.visibility(orb, events=list(user), **kwu))
    # both iterations walk the same sample grid (same start and step): the plain stream up to the last sample of the shorter one
    dates = [o.date for o in orb.iter(**kwu)]
    last = dates[-1]
    d = dict(desc, same_station=[lname(L) + ("@%g" % math.degrees(L.elev) if type(L) is LS.StationSignalListener else "") for L in user], via=via)
    ref = [o for o in plain if o.date <= last]
    key = lambda o: (o.date._mjd, o.event.info if o.event else None)
    n_user = sum(1 for o in got if o.event and any(o.event.listener is L for L in user))
    n_own = sum(1 for o in ref if o.event)
    out.count(key=(fam, desc["epoch"]), nontrivial=n_user > 0 and n_own > 0, kind=fam, same_station_via=via,
              same_station_kinds="+".join(sorted({x[0] + ("@elev" if x[0] == "signal" and x[1] else "") for x in extra})))
    s_ref, s_got = [key(o) for o in ref if not o.event], [key(o) for o in got if not o.event]
    if s_ref != s_got:
        out.fail(fam, "visibility with additional listeners attached to the same station: the sample points differ from those of visibility(events=True)",
                 d, observed=len(s_got), expected=len(s_ref))
        return
    is_user = lambda q: any(q.event.listener is L for L in user)
    pool = sorted((o for o in got if o.event), key=is_user)      # (the station's own listeners first)
    missing = []
    for o in ref:
        if o.event:
            hit = next((q for q in pool if key(q) == key(o) and type(q.event) is type(o.event) and getattr(q.event.listener, "elev", 0) == 0), None)
            if hit is None:
                missing.append(o)
            else:
                pool = [q for q in pool if q is not hit]
    pool = [q for q in pool if not is_user(q)]
    if missing or pool:
        out.fail(fam, "visibility with additional listeners attached to the same station: the events of the station's own listeners (zero-elevation AOS/LOS, MAX, mask) "
                      "are not those of visibility(events=True) — missing, or events that belong to no listener of the caller",
                 dict(d, missing=[(str(o.date), o.event.info, float(o.phi)) for o in missing[:4]], unexpected=[(str(o.date), o.event.info) for o in pool[:4]]),
                 observed=len([o for o in got if o.event]) - n_user, expected=n_own)
        return
    for o in got:
        if o.event and type(o.event.listener) is LS.StationSignalListener and any(o.event.listener is L for L in user):
            L = o.event.listener
            if abs(float(o.phi) - L.elev) > 3e-9 and not any((orb.propagate(o.date - k * US).copy(frame=sta, form="spherical").phi - L.elev) * (o.phi - L.elev) <= 0 for k in range(1, 6)):
                out.fail(fam, "event of the caller's elevation-threshold listener is not at its threshold", dict(d, event=str(o.date)), observed=float(o.phi), expected=L.elev)
                return
    # (d) every sign change of the elevation between consecutive samples has its zero-elevation AOS / LOS
    phis = [float(orb.propagate(x).copy(frame=sta, form="spherical").phi) for x in dates]
    for a, b, pa, pb in zip(dates, dates[1:], phis, phis[1:]):
        if pa * pb < 0:
            lab = "AOS" if pb > 0 else "LOS"
            lo, hi = min(a, b), max(a, b)
            if not any(o.event and type(o.event) is LS.SignalEvent and o.event.info == lab and lo <= o.date <= hi and abs(float(o.phi)) < 1e-6 for o in got):
                out.fail(fam, f"the elevation changes sign between two consecutive samples but the visibility stream holds no zero-elevation {lab} between them",
                         dict(d, between=[str(a), str(b)], elevations=[pa, pb]), observed=None, expected=lab)
                return


HUNT_FAMILY_CAP_S = 20.0     # widened oracle in the quick tier: time given to one family of inputs …
HUNT_TOTAL_CAP_S = 150.0     # … and to all of them
HUNT_MIN_INPUTS = 5          # … but every family gets at least this many inputs (twice as many where the correspondence points)


def oracle(ctx, widened):
    """Families of inputs, cheap and discriminating ones first.  `widened` in the quick tier means that a proof, the
    translator or the correspondence is broken and ONE concrete failing input is wanted: ~10x sample, but bounded time
    per family and in total, and the search stops at the first failing input that is not a listed open finding.
    (Thorough tier: the whole 10x sample, no early stop.)"""
    _setup()
    out = Outcome()
    rng = ctx.rng
    big = widened or ctx.thorough
    hunt = widened and not ctx.thorough
    kinds = ["leo", "molniya", "meo", "gto", "leo"]
    plan = [("simultaneous", 8 if big else 1, None), ("steep-mask", 8 if big else 1, None), ("shadow-frames", 8 if big else 1, None), ("anomaly-large-step", 20 if big else 2, None),
            ("backward", 20 if big else 2, 0), ("geosync", 15 if big else 2, None), ("numerical", 15 if big else 1, 0),
            ("ephem", 30 if big else 2, 1), ("analytical", 60 if big else 2, 0), ("visibility", 20 if big else 1, None)]
    hinted = None
    if hunt and any("visibility" in b for b in ctx.broken):
        hinted = "visibility"
        plan.sort(key=lambda x: x[0] != "visibility")     # the correspondence points at visibility: look there first (and longer)
    known = core.load_known()
    t_all = time.time()
    found = None
    for mode, n, off in plan:
        t_fam = time.time()
        for i in range(n):
            least = HUNT_MIN_INPUTS * (2 if hinted == mode else 1)
            if hunt and (found is not None or (i >= least and (time.time() - t_fam > HUNT_FAMILY_CAP_S or time.time() - t_all > HUNT_TOTAL_CAP_S))):
                out.tally(f"hunt-skipped:{mode}")
                continue
            kind = "leo" if off is None else kinds[(i + off) % len(kinds)]
            nf = len(out.failures)
            run_spec(out, gen_spec(rng, mode, kind, big))
            if hunt and found is None:
                found = next((f["family"] for f in out.failures[nf:] if core.match_known(ID, f, known) is None), None)
    if hunt:
        out.notes.append(f"widened oracle (quick tier): families in the order {[m for m, _, _ in plan]}, {HUNT_FAMILY_CAP_S:.0f} s per family, "
                         f"{HUNT_TOTAL_CAP_S:.0f} s in total, stopped at the first failing input outside the open findings: {found}")
    out.sample({"orbit": "random LEO/MEO/GTO/Molniya Keplerian orbits; Kepler, KeplerNum, Ephem sources; 8-14 listeners at once, incl. listeners with exactly simultaneous "
                         "crossings (same class twice, node / argument of latitude, apsis / anomalies) and station masks with steep edges on the azimuth track",
                "checked": "order, event iff sign change and guard (one event per listener, carrying that listener), between samples, sign change within 5 us, label vs direction of the "
                           "crossing of the listener's own watched quantity, closed-form node/apsis/anomaly times (1 ms), conical shadow (0.01 s / 0.5 s), visibility stream"})
    return out


def replay(f):
    out = Outcome()
    inp = f["input"]
    if isinstance(inp, dict) and "spec" in inp:
        run_spec(out, inp["spec"])
        # only the recorded family counts as a reproduction
        out.failures = [x for x in out.failures if x["family"] == f["family"]]
    elif isinstance(inp, dict) and inp.get("vis"):
        env = _Env.get()
        real = real_visibility(env, inp["samples"], [tuple(x) for x in inp["specs"]], tuple(inp["sta"]), inp["nl"], inp["how"],
                               inp["has_mask"], inp["mode"], inp["history"], tuple(inp["own"]))
        m = core.Driver("C10").run([inp["line"]])[0]
        if real != m:
            out.fail(f["family"], f["what"], inp, observed=real, expected=m)
    elif isinstance(inp, dict) and inp.get("light"):
        _setup()
        from beyond.dates import Date
        from beyond.orbits import Orbit
        from beyond.propagators import listeners as LS
        from beyond.env.solarsystem import get_body
        d = Date.strptime(inp["date"].split(" ")[0], "%Y-%m-%dT%H:%M:%S") if "T" in inp["date"] else None
        o = Orbit(list(inp["pos"]) + [0.0, 0.0, 0.0], d, "cartesian", get_body("Sun").propagate(d).frame, None)
        real = float(LS.LightListener(inp["type"])(o))
        line = f"c10l {1 if inp['type'] == 'penumbra' else 0} " + " ".join(core.f2b(x) for x in light_inputs(o))
        mv = core.b2f(core.Driver("C10").run([line])[0])
        if real != mv:
            out.fail(f["family"], f["what"], inp, observed=real, expected=mv)
    elif isinstance(inp, dict) and "query" in inp:
        env = _Env.get()
        real = real_query(env, tuple(inp["query"]), inp["samples"], [tuple(x) for x in inp["specs"]], tuple(inp["own"]))
        m = core.Driver("C10").run([inp["line"]])[0]
        if real != m:
            out.fail(f["family"], f["what"], inp, observed=real, expected=m)
    elif isinstance(inp, dict) and "line" in inp:
        env = _Env.get()
        real = real_stream(env, inp["samples"], [tuple(x) for x in inp["specs"]], inp["mode"], inp["history"], tuple(inp["own"]))
        m = core.Driver("C10").run([inp["line"]])[0]
        if real != m:
            out.fail(f["family"], f["what"], inp, observed=real, expected=m)
    return out


# =====================================================================================
#        extract: watched quantities, guards and labels translated from the source
# =====================================================================================

SPHERICAL = {"phi": "phi", "phi_dot": "phidot", "r_dot": "rdot"}
CLASSES = [  # (class, lean prefix, has f translated from __call__)
    ("NodeListener", "node", True),
    ("ApsideListener", "apside", True),
    ("StationSignalListener", "signal", True),
    ("StationMaskListener", "mask", True),
    ("StationMaxListener", "max", True),
    ("RadialVelocityListener", "radvel", True),
    ("LightListener", "light", False),
    ("TerminatorListener", "terminator", False),
]


class Untranslatable(Exception):
    pass


def _is_view(n):
    """orb / orb2 / orb.copy(...) : the state in the listener's own frame, spherical form"""
    import ast
    if isinstance(n, ast.Name) and n.id in ("orb", "orb2"):
        return True
    return (isinstance(n, ast.Call) and isinstance(n.func, ast.Attribute) and n.func.attr == "copy"
            and isinstance(n.func.value, ast.Name) and n.func.value.id in ("orb", "orb2"))


_LOCALS = {}   # local variables of the function being translated -> Lean term


def _expr(n):
    """Python expression over the quantities of one listener -> Lean term (Int / Bool / String)"""
    import ast
    if isinstance(n, ast.Name) and n.id in _LOCALS:
        return _LOCALS[n.id]
    src = ast.unparse(n)
    if src == "self._backward(orb)":
        return "bw"
    if src == "self.prev is not None":
        return "true"      # the model evaluates guards only when `prev` is set
    if src == "np.pi":
        return "piUnit"
    if src == "self._diff(orb)":
        return "fe"
    if src == "self._diff(self.prev)":
        return "fp"
    if isinstance(n, ast.Call) and isinstance(n.func, ast.Name) and n.func.id == "abs" and len(n.args) == 1:
        return f"(Int.natAbs ({_expr(n.args[0])}) : Int)"
    if isinstance(n, ast.Attribute) and n.attr in SPHERICAL and _is_view(n.value):
        return SPHERICAL[n.attr]
    if isinstance(n, ast.Attribute) and isinstance(n.value, ast.Name) and n.value.id == "self" and n.attr in ("elev", "sight"):
        return n.attr
    if isinstance(n, ast.Call) and isinstance(n.func, ast.Name) and n.func.id == "self" and len(n.args) == 1:
        a = n.args[0]
        if isinstance(a, ast.Name) and a.id == "orb":
            return "fe"
        if isinstance(a, ast.Attribute) and a.attr == "prev" and isinstance(a.value, ast.Name) and a.value.id == "self":
            return "fp"
    if isinstance(n, ast.Call) and isinstance(n.func, ast.Attribute) and n.func.attr == "get_mask" and ast.unparse(n) == "self.station.get_mask(orb.theta)":
        return "mask"
    if isinstance(n, ast.Constant) and isinstance(n.value, bool):
        return "true" if n.value else "false"
    if isinstance(n, ast.Constant) and isinstance(n.value, int):
        return f"({n.value} * unit)"
    if isinstance(n, ast.Constant) and isinstance(n.value, str):
        return '"' + n.value + '"'
    if isinstance(n, ast.BinOp) and isinstance(n.op, (ast.Sub, ast.Add)):
        return f"({_expr(n.left)} {'-' if isinstance(n.op, ast.Sub) else '+'} {_expr(n.right)})"
    if isinstance(n, ast.Compare) and len(n.ops) == 1:
        op = {ast.Lt: "<", ast.Gt: ">", ast.LtE: "≤", ast.GtE: "≥"}.get(type(n.ops[0]))
        if op:
            return f"decide ({_expr(n.left)} {op} {_expr(n.comparators[0])})"
        if isinstance(n.ops[0], ast.Eq) and ast.unparse(n) == "self.type == self.UMBRA":
            return "umbra"
        if isinstance(n.ops[0], ast.NotEq):     # used between two booleans only
            return f"({_expr(n.left)} != {_expr(n.comparators[0])})"
    if isinstance(n, ast.BoolOp):
        op = " || " if isinstance(n.op, ast.Or) else " && "
        return "(" + op.join(_expr(v) for v in n.values) + ")"
    if isinstance(n, ast.IfExp):
        return f"(if {_expr(n.test)} then {_expr(n.body)} else {_expr(n.orelse)})"
    raise Untranslatable(ast.unparse(n))


def _is_super_check(n):
    import ast
    return ast.unparse(n) == "super().check(orb)"


def _body(stmts, env):
    """statement list of `info` / `check` / `__call__` -> Lean term.  env: local string variables, event constants"""
    import ast
    stmts = [s for s in stmts if not (isinstance(s, ast.Expr) and isinstance(s.value, ast.Constant))]  # docstrings
    if not stmts:
        raise Untranslatable("empty body")
    s, rest = stmts[0], stmts[1:]
    if isinstance(s, ast.Assign) and len(s.targets) == 1 and isinstance(s.targets[0], ast.Name) and s.targets[0].id in ("orb", "orb2") and _is_view(s.value):
        return _body(rest, env)   # a change of frame / form of the same state
    if isinstance(s, ast.Assign) and len(s.targets) == 1 and isinstance(s.targets[0], ast.Name) and not isinstance(s.value, ast.Constant):
        _LOCALS[s.targets[0].id] = _expr(s.value)   # a local boolean / number
        try:
            return _body(rest, env)
        finally:
            _LOCALS.pop(s.targets[0].id, None)
    if isinstance(s, ast.If):
        # branches that assign a local string then fall through
        def branch(b):
            if len(b) == 1 and isinstance(b[0], ast.Assign) and isinstance(b[0].targets[0], ast.Name) and isinstance(b[0].value, ast.Constant):
                return _body(rest, dict(env, **{b[0].targets[0].id: _expr(b[0].value)}))
            return _body(b + rest, env)
        return f"(if {_expr(s.test)} then {branch(s.body)} else {branch(s.orelse)})"
    if isinstance(s, ast.Return):
        v = s.value
        if _is_super_check(v):
            return "true"
        if isinstance(v, ast.BoolOp) and isinstance(v.op, ast.And) and _is_super_check(v.values[-1]):
            return "(" + " && ".join(_expr(x) for x in v.values[:-1]) + ")"
        if isinstance(v, ast.Call) and ast.unparse(v.func) in env.get("__events__", {}):
            args = v.args
            if len(args) == 2:
                a = args[1]
                if isinstance(a, ast.Name) and a.id in env:
                    return env[a.id]
                return _expr(a)
            if len(args) == 1:
                c = env["__events__"][ast.unparse(v.func)]
                if c is None:
                    raise Untranslatable("event class without constant label: " + ast.unparse(v))
                return '"' + c + '"'
        return _expr(v)
    raise Untranslatable(ast.unparse(s))


def translate_listeners(src):
    """returns the text of Generated/ListenSrc.lean"""
    import ast
    tree = ast.parse(src)
    classes = {n.name: n for n in tree.body if isinstance(n, ast.ClassDef)}

    def method(cls, name):
        c = classes[cls]
        for n in c.body:
            if isinstance(n, ast.FunctionDef) and n.name == name:
                return n
        for b in c.bases:
            if isinstance(b, ast.Name) and b.id in classes:
                m = method(b.id, name)
                if m is not None:
                    return m
        return None

    def class_attr(cls, name):
        c = classes[cls]
        for n in c.body:
            if isinstance(n, ast.Assign) and isinstance(n.targets[0], ast.Name) and n.targets[0].id == name:
                return n.value
        for b in c.bases:
            if isinstance(b, ast.Name) and b.id in classes:
                v = class_attr(b.id, name)
                if v is not None:
                    return v
        return None

    def event_constant(evcls):
        """the literal passed as `info` by an Event subclass whose __init__ takes only the listener"""
        init = method(evcls, "__init__")
        if init is None or len(init.args.args) != 2:
            return None
        for n in ast.walk(init):
            if isinstance(n, ast.Call) and ast.unparse(n.func) == "super().__init__" and len(n.args) == 2 and isinstance(n.args[1], ast.Constant):
                return n.args[1].value
        return None

    out = ["/- GENERATED by harness/props/C10.py (extract) from beyond/propagators/listeners.py — do not edit.",
           "Watched quantity (`__call__`), guard (the part of an overridden `check` before `super().check`) and label",
           "(`info`) of every listener class, translated from the Python AST.  Quantities: `phi phidot rdot` spherical",
           "components of the state in the listener's frame, `mask = station.get_mask(theta)`, `fe = self(orb)`,",
           "`fp = self(self.prev)`, `bw = self._backward(orb)`; integer literals are multiplied by `unit` (the fixed-point scale",
           "of the quantity), `np.pi` is `piUnit` (the smallest integer above pi * unit). -/",
           "namespace BeyondVerif.Generated.ListenSrc", "set_option linter.unusedVariables false", ""]
    for cls, pre, has_f in CLASSES:
        evname = ast.unparse(class_attr(cls, "event"))
        events = {"self.event": event_constant(evname), evname: event_constant(evname)}
        for other in classes:
            if other.endswith("Event"):
                events.setdefault(other, event_constant(other))
        env = {"__events__": events}
        if has_f:
            f = _body(method(cls, "__call__").body, env)
            out.append(f"/-- `{cls}.__call__` -/")
            out.append(f"def {pre}F (unit phi phidot rdot elev mask : Int) : Int := {f}")
        chk = method(cls, "check")
        owner_is_base = chk is method("Listener", "check")
        g = "true" if owner_is_base else _body(chk.body, env)
        out.append(f"/-- `{cls}.check`: condition under which `Listener.check` is consulted -/")
        out.append(f"def {pre}Guard (unit piUnit : Int) (sight : Bool) (phi phidot rdot fe fp : Int) : Bool := {g}")
        lab = _body(method(cls, "info").body, env)
        out.append(f"/-- `{cls}.info(orb).info` -/")
        out.append(f"def {pre}Label (unit : Int) (umbra bw : Bool) (phi phidot rdot fe fp : Int) : String := {lab}")
        out.append("")
    # event class of every listener class with its base classes (for `isinstance(point.event, event_classes)` in
    # TopocentricFrame.visibility), and the composition of `stations_listeners`
    def ancestors(name):
        res = [name]
        for b in classes[name].bases:
            if isinstance(b, ast.Name) and b.id in classes:
                res += ancestors(b.id)
        return res
    rows = []
    for cls, pre, _ in CLASSES + [("AnomalyListener", "anomaly", False)]:
        rows.append(f'("{pre}", [' + ", ".join(f'"{a}"' for a in ancestors(ast.unparse(class_attr(cls, "event")))) + "])")
    out.append("/-- `Listener.event` of every listener class, followed by the base classes of that event class -/")
    out.append("def eventAncestors : List (String × List String) := [" + ", ".join(rows) + "]")
    fn = next(n for n in tree.body if isinstance(n, ast.FunctionDef) and n.name == "stations_listeners")
    pref = {c: p_ for c, p_, _ in CLASSES}
    always, ifmask = [], []
    for n in ast.walk(fn):
        if isinstance(n, ast.For):
            for st in n.body:
                if isinstance(st, ast.Expr) and ast.unparse(st.value).startswith("listeners.append("):
                    always.append(pref[st.value.args[0].func.id])
                elif isinstance(st, ast.If) and ast.unparse(st.test) == "sta.mask is not None":
                    for st2 in st.body:
                        ifmask.append(pref[st2.value.args[0].func.id])
                else:
                    raise Untranslatable(ast.unparse(st))
    out.append("/-- `stations_listeners(sta)`: listener classes always attached, and those attached when the station has a mask -/")
    out.append("def stationListeners : List String := [" + ", ".join(f'"{x}"' for x in always) + "]")
    out.append("def stationListenersIfMask : List String := [" + ", ".join(f'"{x}"' for x in ifmask) + "]")
    out.append("")
    # AnomalyListener: guard from the AST, label prefixes from the ANOMALIES table (evaluated on the live class)
    env = {"__events__": {}}
    out.append("/-- `AnomalyListener.check` -/")
    out.append(f"def anomalyGuard (unit piUnit : Int) (sight : Bool) (phi phidot rdot fe fp : Int) : Bool := {_body(method('AnomalyListener', 'check').body, env)}")
    return out


LIGHT_PREAMBLE = {   # the geometric inputs of LightListener.__call__, as the source must define them (replicated by `light_inputs`)
    "sun": 'get_body("Sun")',
    "x_sun": "np.array(sun_orb[:3])",
    "norm_x_sun": "np.linalg.norm(x_sun)",
    "x_sat": "np.array(orb[:3])",
    "norm_x_sat": "np.linalg.norm(x_sat)",
}
# which frame Sun and satellite are converted to: the recognised forms of the remaining assignments -> the frame used when
# `self.frame is None` ("sun": the frame the Sun's own propagator works in; "orb": the frame the state is expressed in)
LIGHT_FRAME_RULES = {
    "sun": {"sun_orb": "sun.propagate(orb.date).copy(frame=self.frame)", "orb": 'orb.copy(form="cartesian", frame=sun_orb.frame)'},
    "orb": {"frame": "orb.frame if self.frame is None else self.frame", "sun_orb": 'sun.propagate(orb.date).copy(form="cartesian", frame=frame)',
            "orb": 'orb.copy(form="cartesian", frame=frame)'},
}
_light_rule = [None]


def light_frame_rule():
    if _light_rule[0] is None:
        translate_light(os.path.join(core.REPO, "beyond", "propagators", "listeners.py"))
    return _light_rule[0]


def translate_light(path):
    """`LightListener.__call__` from the assignment of `alpha_umb` to the end -> text of `def lightValue` (neutral in R):
    the value as a function of the Sun / body radii, the two norms and the dot product `x_sun @ x_sat`"""
    import ast
    from harness import py2lean
    tree = ast.parse(open(path).read())
    fn = py2lean.find_function(tree, "LightListener.__call__")
    stmts = [s for s in fn.body if not (isinstance(s, ast.Expr) and isinstance(s.value, ast.Constant))]
    cut = next((i for i, s in enumerate(stmts) if isinstance(s, ast.Assign) and ast.unparse(s.targets[0]) == "alpha_umb"), None)
    if cut is None:
        raise Untranslatable("LightListener.__call__: no assignment to alpha_umb")
    seen = {}
    for s in stmts[:cut]:
        if isinstance(s, ast.ImportFrom):
            continue
        if not (isinstance(s, ast.Assign) and len(s.targets) == 1 and isinstance(s.targets[0], ast.Name)):
            raise Untranslatable("LightListener.__call__ preamble: " + ast.unparse(s))
        seen[s.targets[0].id] = ast.unparse(s.value)
    norm = lambda d: {k: ast.unparse(ast.parse(v, mode="eval").body) for k, v in d.items()}
    rule = next((r for r, extra in LIGHT_FRAME_RULES.items() if seen == norm(dict(LIGHT_PREAMBLE, **extra))), None)
    if rule is None:
        raise Untranslatable(f"LightListener.__call__ preamble changed: {seen}")
    _light_rule[0] = rule

    class Dot(ast.NodeTransformer):
        def visit_BinOp(self, n):
            self.generic_visit(n)
            if isinstance(n.op, ast.MatMult):
                if sorted([ast.unparse(n.left), ast.unparse(n.right)]) == ["x_sat", "x_sun"]:
                    return ast.Name(id="dot_sun_sat")
                if sorted([ast.unparse(n.left), ast.unparse(n.right)]) == ["-x_sun", "x_sat"]:
                    return ast.UnaryOp(op=ast.USub(), operand=ast.Name(id="dot_sun_sat"))
                raise Untranslatable("matmul " + ast.unparse(n))
            return n
    tr = py2lean.Tr(consts={"sun.r": "rsun", "orb.frame.center.body.r": "rbody"})

    def test(e):
        src = ast.unparse(e)
        if src == "self.type == self.PENUMBRA":
            return "penumbra"
        if src == "self.type == self.UMBRA":
            return "(!penumbra)"
        return tr.expr(e)

    def go(ss, cont):
        if not ss:
            return cont
        s, rest = ss[0], ss[1:]
        if isinstance(s, ast.Assign) and len(s.targets) == 1 and isinstance(s.targets[0], ast.Name):
            return f"let {py2lean.lname(s.targets[0].id)} : R := {tr.expr(s.value)}\n" + go(rest, cont)
        if isinstance(s, ast.If):
            k = go(rest, cont)
            return f"(if {test(s.test)} then\n{py2lean.indent(go(s.body, k))}\nelse\n{py2lean.indent(go(s.orelse, k))})"
        if isinstance(s, ast.Return) and s.value is not None:
            return tr.expr(s.value)
        raise Untranslatable("LightListener.__call__: " + ast.unparse(s))
    body = [Dot().visit(s) for s in stmts[cut:]]
    if not isinstance(body[-1], ast.Return):
        raise Untranslatable("LightListener.__call__ does not end with a return")
    text = go(body[:-1], tr.expr(body[-1].value))
    return ("/-- `LightListener.__call__` after the geometric inputs: `rsun`, `rbody` radii of the Sun and of the central body,\n"
            "`norm_x_sun`, `norm_x_sat` norms of the Sun and satellite positions, `dot_sun_sat = x_sun @ x_sat`; `penumbra`: `self.type == self.PENUMBRA` -/\n"
            "def lightValue (penumbra : Bool) (rsun rbody norm_x_sun norm_x_sat dot_sun_sat : R) : R :=\n" + py2lean.indent(text) + "\n")


def anomaly_labels():
    """label prefix per anomaly key, by calling the real `info` on a stub"""
    _setup()
    from beyond.propagators import listeners as LS

    class _O:
        def copy(self, **kw):
            return self
    for k in ("ν", "M", "E", "u"):
        setattr(_O, k, 0.0)
    res = []
    for key in LS.AnomalyListener.ANOMALIES:
        res.append((key, LS.AnomalyListener(0.0, key).info(_O()).info.split(" = ")[0]))
    return res


def extract(ctx):
    src = open(os.path.join(core.REPO, "beyond", "propagators", "listeners.py")).read()
    out = translate_listeners(src)
    labs = anomaly_labels()
    out.append("/-- text before ` = ` in `AnomalyListener.info`, per key of `AnomalyListener.ANOMALIES` -/")
    out.append("def anomalyLabels : List (String × String) := [" + ", ".join(f'("{k}", "{v}")' for k, v in labs) + "]")
    out.append("")
    lpath = os.path.join(core.REPO, "beyond", "propagators", "listeners.py")
    light_text = translate_light(lpath)
    out.append("/-- `LightListener.__call__`: the frame Sun and satellite are converted to when `self.frame is None` — \"sun\": the frame of the")
    out.append("Sun's own state (`sun.propagate(date)`), \"orb\": the frame the state handed to the listener is expressed in -/")
    out.append(f'def lightFrameIfNone : String := "{_light_rule[0]}"')
    out.append("")
    out.append("end BeyondVerif.Generated.ListenSrc")
    ch = core.write_if_changed(os.path.join(core.LEAN, "BeyondVerif", "Generated", "ListenSrc.lean"), "\n".join(out) + "\n")
    from harness import py2lean
    ch2 = py2lean.instantiate(core.LEAN, "LightSrc", light_text, "beyond/propagators/listeners.py (LightListener.__call__)")
    return (["Generated/ListenSrc.lean"] if ch else []) + ch2


# =====================================================================================
#   correspondence: the REAL Speaker.listen / _bisect / Listener.check / clear, the real listener
#   classes and the real iter() of AnalyticalPropagator and Ephem, driven through stub states whose
#   spherical components are integer polynomials of the date in µs  —  against the Lean model
# =====================================================================================

ANOM_UNIT = 1 << 20
OWN = "own-frame"     # key of `chans` holding the Key of the frame the stub states are produced in
n_shared = [0]   # listeners generated with the components of their predecessor (evidence only)
FRAMELESS = ("node", "apside", "anomaly:true", "anomaly:mean", "anomaly:eccentric", "anomaly:aol")   # classes whose `frame` defaults to None
ON_STATION = ("signal", "mask", "max", "radvel0", "radvel1")   # classes that take a station: can be attached to the station `visibility` is called on
KINDS = ["node", "apside", "signal", "mask", "max", "radvel0", "radvel1", "umbra", "penumbra", "terminator",
         "anomaly:true", "anomaly:mean", "anomaly:eccentric", "anomaly:aol"]


def evalpoly(cs, x):
    acc = 0
    for c in reversed(cs):
        acc = c + x * acc
    return acc


class _Env:
    """stub classes, built once (after beyond has been imported from core.REPO)"""
    _inst = None

    @classmethod
    def get(cls):
        if cls._inst is None:
            cls._inst = cls()
        return cls._inst

    def __init__(self):
        _setup()
        from beyond.dates import Date
        from beyond.propagators.base import AnalyticalPropagator
        from beyond.orbits.ephem import Ephem
        from beyond.propagators import listeners as LS
        env = self
        self.LS = LS
        self.Date = Date
        self.EPOCH = Date(2020, 1, 1)

        def us(date):
            return (date - env.EPOCH) // US
        self.us = us

        class View:
            """`orb.copy(frame=key, form=…)`: a new state object in the given frame — the components the listeners read,
            plus what a copy of a real state vector carries over (date, `event`)"""
            def __init__(self, t, ch, date=None, event=None):
                self.t, self.ch, self.date, self.event = t, ch, date, event
            phi = property(lambda s: evalpoly(s.ch[0], s.t))
            phi_dot = property(lambda s: evalpoly(s.ch[1], s.t))
            r_dot = property(lambda s: evalpoly(s.ch[2], s.t))
            theta = property(lambda s: s.t)
            raw = phi

            def _anom(self):
                x = evalpoly(self.ch[0], self.t)
                x = max(-3 * ANOM_UNIT, min(3 * ANOM_UNIT, x))
                return x / ANOM_UNIT
        for a in ("ν", "M", "E", "u"):
            setattr(View, a, property(View._anom))

        class StubOrb:
            """what the stub propagator / ephemeris yields: a state object with a (settable) `frame` of its own — the key
            `chans[OWN]` — in which the `frame=None` listeners read it"""
            def __init__(self, date, chans, frame=None):
                self.date, self.chans, self.event = date, chans, None
                self.t = us(date)
                self.frame = chans[OWN] if frame is None else frame
                self.form = "cartesian"

            @property
            def phi(self):
                # (read by a `visibility` that re-frames the point itself: `point.frame = station; point.form = "spherical"`)
                return evalpoly(self.chans[self.frame][0], self.t)

            def copy(self, *, frame=None, form=None, same=None):
                # StateVector.copy: a new object; `frame` / `form` None keep those of the original
                if frame is None and form is None:
                    o = StubOrb(self.date, self.chans, self.frame)
                    o.event = self.event
                    return o
                return View(self.t, self.chans[self.frame if frame is None else frame], self.date, self.event)

        class Key:
            """stands for a frame or a station"""

            def __init__(self, chans_entry, mask=True):
                self.entry = chans_entry
                self.mask = mask        # `stations_listeners` only looks at `sta.mask is not None`

            def get_mask(self, azim):
                return evalpoly(self.entry[3], azim)

        class StubLight(LS.LightListener):
            def __call__(self, orb):
                return orb.copy(frame=self.frame, form="cartesian").raw

        class StubTerminator(LS.TerminatorListener):
            def __init__(self, key):
                self._frame = key

            def __call__(self, orb):
                return orb.copy(frame=self._frame, form="cartesian").raw

        class StubProp(AnalyticalPropagator):
            def __init__(self, chans):
                self.chans = chans
                self.orbit = StubOrb(env.EPOCH, chans)
                self.calls = 0

            def propagate(self, date):
                self.calls += 1
                return StubOrb(date, self.chans)

        class StubEphem(Ephem):
            def __init__(self, dates, chans):
                self.chans = chans
                self._orbits = [StubOrb(d, chans) for d in sorted(dates, key=lambda d: d._mjd)]

            def interpolate(self, date):
                return StubOrb(date, self.chans)

        self.View, self.StubOrb, self.Key, self.StubLight, self.StubTerminator, self.StubProp, self.StubEphem = View, StubOrb, Key, StubLight, StubTerminator, StubProp, StubEphem

    def date(self, t):
        from datetime import timedelta
        return self.EPOCH + timedelta(microseconds=t)

    def build(self, specs, own, station=None):
        """specs: list of (kind, A, B, C, D, elev), kind + "@" for a listener created with frame=None (A–D empty),
        kind + "=" for a listener attached to the object `station` itself (A–D: the components of that station);
        own: (A, B, C, D) components of the states in their own frame  ->  (listeners, chans)"""
        LS = self.LS
        chans = {}
        okey = self.Key(tuple(own) + (0,))
        chans[okey] = okey.entry
        chans[OWN] = okey
        Ls = []
        for kind, A, B, C, D, E in specs:
            if kind.endswith("@"):
                kind, key = kind[:-1], None
                if kind not in FRAMELESS:
                    raise ValueError(kind)
            elif kind.endswith("="):
                # bound to the very station object `visibility` is called on (same class as one of the station's own
                # listeners or not, watching the same quantity or not — `elev`)
                kind, key = kind[:-1], station
                if station is None or kind not in ON_STATION:
                    raise ValueError(kind)
            else:
                entry = (A, B, C, D, E)
                key = self.Key(entry)
                chans[key] = entry
            if kind == "node":
                L = LS.NodeListener(frame=key) if key else LS.NodeListener()
            elif kind == "apside":
                L = LS.ApsideListener(frame=key) if key else LS.ApsideListener()
            elif kind == "signal":
                L = LS.StationSignalListener(key, elev=E)
            elif kind == "mask":
                L = LS.StationMaskListener(key)
            elif kind == "max":
                L = LS.StationMaxListener(key)
            elif kind in ("radvel0", "radvel1"):
                L = LS.RadialVelocityListener(key, sight=kind == "radvel1")
            elif kind in ("umbra", "penumbra"):
                L = self.StubLight(kind, frame=key)
            elif kind == "terminator":
                L = self.StubTerminator(key)
            elif kind.startswith("anomaly:"):
                L = LS.AnomalyListener(0.0, kind.split(":")[1], frame=key) if key else LS.AnomalyListener(0.0, kind.split(":")[1])
            else:
                raise ValueError(kind)
            Ls.append(L)
        return Ls, chans

    def signature(self, stream, Ls):
        sig = []
        for o in stream:
            if o.event:
                idx = next(i for i, L in enumerate(Ls) if o.event.listener is L)
                sig.append(f"{self.us(o.date)}/{idx}/{o.event.info.split(' = ')[0]}")
            else:
                sig.append(f"{self.us(o.date)}/-")
        return ";".join(sig)


def gen_poly(rng, lo, hi, samples, maxdeg=3):
    """integer polynomial with roots inside [lo, hi] (some exactly on samples), |value| < 2^62 on the window"""
    W = max(hi - lo, 2)
    deg = rng.randint(0, maxdeg)
    while deg > 0 and 4 * (2 * W) ** deg >= 1 << 61:
        deg -= 1
    cs = [rng.choice([1, -1, 2, -3])]
    for _ in range(deg):
        if rng.random() < 0.25 and samples:
            r = rng.choice(samples)
        else:
            r = rng.randint(lo - W // 10, hi + W // 10)
        # multiply by (x - r)
        new = [0] * (len(cs) + 1)
        for i, c in enumerate(cs):
            new[i + 1] += c
            new[i] -= r * c
        cs = new
    if rng.random() < 0.3:
        cs[0] += rng.randint(-3, 3)
    return cs


def gen_samples(rng):
    """sample dates in µs after the epoch: (list, kind)"""
    r = rng.random()
    n = rng.randint(2, 14)
    if r < 0.12:
        sp = [rng.choice([1, 1, 2, 3]) for _ in range(n)]
        kind = "tiny"
    elif r < 0.55:
        s = rng.choice([2, 3, 4, 5, 7, 10, 33, 100, 1000, 4097])
        sp = [s] * n
        kind = "regular-small"
    elif r < 0.8:
        s = rng.choice([10**5, 10**6, 3 * 10**6 + 1, 6 * 10**7, 10**8 + 7])
        sp = [s] * n
        kind = "regular-large"
    else:
        sp = [rng.choice([2, 5, 1000, 10**6, 12345677]) for _ in range(n)]
        kind = "irregular"
    t0 = rng.choice([0, 1, 10**6, 86400 * 10**6 - 5, rng.randrange(10**10)])
    ts = [t0]
    for d in sp:
        ts.append(ts[-1] + d)
    if rng.random() < 0.2:
        ts.reverse()
        kind += "-backward"
    return ts, kind


def gen_case(rng):
    ts, skind = gen_samples(rng)
    lo, hi = min(ts), max(ts)
    specs = []
    own_anom = None
    for _ in range(rng.choice([1, 1, 2, 2, 3, 4, 6])):
        kind = rng.choice(KINDS)
        if kind.startswith("anomaly"):
            # radians * 2^20: slope such that the window covers a few radians
            W = max(hi - lo, 1)
            r = rng.choice(ts) if rng.random() < 0.3 else rng.randint(lo, hi)
            num = rng.choice([1, -1, 2, 5]) * max(1, (4 * ANOM_UNIT) // W)
            A = [-r * num, num]
        else:
            A = gen_poly(rng, lo, hi, ts)
        B = gen_poly(rng, lo, hi, ts, 2)
        C = gen_poly(rng, lo, hi, ts, 2)
        D = gen_poly(rng, lo, hi, ts, 1)
        E = rng.choice([0, 0, 1, -2, 1000])
        prev = next((q for q in reversed(specs) if not q[0].endswith("@")), None)
        if prev is not None and rng.random() < 0.25 and prev[0].startswith("anomaly") == kind.startswith("anomaly"):
            # same components as the previous listener (half of the time the same class too): their watched quantities share
            # their roots, the crossings are exactly simultaneous and bisect through the same dates
            A, B, C, D = prev[1], prev[2], prev[3], prev[4]
            if rng.random() < 0.5:
                kind, E = prev[0], prev[5]
            specs.append((kind, A, B, C, D, E))
            n_shared[0] += 1
            continue
        if kind in FRAMELESS and rng.random() < 0.4:
            # created with frame=None: reads the states in their own frame
            if kind.startswith("anomaly"):
                if own_anom is None:
                    own_anom = A
                    specs.append((kind + "@", [], [], [], [], 0))
                    continue
            else:
                specs.append((kind + "@", [], [], [], [], 0))
                continue
        specs.append((kind, A, B, C, D, E))
    # the states' own frame: latitude (or, when a frame-less anomaly listener is present, the anomaly in fixed point),
    # its rate, radial velocity, (mask: unused)
    own = (own_anom if own_anom is not None else gen_poly(rng, lo, hi, ts), gen_poly(rng, lo, hi, ts, 2), gen_poly(rng, lo, hi, ts, 2), [0])
    mode = rng.choice(["dates", "dates", "range", "ephem-dates", "ephem-step", "ephem-nostep", "ephem-inside"])
    steps = {ts[i + 1] - ts[i] for i in range(len(ts) - 1)}
    if mode in ("range", "ephem-step") and (len(steps) != 1 or (mode == "ephem-step" and ts[1] < ts[0])):
        mode = "dates"
    if mode == "ephem-nostep" and ts[1] < ts[0]:
        mode = "ephem-dates"
    history = rng.choice(["fresh", "fresh", "reuse", "abandoned"])
    if len(specs) == 1 and rng.random() < 0.5:
        history += "+single"      # the one listener is handed over as an object, not in a list (`isinstance(listeners, Listener)`)
    return ts, skind, specs, mode, history, own


def _p(cs):
    return ",".join(str(c) for c in cs) or "-"


def _specs_txt(specs):
    # (for the model a listener attached to the station itself is a listener whose components are the station's: `=` dropped)
    return " ".join(f"{k.rstrip('=')} {_p(A)} {_p(B)} {_p(C)} {_p(D)} {E}" for k, A, B, C, D, E in specs)


def case_line(ts, specs, own):
    return (f"c10 {_p(ts)} {_p(own[0])} {_p(own[1])} {_p(own[2])} {_p(own[3])} " + _specs_txt(specs)).rstrip()


def real_stream(env, ts, specs, mode, history, own):
    from datetime import timedelta
    Ls, chans = env.build(specs, own)
    dates = [env.date(t) for t in ts]
    if mode.startswith("ephem"):
        # stored points: the samples themselves (nostep) or a coarser grid around them
        if mode == "ephem-nostep":
            src = env.StubEphem(dates, chans)
        elif mode == "ephem-inside":
            # stored points ahead of `start` and beyond `stop`: they are not part of the iteration
            lo, hi = min(ts), max(ts)
            gap = max(1, abs(ts[1] - ts[0]))
            src = env.StubEphem([env.date(lo - 2 * gap - 1), env.date(lo - gap)] + dates + [env.date(hi + gap), env.date(hi + 3 * gap)], chans)
        else:
            lo, hi = min(ts), max(ts)
            src = env.StubEphem([env.date(lo - 5), env.date((lo + hi) // 2), env.date(hi + 5)], chans)
    else:
        src = env.StubProp(chans)

    single = history.endswith("+single")
    history = history.split("+")[0]
    arg = Ls[0] if single else Ls

    def run(ts_, dates_):
        if mode in ("dates", "ephem-dates"):
            return src.iter(dates=list(dates_), listeners=arg)
        step = timedelta(microseconds=ts_[1] - ts_[0])
        if mode == "range":
            return src.iter(start=dates_[0], stop=dates_[-1], step=step, listeners=arg)
        if mode == "ephem-step":
            return src.iter(start=dates_[0], stop=dates_[-1], step=step, listeners=arg)
        if mode in ("ephem-nostep", "ephem-inside"):
            return src.iter(start=dates_[0], stop=dates_[-1], listeners=arg)
        raise ValueError(mode)
    if history == "reuse":
        list(run(ts, dates))
    elif history == "abandoned":
        g = run(ts, dates)
        for _ in range(3):
            next(g, None)
    return env.signature(list(run(ts, dates)), Ls)


def light_inputs(orb, frame=None):
    """the geometric inputs of LightListener.__call__, computed as its first lines do (`LIGHT_PREAMBLE`, checked against the
    source by `translate_light`): (rsun, rbody, |x_sun|, |x_sat|, x_sun @ x_sat)"""
    import numpy as np
    from beyond.env.solarsystem import get_body
    sun = get_body("Sun")
    if light_frame_rule() == "sun":
        sun_orb = sun.propagate(orb.date).copy(frame=frame)
        orb = orb.copy(form="cartesian", frame=sun_orb.frame)
    else:
        frame = orb.frame if frame is None else frame
        sun_orb = sun.propagate(orb.date).copy(form="cartesian", frame=frame)
        orb = orb.copy(form="cartesian", frame=frame)
    x_sun = np.array(sun_orb[:3])
    x_sat = np.array(orb[:3])
    return float(sun.r), float(orb.frame.center.body.r), float(np.linalg.norm(x_sun)), float(np.linalg.norm(x_sat)), float(x_sun @ x_sat)


_lsta = []


def _light_station():
    if not _lsta:
        _lsta.append(build_station({"latlonalt": [43.6, 1.44, 150.0], "mask": None}))
    return _lsta[0]


def _near_boundary(env, o, typ):
    """the real value changes within 1 m of this position (perpendicular to the Sun direction)"""
    import numpy as np
    from beyond.orbits import Orbit
    r = np.array(o[:3], dtype=float)
    s = np.array(light_sun_pos(o), dtype=float)
    u = s / np.linalg.norm(s)
    perp = r - (r @ u) * u
    n = np.linalg.norm(perp)
    if n == 0:
        return False
    perp /= n
    L = env.LS.LightListener(typ)
    vals = {float(L(Orbit(list(r + d * perp) + [0.0, 0.0, 0.0], o.date, "cartesian", o.frame, None))) for d in (-1.0, 1.0)}
    return len(vals) == 2


def light_sun_pos(o):
    from beyond.env.solarsystem import get_body
    return get_body("Sun").propagate(o.date).copy(frame=o.frame, form="cartesian")[:3]


def gen_light_states(rng, n):
    """state vectors around the Earth's shadow: random positions, and positions next to the umbra / penumbra boundary of the
    REAL listener (found by bisection on the distance to the shadow axis), from 0.05 to 12 Earth radii behind the Earth"""
    import numpy as np
    from beyond.dates import Date
    from beyond.orbits import Orbit
    from beyond.env.solarsystem import get_body
    from beyond.propagators import listeners as LS
    sun = get_body("Sun")
    Re = 6378136.3
    res = []
    while len(res) < n:
        date = Date(2015 + rng.randrange(10), rng.randint(1, 12), rng.randint(1, 28), rng.randrange(24), rng.randrange(60), rng.randrange(60))
        so = sun.propagate(date)
        u = -np.array(so[:3], dtype=float)
        u /= np.linalg.norm(u)
        a = np.cross(u, [rng.gauss(0, 1), rng.gauss(0, 1), rng.gauss(0, 1)])
        a /= np.linalg.norm(a)

        def state(along, perp):
            return Orbit(list(along * u + perp * a) + [0.0, 0.0, 0.0], date, "cartesian", so.frame, None)
        r = rng.random()
        typ = rng.choice(["umbra", "penumbra"])
        if r < 0.35:
            along = Re * rng.uniform(-3, 12)
            perp = Re * rng.uniform(0, 1.6)
            how = "random"
        else:
            along = Re * math.exp(rng.uniform(math.log(0.05), math.log(12)))
            L = LS.LightListener(typ)
            lo, hi = 0.0, 1.3 * Re     # value -1 on the axis (behind the Earth), +1 far from it
            if L(state(along, lo)) > 0 or L(state(along, hi)) < 0:
                continue
            for _ in range(33):
                mid = 0.5 * (lo + hi)
                if L(state(along, mid)) < 0:
                    lo = mid
                else:
                    hi = mid
            perp = max(0.0, lo + rng.choice([-1, 1]) * rng.choice([0.0, 1e-3, 1.0, 1e3]))
            how = "boundary"
        res.append((state(along, perp), typ, how))
    return res


KIND_LABELS = {"node": ["Asc Node", "Desc Node"], "apside": ["Periapsis", "Apoapsis"], "signal": ["AOS", "LOS"], "mask": ["AOS", "LOS"], "max": ["MAX"],
               "radvel0": ["Radial Velocity"], "radvel1": ["Radial Velocity"], "umbra": ["Umbra entry", "Umbra exit"],
               "penumbra": ["Penumbra entry", "Penumbra exit"], "terminator": ["Day Terminator", "Night Terminator"]}


def gen_query(rng, specs):
    """a consumer of the stream: ("events", [labels]) for events_iterator, ("find", label, offset) for find_event"""
    labs = sorted({l for k, *_ in specs for l in KIND_LABELS.get(k.rstrip("@"), [])}) or ["AOS"]
    if rng.random() < 0.4:
        r = rng.random()
        chosen = [] if r < 0.3 else rng.sample(labs, min(len(labs), rng.randint(1, 3)))
        if r > 0.8:
            chosen.append("No Such Event")
        return ("events", chosen)
    return ("find", rng.choice(labs + ["MAX"]), rng.choice([0, 0, 0, 1, 1, 2, 3, 7, -1]))


def query_line(q, ts, specs, own):
    tail = case_line(ts, specs, own)[len("c10 "):]
    if q[0] == "events":
        return "c10e " + (",".join(l.replace(" ", "_") for l in q[1]) or "-") + " " + tail
    return f"c10f {q[1].replace(' ', '_')} {q[2]} " + tail


def real_query(env, q, ts, specs, own):
    """the REAL events_iterator / find_event over the real iter() of the stub propagator"""
    LS = env.LS
    Ls, chans = env.build(specs, own)
    it = env.StubProp(chans).iter(dates=[env.date(t) for t in ts], listeners=Ls)
    if q[0] == "events":
        return env.signature(list(LS.events_iterator(it, *q[1])), Ls)
    try:
        return env.signature([LS.find_event(it, q[1], q[2])], Ls)
    except RuntimeError:
        return "runtime-error"


def gen_vis_case(rng):
    """TopocentricFrame.visibility through the stubs: station components, the caller's listeners (via listeners= and/or
    events=), events flag, mask or not"""
    ts, skind, specs, _, history, own = gen_case(rng)
    history = history.split("+")[0]
    lo, hi = min(ts), max(ts)
    sta = (gen_poly(rng, lo, hi, ts), gen_poly(rng, lo, hi, ts, 2), gen_poly(rng, lo, hi, ts, 2), gen_poly(rng, lo, hi, ts, 1), 0)
    r = rng.random()
    if r < 0.15:
        specs = []
    elif r < 0.35 and not any(k.startswith("anomaly") for k, *_ in specs):
        # one more frame-less listener: the case the in-place re-framing of the yielded points used to break
        specs = specs + [(rng.choice(["node@", "apside@"]), [], [], [], [], 0)]
        rng.shuffle(specs)
    has_mask = rng.random() < 0.5
    r = rng.random()
    if r < 0.4:
        # listeners of the caller attached to the SAME station object: of the classes of the station's own listeners (with the
        # same or another `elev`), of other classes, or the complete `stations_listeners(station)` set — the station's own
        # listeners are attached all the same, every sign change has its event from each listener watching it
        if r < 0.08:
            extra = [("signal=",) + sta[:4] + (0,), ("max=",) + sta[:4] + (0,)] + ([("mask=",) + sta[:4] + (0,)] if has_mask else [])
        else:
            extra = []
            for _ in range(rng.choice([1, 1, 2, 3])):
                k = rng.choice(["signal", "signal", "signal", "max", "mask", "radvel0", "radvel1"])
                extra.append((k + "=",) + sta[:4] + (rng.choice([0, 1, -2, 1000, 5, -1]) if k == "signal" else 0,))
        specs = list(specs)
        for x in extra:
            specs.insert(rng.randint(0, len(specs)), x)
    nl = rng.randint(0, len(specs))        # the first nl through listeners=, the others through events=
    how = rng.choice(["true", "list", "list", "tuple", "single", "none"])
    if how in ("list", "tuple") and nl == len(specs):
        how = "true"
    if how == "single":
        if not specs:
            how = "true"
        else:
            nl = len(specs) - 1
    if how in ("true", "none"):
        nl = len(specs)
    mode = rng.choice(["dates", "dates", "range"])
    if mode == "range" and len({ts[i + 1] - ts[i] for i in range(len(ts) - 1)}) != 1:
        mode = "dates"
    return ts, skind, specs, sta, nl, how, has_mask, mode, history, own


def vis_line(ts, specs, sta, how, has_mask, own):
    p = _p
    return (f"c10v {0 if how == 'none' else 1} {1 if has_mask else 0} {p(ts)} {p(own[0])} {p(own[1])} {p(own[2])} {p(own[3])} "
            f"{p(sta[0])} {p(sta[1])} {p(sta[2])} {p(sta[3])} " + _specs_txt(specs)).rstrip()


def real_visibility(env, ts, specs, sta, nl, how, has_mask, mode, history, own):
    """the REAL TopocentricFrame.visibility (called unbound on a stub station) over the stub propagator"""
    from datetime import timedelta
    from beyond.frames.stations import TopocentricFrame
    LS = env.LS
    station = env.Key(sta, mask=True if has_mask else None)
    Ls, chans = env.build(specs, own, station)
    chans[station] = sta
    src = env.StubProp(chans)
    dates = [env.date(t) for t in ts]
    mine = list(Ls[:nl])
    n_before = len(mine)

    def run():
        kw = {}
        if mode == "dates":
            kw["dates"] = list(dates)
        else:
            kw.update(start=dates[0], stop=dates[-1], step=timedelta(microseconds=ts[1] - ts[0]))
        if how == "true":
            kw["events"] = True
        elif how == "list":
            kw["events"] = list(Ls[nl:])
        elif how == "tuple":
            kw["events"] = tuple(Ls[nl:])
        elif how == "single":
            kw["events"] = Ls[nl]
        return TopocentricFrame.visibility(station, src, listeners=mine, **kw)
    if history == "reuse":
        list(run())
    elif history == "abandoned":
        g = run()
        for _ in range(3):
            next(g, None)
    stream = list(run())
    if len(mine) != n_before:
        return "caller's listeners list was modified"
    merged = list(Ls)
    sig = []
    for o in stream:
        if o.event:
            L = o.event.listener
            idx = next((i for i, x in enumerate(merged) if x is L), None)
            if idx is None:   # one of the station's own listeners, created inside visibility
                order = [LS.StationSignalListener, LS.StationMaxListener, LS.StationMaskListener]
                idx = len(merged) + next(i for i, c in enumerate(order) if type(L) is c)
                if L.station is not station:
                    return "event of an unknown listener"
            sig.append(f"{env.us(o.date)}/{idx}/{o.event.info.split(' = ')[0]}")
        else:
            sig.append(f"{env.us(o.date)}/-")
    return ";".join(sig)


# the kernel-checked regression witnesses of Witness/C10.lean (`visibility_frameless_*`), replayed on the implementation:
# (samples, user listeners, station components, own components, expected stream)
_WITNESS_VIS = [
    # range rate in the states' own frame constant +5 (no apsis), topocentric range rate -5, in view all along:
    # no event at all (before d3db55e: a "Periapsis" 1 us after every sample)
    ([0, 1000, 2000], [("apside@", [], [], [], [], 0)], ([1], [0], [-5], [0], 0), ([0], [0], [5], [0]),
     "0/-;1000/-;2000/-"),
    # own radial velocity t - 500: one genuine periapsis at 500 us, found although the topocentric range rate is negative
    ([0, 1000], [("apside@", [], [], [], [], 0)], ([1], [0], [-5], [0], 0), ([0], [0], [-500, 1], [0]),
     "0/-;500/0/Periapsis;1000/-"),
    # latitude in the own frame t - 1500 (ascending node at 1500 us), elevation 7 - t/1000 ... here 2500 - t: the node is
    # found in view; the station's own AOS/LOS listener sees the LOS at 2500
    ([0, 1000, 2000, 3000], [("node@", [], [], [], [], 0)], ([2500, -1], [-1], [0], [0], 0), ([-1500, 1], [1], [0], [0]),
     "0/-;1000/-;1500/0/Asc Node;2000/-;2500/1/LOS"),
]


def correspondence(ctx):
    out = Outcome()
    env = _Env.get()
    rng = ctx.rng
    # ---- TopocentricFrame.visibility
    vcases = [(ts, "witness", specs, sta, len(specs), "true", False, "dates", "fresh", own) for ts, specs, sta, own, _ in _WITNESS_VIS]
    vcases += [gen_vis_case(rng) for _ in range(ctx.n(800, 32000))]
    vlines = [vis_line(c[0], c[2], c[3], c[5], c[6], c[9]) for c in vcases]
    vmodel = core.Driver("C10").run(vlines)
    for w, m in zip(_WITNESS_VIS, vmodel):
        if m != w[4]:
            out.fail("visibility-witness", "compiled model disagrees with the kernel-checked witness of Witness/C10.lean", {"line": vlines[_WITNESS_VIS.index(w)]},
                     observed=m, expected=w[4])
    for c, line, m in zip(vcases, vlines, vmodel):
        ts, skind, specs, sta, nl, how, has_mask, mode, history, own = c
        try:
            real = real_visibility(env, *c[:1], *c[2:])
        except Exception as e:
            real = f"raised {type(e).__name__}: {e}"
        nev = sum(1 for it in m.split(";") if it and not it.endswith("/-"))
        below = sum(1 for t in ts if evalpoly(sta[0], t) < 0)
        nfl = sum(1 for sp in specs if sp[0].endswith("@"))
        non = sum(1 for sp in specs if sp[0].endswith("="))
        out.count(key=("vis", tuple(ts), tuple((s[0], tuple(s[1])) for s in specs), tuple(sta[0]), tuple(own[2]), how, has_mask, mode, history),
                  nontrivial=nev > 0 and (below > 0 or skind == "witness"), vis_events=how, vis_mode=mode, vis_user=min(len(specs), 4), vis_frameless=min(nfl, 2),
                  vis_same_station=min(non, 3))
        if real != m:
            out.fail("visibility-stream", "stream of TopocentricFrame.visibility differs between the model and the real method",
                     {"vis": True, "samples": ts, "specs": specs, "sta": sta, "nl": nl, "how": how, "has_mask": has_mask, "mode": mode,
                      "history": history, "own": own, "line": line}, observed=real, expected=m)
        out.sample({"line": line[:200], "reply": m[:200]}, limit=1)
    cases = []
    for _ in range(ctx.n(1500, 80000)):
        cases.append(gen_case(rng))
    lines = [case_line(c[0], c[2], c[5]) for c in cases]
    # _bisect alone, on the real Speaker
    bis = []
    for _ in range(ctx.n(600, 30000)):
        b = rng.randrange(10**9)
        d = rng.choice([0, 1, -1, 2, -2, 3, -3, 5, 6, 7, -7, 1000, -999, 10**6 + 1, rng.randint(-10**8, 10**8)])
        P = gen_poly(rng, min(b, b + d), max(b, b + d), [b, b + d])
        bis.append((b, b + d, P))
        lines.append(f"c10b {b} {b + d} " + ",".join(map(str, P)))
    model = core.Driver("C10").run(lines)
    for (ts, skind, specs, mode, history, own), line, m in zip(cases, lines, model[:len(cases)]):
        try:
            real = real_stream(env, ts, specs, mode, history, own)
        except Exception as e:   # the model never raises: a raising implementation is a disagreement
            real = f"raised {type(e).__name__}: {e}"
        nev = sum(1 for it in m.split(";") if not it.endswith("/-"))
        out.count(key=(tuple(ts), tuple((s[0], tuple(s[1])) for s in specs), tuple(own[0]), tuple(own[2]), mode, history), nontrivial=nev > 0,
                  samples=skind, mode=mode, history=history, listeners=len(specs), events=min(nev, 6))
        for s in specs:
            out.tally("kind=" + s[0])
        if real != m:
            out.fail("listen-stream", "output stream (dates, listener, labels, order) differs between Model/Listen.lean and the real Speaker/iter",
                     {"samples": ts, "specs": specs, "mode": mode, "history": history, "own": own, "line": line}, observed=real, expected=m)
        out.sample({"line": line[:200], "reply": m[:200]}, limit=3)
    # ---- events_iterator / find_event on the real stream
    qcases = []
    for _ in range(ctx.n(400, 20000)):
        c = gen_case(rng)
        qcases.append((gen_query(rng, c[2]), c[0], c[2], c[5]))
    qlines = [query_line(*qc) for qc in qcases]
    for (q, ts, specs, own), line, m in zip(qcases, qlines, core.Driver("C10").run(qlines)):
        try:
            real = real_query(env, q, ts, specs, own)
        except Exception as e:
            real = f"raised {type(e).__name__}: {e}"
        out.count(key=("query", line), nontrivial=m not in ("", "runtime-error"), kind="find_event" if q[0] == "find" else "events_iterator",
                  query=("find:found" if m != "runtime-error" else "find:runtime-error") if q[0] == "find" else f"events:{min(len(q[1]), 3)}-labels")
        if real != m:
            out.fail("events-query", "events_iterator / find_event over the real stream differs from the model", {"query": list(q), "samples": ts, "specs": specs, "own": own, "line": line},
                     observed=real, expected=m)
    # ---- LightListener.__call__ as a function of the geometry (formulas translated from the source: Generated/LightSrc)
    lstates = gen_light_states(rng, ctx.n(100, 3000))
    linp = [light_inputs(o) for o, _, _ in lstates]
    llines = [f"c10l {1 if typ == 'penumbra' else 0} " + " ".join(core.f2b(x) for x in inp) for (o, typ, how), inp in zip(lstates, linp)]
    for (o, typ, how), inp, line, m in zip(lstates, linp, llines, core.Driver("C10").run(llines)):
        real = float(env.LS.LightListener(typ)(o))
        mv = core.b2f(m) if m != "bad-op" else None
        out.count(key=("light", line), nontrivial=real < 0, kind="light-value", light=f"{typ}:{how}:{'shadow' if real < 0 else 'lit'}")
        if True:
            # the same state handed over in another frame: the value depends on the geocentric geometry only
            # (positions closer than 1 m to the shadow boundary excepted: the change of frame moves the last bits)
            alt = ["ITRF", "TEME", "EME2000", "station"][len(out.keys) % 4]
            o2 = o.copy(frame=_light_station() if alt == "station" else alt)
            v2 = float(env.LS.LightListener(typ)(o2))
            near = v2 != real and how == "boundary" and _near_boundary(env, o, typ)
            out.count(key=("light-frame", line, alt), nontrivial=real < 0, kind="light-frame", light_frame=alt)
            if v2 != real and not near:
                out.fail("light-frame", "LightListener(frame=None) gives another value for the same state expressed in another frame",
                         {"light": True, "type": typ, "date": str(o.date), "pos": [float(x) for x in o[:3]], "frame": str(o.frame), "expressed_in": alt, "line": line},
                         observed=v2, expected=real)
        if mv != real:
            out.fail("light-value", "LightListener.__call__ differs from the formulas translated from its source (Generated/LightSrc)",
                     {"light": True, "type": typ, "date": str(o.date), "pos": [float(x) for x in o[:3]], "frame": str(o.frame), "inputs": list(inp), "line": line},
                     observed=real, expected=mv)
    out.tally(f"listeners-sharing-components={n_shared[0]}")
    own0 = ([0], [0], [0], [0])
    for (b, e, P), m in zip(bis, model[len(cases):]):
        Ls, chans = env.build([("umbra", P, [0], [0], [0], 0)], own0)
        sp = env.StubProp(chans)
        ob, oe = env.StubOrb(env.date(b), chans), env.StubOrb(env.date(e), chans)
        r = sp._bisect(ob, oe, Ls[0])
        real = f"{env.us(r.date)} {sp.calls}"
        mm = m.split(" ")
        out.count(key=("bisect", b, e, tuple(P)), nontrivial=abs(e - b) >= 2, kind="bisect-alone")
        if real != f"{mm[1]} {mm[2]}":
            out.fail("bisect", "_bisect result / number of propagations differs from the model", {"b": b, "e": e, "poly": P}, observed=real, expected=m)
    return out
