"""C15 — state vectors have value semantics and change atomically."""
import math
import os
import pickle

from harness import core
from harness.core import Outcome

ID = "C15"
LEAN_TARGETS = ["BeyondVerif.Props.C15", "BeyondVerif.Witness.C15"]
THEOREMS = []
LEVEL_TEXT = ""
LEVEL_NOTE = ""
TECHNIQUE = "Lean 4 proof over an object-graph (heap) model + kernel decide on regenerated name/alias tables; exact model/implementation correspondence"
TRUSTED = []
ASSUMPTIONS = []
NOT_COVERED = []
OPEN = []
RULE = ""

FRAMES = ["EME2000", "MOD", "TOD", "TEME", "PEF", "ITRF"]
FORMS = ["cartesian", "keplerian", "spherical", "keplerian_mean", "keplerian_eccentric", "keplerian_circular",
         "keplerian_mean_circular", "equinoctial", "cylindrical", "tle"]


# ---------------------------------------------------------------- real objects

def rand_coord(rng):
    """a generic elliptic orbit (keplerian elements away from every singular configuration)"""
    a = rng.uniform(6.8e6, 4.2e7)
    e = rng.uniform(0.02, 0.6)
    i = rng.uniform(0.15, 2.9)
    return [a, e, i, rng.uniform(0.1, 6.1), rng.uniform(0.1, 6.1), rng.uniform(0.1, 6.1)]


def make_state(rng, spec):
    """spec: dict(kep, form, frame, orbit, cov, covframe, mans, meta) -> real StateVector / Orbit"""
    import numpy as np
    from beyond.dates import Date, timedelta
    from beyond.orbits import StateVector
    from beyond.orbits.cov import Cov
    from beyond.orbits.man import ImpulsiveMan
    from beyond.propagators.kepler import Kepler
    date = Date(2020, 3, 1, 12, 0, 0) + timedelta(seconds=spec.get("dt", 0))
    meta = {}
    if spec.get("meta"):
        meta = {"name": "sat", "tags": ["a", "b"], "nested": {"k": [1, 2], "s": "x"}, "arr": np.arange(3.0)}
    sv = StateVector(spec["kep"], date, "keplerian", "EME2000", **meta)
    if spec["form"] != "keplerian":
        sv.form = spec["form"]
    if spec["frame"] != "EME2000":
        sv.frame = spec["frame"]
        sv._data.pop("cov", None)
    if spec.get("orbit"):
        sv = sv.as_orbit(Kepler())
    if spec.get("mans"):
        sv.maneuvers = [ImpulsiveMan(date + timedelta(seconds=600 * (k + 1)), [0.1 * (k + 1), 0.0, -0.2], frame=("TNW" if k % 2 else None), comment=f"m{k}")
                        for k in range(spec["mans"])]
    if spec.get("cov"):
        vals = np.diag([1.0e4, 2.0e4, 3.0e4, 1.0e-2, 2.0e-2, 3.0e-2])
        vals[0, 1] = vals[1, 0] = 12.5
        sv.cov = Cov(sv, vals, sv.frame)
        if spec.get("covframe"):
            sv.cov.frame = spec["covframe"]
    return sv


def rand_spec(rng, **force):
    spec = {"kep": rand_coord(rng), "form": rng.choice(FORMS), "frame": rng.choice(FRAMES), "orbit": rng.random() < 0.4,
            "cov": rng.random() < 0.5, "covframe": rng.choice([None, None, "TNW", "QSW"]), "mans": rng.choice([0, 0, 1, 2]),
            "meta": rng.random() < 0.6, "dt": rng.randrange(0, 86400)}
    spec.update(force)
    return spec


def snap(x):
    """deep, identity-free description of everything observable through an object (values exact)"""
    import numpy as np
    from beyond.orbits import StateVector
    from beyond.orbits.cov import Cov
    from beyond.orbits.man import Man
    from beyond.dates import Date
    from beyond.propagators.base import Propagator
    if isinstance(x, StateVector):
        d = x._data
        rest = {k: snap(v) for k, v in d.items() if k not in ("form", "frame", "infos")
                and not (k == "cov" and v is None) and not (k == "maneuvers" and isinstance(v, list) and not v)}
        return (type(x).__name__, d["form"].name, d["frame"].name, tuple(float(v).hex() for v in np.asarray(x)), tuple(sorted(rest.items())))
    if isinstance(x, Cov):
        dd = x.__dict__.get("_data")
        if dd is None:
            return ("Cov", "<no _data>", np.asarray(x).tobytes().hex())
        fr = dd.get("frame")
        orb = dd.get("orb")
        return ("Cov", getattr(fr, "name", fr), np.asarray(x).tobytes().hex(), getattr(x.__dict__.get("_orb_frame"), "name", None),
                snap(orb) if orb is not None else None)
    if isinstance(x, Man):
        return ("Man", type(x).__name__, tuple(sorted((k, snap(v)) for k, v in x.__dict__.items())))
    if isinstance(x, Date):
        return ("Date", x.scale.name, x._d, x._s)
    if isinstance(x, Propagator):
        return ("Prop", type(x).__name__)
    if isinstance(x, np.ndarray):
        return ("arr", x.shape, x.tobytes().hex())
    if isinstance(x, dict):
        return ("dict", tuple(sorted((str(k), snap(v)) for k, v in x.items())))
    if isinstance(x, (list, tuple)):
        return (type(x).__name__, tuple(snap(v) for v in x))
    if isinstance(x, set):
        return ("set", tuple(sorted(map(repr, x))))
    return repr(x)


def snap_meta(x):
    """snapshot without type name and without the propagator (StateVector <-> Orbit comparisons)"""
    s = snap(x)
    return s[1:4] + (tuple(kv for kv in s[4] if kv[0] != "propagator"),)


def cart_state(sv):
    """physical state: cartesian coordinates computed from the raw values without touching the object"""
    import numpy as np
    from beyond.orbits import StateVector
    tmp = StateVector([float(v) for v in np.asarray(sv)], sv._data["date"], sv._data["form"], sv._data["frame"])
    return np.array(tmp._data["form"](tmp, "cartesian"), dtype=float)


def same_physical(c0, c1, rtol=1e-9):
    import numpy as np
    r = max(np.linalg.norm(c0[:3]), 1.0)
    v = max(np.linalg.norm(c0[3:]), 1e-3)
    return bool(np.all(np.abs(c0[:3] - c1[:3]) <= rtol * r) and np.all(np.abs(c0[3:] - c1[3:]) <= rtol * v))


# ---------------------------------------------------------------- oracle: separation

def conv_ops(rng, sv):
    """the methods that return a new object, as (name, kind, thunk)"""
    from beyond.propagators.kepler import Kepler
    from beyond.orbits import Orbit
    cur_form, cur_frame = sv._data["form"].name, sv._data["frame"].name
    f = rng.choice([x for x in FORMS if x != cur_form])
    fr = rng.choice([x for x in FRAMES if x != cur_frame])
    ops = [("copy()", "copy", lambda: sv.copy()),
           (f"copy(form={f})", "copy", lambda: sv.copy(form=f)),
           (f"copy(frame={fr})", "copy", lambda: sv.copy(frame=fr)),
           (f"copy(form={f},frame={fr})", "copy", lambda: sv.copy(form=f, frame=fr)),
           ("as_orbit", "as_orbit", lambda: sv.as_orbit(Kepler()))]
    if isinstance(sv, Orbit):
        ops.append(("as_statevector", "as_statevector", lambda: sv.as_statevector()))
    return ops


def mutations(rng, obj):
    """every way of changing `obj` in place, as (field family, thunk); only those applicable to obj"""
    import numpy as np
    from beyond.dates import timedelta
    from beyond.orbits.man import ImpulsiveMan
    from beyond.orbits.cov import Cov
    d = obj._data
    muts = []
    muts.append(("coord-index", lambda: obj.__setitem__(rng.randrange(6), 1.2345)))
    nm = rng.choice(d["form"].param_names)
    if not (d["form"].name == "cylindrical" and nm.startswith("theta")):
        muts.append(("coord-name", lambda: setattr(obj, nm, 0.4321)))
    muts.append(("coord-slice", lambda: obj.__setitem__(slice(None), np.arange(6.0) + 1)))
    muts.append(("form", lambda: setattr(obj, "form", "cartesian" if d["form"].name != "cartesian" else "keplerian")))
    muts.append(("frame", lambda: setattr(obj, "frame", "ITRF" if d["frame"].name != "ITRF" else "EME2000")))
    muts.append(("date", lambda: setattr(obj, "date", d["date"] + timedelta(seconds=7))))
    muts.append(("meta-rebind", lambda: setattr(obj, "name", "other")))
    muts.append(("meta-new-key", lambda: setattr(obj, "extra", [1])))
    if isinstance(d.get("tags"), list):
        muts.append(("meta-container", lambda: d["tags"].append("z")))
        muts.append(("meta-container", lambda: d["arr"].__setitem__(0, 99.0)))
        muts.append(("meta-container", lambda: d["nested"].__setitem__("new", 1)))
        muts.append(("nested-meta", lambda: d["nested"]["k"].append(3)))
    if isinstance(d.get("maneuvers"), list) and d["maneuvers"]:
        muts.append(("man-list", lambda: obj.maneuvers.append(ImpulsiveMan(d["date"], [1, 1, 1]))))
        muts.append(("man-list", lambda: obj.maneuvers.pop()))
        muts.append(("man-object", lambda: d["maneuvers"][0]._dv.__setitem__(0, 55.0)))
        muts.append(("man-object", lambda: setattr(d["maneuvers"][0], "date", d["date"] + timedelta(seconds=1))))
        muts.append(("man-rebind", lambda: setattr(obj, "maneuvers", [])))
    if isinstance(d.get("cov"), Cov):
        muts.append(("cov", lambda: d["cov"].__setitem__((0, 0), 7.0e4)))
        muts.append(("cov", lambda: setattr(d["cov"], "frame", "QSW" if d["cov"]._data["frame"] != "QSW" else "TNW")))
        muts.append(("cov", lambda: setattr(d["cov"], "frame", "ITRF" if d["frame"].name != "ITRF" else "EME2000")))
        muts.append(("cov-rebind", lambda: obj.__class__.cov.fdel(obj)))
    if "propagator" in d and d["propagator"] is not None:
        muts.append(("propagator", lambda: setattr(d["propagator"], "marker", 1)))
    return muts


def snap_full(x):
    """snap + the attributes a propagator may have been given"""
    s = snap(x)
    p = x._data.get("propagator")
    return (s, tuple(sorted(k for k in getattr(p, "__dict__", {}) if k == "marker")))


def check_separation(out, rng, spec):
    """O1/O2: a converting method leaves the receiver unchanged; afterwards no mutation of one object shows in the other"""
    probe = make_state(rng, spec)
    n_ops = len(conv_ops(rng, probe))
    for oi in range(n_ops):
        base = make_state(rng, spec)
        n_muts = len(mutations(rng, base))
        for mi in range(n_muts):
            for direction in ("copy", "orig"):
                st = rng.getstate()
                sv = make_state(rng, spec)
                before = snap_full(sv)
                name, kind, op = conv_ops(rng, sv)[oi]
                try:
                    new = op()
                except Exception as e:  # a converting method must work on a valid object
                    out.fail(f"convert-raises-{kind}", f"{name} raised {type(e).__name__}: {e}", {"spec": spec, "op": name}, observed=repr(e))
                    break
                if snap_full(sv) != before:
                    out.fail(f"receiver-changed-{kind}", f"{name} changed its receiver", {"spec": spec, "op": name},
                             observed=str(snap_full(sv))[:300], expected=str(before)[:300])
                    break
                target, other = (new, sv) if direction == "copy" else (sv, new)
                ms = mutations(rng, target)
                if mi >= len(ms):
                    break
                field, mut = ms[mi]
                ref = snap_full(other)
                try:
                    mut()
                except Exception as e:
                    out.tally(f"mutation-raised={field}:{type(e).__name__}")
                out.count(key=(oi, mi, direction, spec["form"], spec["frame"], spec["orbit"], spec["cov"], spec["mans"], spec["meta"]),
                          kind="separation", op=kind, field=field)
                now = snap_full(other)
                if now != ref:
                    if field in ("frame", "form") and now[0][:4] == ref[0][:4] and [k for k, _ in set(now[0][4]) ^ set(ref[0][4])] == ["cov", "cov"]:
                        field = "cov"   # the shared covariance followed the frame change of the other object
                    out.fail(f"shared-{field}-after-{kind}",
                             f"after {name}, changing {field} of the {'new object' if direction == 'copy' else 'receiver'} shows in the other object",
                             {"spec": spec, "op": name, "op_index": oi, "mutation_index": mi, "direction": direction, "rng": None},
                             observed=str(now)[:400], expected=str(ref)[:400])
                rng.setstate(st)
                rng.random()


# ---------------------------------------------------------------- oracle: failing changes

def check_failed_change(out, rng, spec):
    """O3: a failing form / frame change leaves form, frame, metadata and the physical state as they were"""
    from beyond.frames.frames import get_frame
    cases = [("form", "no_such_form", "unknown-form", True), ("frame", "NoSuchFrame", "unknown-frame", True),
             ("frame", "Hill", "to-hill", False)]
    for attr, value, tag, exact in cases + [("frame", "EME2000", "from-hill", False)]:
        sv = make_state(rng, spec)
        if tag == "from-hill":
            sv._data["frame"] = get_frame("Hill")
            if sv._data.get("cov") is not None:
                sv._data["cov"]._data["frame"] = sv._data["frame"]
        before = snap_full(sv)
        ids = (id(sv._data["form"]), id(sv._data["frame"]))
        c0 = cart_state(sv)
        try:
            setattr(sv, attr, value)
            raised = False
        except Exception:
            raised = True
        out.count(key=(tag, spec["form"], spec["frame"], spec["cov"], spec["orbit"]), kind="failed-change", case=tag)
        if not raised:
            out.fail(f"no-error-{tag}", f"{attr} = {value!r} did not raise", {"spec": spec, "case": tag})
            continue
        after = snap_full(sv)
        inp = {"spec": spec, "case": tag}
        if ids != (id(sv._data["form"]), id(sv._data["frame"])):
            out.fail(f"failed-change-label-{tag}", f"after the failed {attr} change form/frame differ from before", inp,
                     observed=(after[0][1], after[0][2]), expected=(before[0][1], before[0][2]))
        elif exact and after != before:
            out.fail(f"failed-change-state-{tag}", f"after the failed {attr} change the object differs from before", inp,
                     observed=str(after)[:300], expected=str(before)[:300])
        elif not exact:
            if (after[0][4], after[1]) != (before[0][4], before[1]):
                out.fail(f"failed-change-meta-{tag}", f"after the failed {attr} change metadata / covariance differ", inp,
                         observed=str(after[0][4])[:300], expected=str(before[0][4])[:300])
            elif not same_physical(c0, cart_state(sv)):
                out.fail(f"failed-change-values-{tag}", f"after the failed {attr} change the physical state differs", inp,
                         observed=list(map(float, cart_state(sv))), expected=list(map(float, c0)))
    # copy(...) that fails: receiver bit-identical
    for kw, tag in (({"form": "no_such_form"}, "copy-unknown-form"), ({"frame": "NoSuchFrame"}, "copy-unknown-frame"), ({"frame": "Hill"}, "copy-to-hill")):
        sv = make_state(rng, spec)
        before = snap_full(sv)
        try:
            sv.copy(**kw)
            out.fail(f"no-error-{tag}", f"copy({kw}) did not raise", {"spec": spec, "case": tag})
        except Exception:
            pass
        out.count(key=(tag, spec["form"], spec["frame"], spec["cov"]), kind="failed-change", case=tag)
        if snap_full(sv) != before:
            out.fail(f"receiver-changed-{tag}", f"failing copy({kw}) changed its receiver", {"spec": spec, "case": tag},
                     observed=str(snap_full(sv))[:300], expected=str(before)[:300])


# ---------------------------------------------------------------- oracle: access

def check_access(out, rng, form):
    """O4: name, alias and index address the same slot of the current form; names of other forms are refused"""
    import numpy as np
    from beyond.orbits.forms import Form, _cache_param_names, get_form
    spec = rand_spec(rng, form=form, cov=False, mans=0, orbit=False, meta=False)
    fobj = get_form(form)
    names = list(fobj.param_names)
    aliases = {}
    for al, tgt in Form.alt.items():
        aliases.setdefault(tgt, []).append(al)
    for i, nm in enumerate(names):
        for label in [nm] + aliases.get(nm, []) + [al for al in Form.alt if al == nm]:
            sv = make_state(rng, spec)
            ref = float(np.asarray(sv)[i])
            out.count(key=(form, label), kind="access", form=form)
            fam = f"access-{form}-{label}"
            try:
                got = [float(getattr(sv, label)), float(sv[label]), float(sv[i])]
            except Exception as e:
                out.fail(fam, f"reading element '{label}' (slot {i}) of a {form} state raises {type(e).__name__}: {e}",
                         {"form": form, "name": label, "slot": i, "spec": spec}, observed=repr(e), expected=ref)
                continue
            if any(g != ref for g in got):
                out.fail(fam, f"'{label}' does not address slot {i} in form {form}", {"form": form, "name": label, "slot": i, "spec": spec}, observed=got, expected=ref)
                continue
            for how in ("attr", "item"):
                sv = make_state(rng, spec)
                old = [float(v) for v in np.asarray(sv)]
                try:
                    if how == "attr":
                        setattr(sv, label, 0.123)
                    else:
                        sv[label] = 0.123
                except Exception as e:
                    out.fail(fam, f"writing element '{label}' of a {form} state raises {type(e).__name__}", {"form": form, "name": label, "slot": i, "spec": spec}, observed=repr(e))
                    continue
                new = [float(v) for v in np.asarray(sv)]
                exp = old[:i] + [0.123] + old[i + 1:]
                if new != exp or label in sv._data:
                    out.fail(fam, f"writing '{label}' does not change exactly slot {i} in form {form}", {"form": form, "name": label, "slot": i, "spec": spec}, observed=new, expected=exp)
    # names belonging only to other forms
    foreign = sorted(x for x in _cache_param_names if x not in names and Form.alt.get(x, x) not in names)
    for nm in foreign + [al for al, t in Form.alt.items() if t not in names and al not in names]:
        sv = make_state(rng, spec)
        before = snap_full(sv)
        out.count(key=(form, "foreign", nm), kind="access-foreign", form=form)
        res = []
        for f in (lambda: getattr(sv, nm), lambda: sv[nm], lambda: setattr(sv, nm, 1.0), lambda: sv.__setitem__(nm, 1.0)):
            try:
                f()
                res.append("ok")
            except AttributeError:
                res.append("AttributeError")
            except KeyError:
                res.append("KeyError")
        if res != ["AttributeError", "KeyError", "AttributeError", "KeyError"] or snap_full(sv) != before:
            out.fail(f"foreign-{form}-{nm}", f"name '{nm}' of another form is not refused in form {form}", {"form": form, "name": nm, "spec": spec}, observed=res)


# ---------------------------------------------------------------- oracle: pickle, StateVector <-> Orbit

def check_pickle(out, rng, spec):
    sv = make_state(rng, spec)
    before = snap_full(sv)
    p = pickle.loads(pickle.dumps(sv))
    out.count(key=("pickle", spec["form"], spec["frame"], spec["orbit"], spec["cov"], spec["mans"], spec["meta"]), kind="pickle", cov=bool(spec["cov"]))
    inp = {"spec": spec}
    if snap_full(sv) != before:
        out.fail("receiver-changed-pickle", "pickling changed the object", inp)
    if type(p) is not type(sv):
        out.fail("pickle-type", "unpickled object has another type", inp, observed=type(p).__name__, expected=type(sv).__name__)
        return
    sp, ss = snap(p), snap(sv)
    if sp[:4] != ss[:4]:
        out.fail("pickle-values", "form/frame/values differ after a pickle round trip", inp, observed=sp[:4], expected=ss[:4])
    dp, ds = dict(sp[4]), dict(ss[4])
    for k in sorted(set(dp) | set(ds)):
        if dp.get(k) != ds.get(k):
            out.fail(f"pickle-loses-{'cov' if k == 'cov' else 'metadata'}", f"metadata entry '{k}' differs after a pickle round trip", dict(inp, key=k),
                     observed=str(dp.get(k))[:200], expected=str(ds.get(k))[:200])
    # the unpickled object must be a working state vector: same conversions as the original
    f = "keplerian" if spec["form"] != "keplerian" else "cartesian"
    fr = "ITRF" if spec["frame"] != "ITRF" else "EME2000"
    for nm, g in (("copy", lambda o: o.copy()), ("copy-form", lambda o: o.copy(form=f)), ("copy-frame", lambda o: o.copy(frame=fr)),
                  ("set-form", lambda o: (setattr(o, "form", f), o)[1]), ("set-frame", lambda o: (setattr(o, "frame", fr), o)[1])):
        q = pickle.loads(pickle.dumps(sv))
        if spec["cov"]:   # judged separately (pickle-loses-cov); drop the covariance to look at the state vector itself
            q._data["cov"] = None
            o = make_state(rng, spec)
            o._data["cov"] = None
        else:
            o = make_state(rng, spec)
        exp = snap(g(o))
        try:
            got = snap(g(q))
        except Exception as e:
            out.fail("pickle-unusable", f"{nm} on an unpickled {type(sv).__name__} raises {type(e).__name__}: {e}", dict(inp, op=nm), observed=repr(e))
            continue
        if got != exp:
            out.fail("pickle-diverges", f"{nm} on an unpickled object gives another result than on the original", dict(inp, op=nm), observed=str(got)[:300], expected=str(exp)[:300])


def check_roundtrip_types(out, rng, spec):
    """O6: StateVector -> Orbit -> StateVector and Orbit -> StateVector -> Orbit preserve values and metadata"""
    from beyond.orbits import StateVector, Orbit
    from beyond.propagators.kepler import Kepler
    sv = make_state(rng, spec)
    out.count(key=("types", spec["form"], spec["frame"], spec["orbit"], spec["cov"], spec["mans"], spec["meta"]), kind="sv-orbit-roundtrip")
    o = sv.as_orbit(Kepler())
    back = o.as_statevector()
    inp = {"spec": spec}
    if type(o) is not Orbit or type(back) is not StateVector:
        out.fail("roundtrip-type", "as_orbit / as_statevector return the wrong type", inp, observed=(type(o).__name__, type(back).__name__))
    if snap_meta(o) != snap_meta(sv) or snap_meta(back) != snap_meta(sv):
        out.fail("roundtrip-values", "as_orbit / as_statevector do not preserve values and metadata", inp, observed=str(snap_meta(back))[:300], expected=str(snap_meta(sv))[:300])
    if "propagator" in back._data:
        out.fail("roundtrip-propagator", "as_statevector keeps the propagator", inp)
    if not isinstance(o._data.get("propagator"), Kepler):
        out.fail("roundtrip-propagator", "as_orbit does not attach the propagator", inp)


def oracle(ctx, widened):
    out = Outcome()
    rng = ctx.rng
    big = widened or ctx.thorough
    for form in FORMS:
        check_access(out, rng, form)
    specs = []
    # a covering set first (every optional part present), then random ones
    for orbit in (False, True):
        specs.append(rand_spec(rng, orbit=orbit, cov=True, mans=2, meta=True, covframe=None))
    for _ in range(40 if big else 3):
        specs.append(rand_spec(rng))
    for spec in specs:
        check_separation(out, rng, spec)
    for _ in range(300 if big else 30):
        check_failed_change(out, rng, rand_spec(rng))
    for k in range(300 if big else 30):
        spec = rand_spec(rng, cov=(k % 2 == 0))
        check_pickle(out, rng, spec)
        check_roundtrip_types(out, rng, spec)
    out.sample({"checked": "copy()/copy(form)/copy(frame)/as_orbit/as_statevector then every in-place mutation of one object; deep snapshot of the other must not move"})
    return out


def replay(f):
    import random
    out = Outcome()
    i = f["input"]
    rng = random.Random(0)
    fam = f["family"]
    if fam.startswith("shared-") or fam.startswith("receiver-changed-") or fam.startswith("convert-raises"):
        check_separation(out, rng, i["spec"])
    elif fam.startswith("failed-change") or fam.startswith("no-error"):
        check_failed_change(out, rng, i["spec"])
    elif fam.startswith("access-") or fam.startswith("foreign-"):
        check_access(out, rng, i["form"])
    elif fam.startswith("pickle"):
        check_pickle(out, rng, i["spec"])
    elif fam.startswith("roundtrip"):
        check_roundtrip_types(out, rng, i["spec"])
    out.failures = [x for x in out.failures if x["family"] == fam] or out.failures
    return out
