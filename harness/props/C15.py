"""C15 — state vectors have value semantics and change atomically."""
import math
import os
import pickle

from harness import core
from harness.core import Outcome

ID = "C15"
LEAN_TARGETS = ["BeyondVerif.Props.C15", "BeyondVerif.Witness.C15"]
THEOREMS = [
    "BeyondVerif.C15.names_six_distinct",
    "BeyondVerif.C15.access_name_index",
    "BeyondVerif.C15.access_alias_index",
    "BeyondVerif.C15.access_foreign_refused",
    "BeyondVerif.C15.access_slot_sound",
    "BeyondVerif.C15.setForm_unknown_atomic",
    "BeyondVerif.C15.setForm_error_atomic",
    "BeyondVerif.C15.setFrame_unknown_atomic",
    "BeyondVerif.C15.setFrameBasic_error_atomic",
    "BeyondVerif.C15.covSetFrame_error_atomic",
    "BeyondVerif.C15.setFrame_error_cases",
    "BeyondVerif.C15.copy_receiver_unchanged",
    "BeyondVerif.C15.copyForm_receiver_unchanged",
    "BeyondVerif.C15.copyFrame_receiver_unchanged",
    "BeyondVerif.C15.asOrbit_receiver_unchanged",
    "BeyondVerif.C15.asSV_receiver_unchanged",
    "BeyondVerif.C15.pickle_receiver_unchanged",
    "BeyondVerif.C15.copy_separate_depth1",
    "BeyondVerif.C15.copy_separate",
    "BeyondVerif.C15.copy_shares_only_maneuver_objects",
    "BeyondVerif.C15.example_heap_wf",
    "BeyondVerif.C15.asOrbit_separate",
    "BeyondVerif.C15.asSV_separate",
    "BeyondVerif.C15.pickle_separate",
    "BeyondVerif.C15.as_orbit_as_statevector_id",
    "BeyondVerif.Heap.copyRef_ok",
    "BeyondVerif.Heap.copyRef_sep",
    "BeyondVerif.Heap.deepRef_ok",
    "BeyondVerif.C15W.copy_shares_maneuver_objects",
    "BeyondVerif.C15W.as_orbit_cov_separate",
    "BeyondVerif.C15W.pickle_gives_working_object",
]
LEVEL_TEXT = ("Lean theorems over an object-graph (heap) model of StateVector/Orbit/Cov: for every heap and receiver, copy(), copy(form=..), copy(frame=..), as_orbit, "
              "as_statevector and a pickle round trip write no pre-existing cell (receiver unchanged, also when the conversion fails); in every well-formed heap a cell "
              "reachable both from a copy and from its original is a maneuver object and nothing else, at any depth (copy_shares_only_maneuver_objects; the invariant "
              "'every address stored in a cell the copy created is new or a maneuver object' is proved through the whole copy, for every copy depth, by induction); an "
              "unpickled object shares nothing at all with the original; as_orbit / as_statevector create only new cells (plus the propagator handed in); every failing "
              "form change and every failing covariance frame change leaves the heap identical, a failing frame transformation rewrites only the coordinate buffer with a "
              "value denoting the same physical state; StateVector->Orbit->StateVector gives back the coordinates, form, frame and every immutable _data entry; "
              "name/alias/index resolution decided over the tables regenerated from beyond.orbits.forms on every run. The model agrees exactly (object-identity "
              "partition incl. cloned Frame objects, labels, error kinds, bit-identical buffers) with the real classes on random operation sequences.")
LEVEL_NOTE = ("shared maneuver objects are an open finding (kept on purpose by the library) and the one exception in the separation theorems; that the content of copied "
              "containers equals the original's, and the pickle round trip as an isomorphism, are compared exactly by the correspondence but not proved; a covariance failure "
              "after a successful state-vector frame change is not proved unreachable; heap model hand-written, tied by the correspondence run; "
              "Lean kernel + propext/Classical.choice/Quot.sound")
TECHNIQUE = "Lean 4 proof over an object-graph (heap) model + kernel decide on regenerated name/alias tables; exact model/implementation correspondence"
TRUSTED = [
    "harness/props/C15.py extract: Form.param_names, Form.alt, forms._cache, _cache_param_names, the frame registry and the property names of the classes, read from live objects (cross-checked against the Form(...) literals in forms.py) -> Generated/FormTables.lean",
    "correspondence: real StateVector/Orbit/Cov objects vs the compiled Lean model on identical operation sequences; after every operation the whole object graph reachable from all variables is compared: "
    "partition of mutable objects by id(), identity of cloned Frame objects, kinds, keys, labels, error kind, and every coordinate buffer bit for bit against the pure evaluation (Form.__call__, Frame.transform on fresh objects) of the model's symbolic value",
    "CPython object identity (id / is), pickle / copy.deepcopy memo semantics, numpy buffer semantics",
]
ASSUMPTIONS = [
    "the heap model Model/Heap.lean is hand-written; it is tied to statevector.py / orbit.py / cov.py by the exact correspondence run only",
    "the separation theorems assume a well-formed heap (WfM: no dangling address; every `maneuvers` entry is a list of maneuver objects); shown satisfiable (example_heap_wf), true of every state the harness builds, not proved preserved by the operations",
    "coordinate values are symbolic in the model (initial vector + sequence of conversions/assignments); that a form conversion does not move the physical state (phys erases it) is property C01, not proved here",
    "a Cov's own ndarray buffer and _data dict are kept inside its cell (Cov.__new__ creates both afresh); the correspondence asserts on every dump that no two objects share them",
    "dict key order is not modelled (both dumps sort keys); 'cov: None' and an empty maneuver list created by the getters on first read are treated as absent",
    "Date and Form objects are treated as immutable values identified by name; Frame objects by name and identity (pickle / deepcopy clone them, the setters compare them with `is`-semantics)",
    "copy.deepcopy of a metadata container holding a StateVector / Cov is modelled like a pickle of it (not generated by the harness)",
]
NOT_COVERED = [
    "maneuver objects stay shared between a copy and its original (open findings C15-*-man-object, kept on purpose by the library): the clause 'changing maneuvers of one never shows in the other' holds for the maneuver list, not for the objects in it",
    "numpy views (sv[:], sv.view()) share the buffer with their parent by numpy's own semantics and are outside the model; setting the form of such a view rewrites the parent's values but not its form label (observed, not filed: a view is not a copy)",
    "after a pickle round trip the Frame objects are clones, so `p.frame = <same name>` runs a (numerically identity) transformation through cartesian instead of doing nothing: modelled and compared, not judged",
    "Cov frame conversions to/from the Hill frame beyond the error kind; numerical content of covariance rotations (C14)",
    "Orbit.propagate / Infos caches (C08, C01)",
]
OPEN = [
    "content equality of copies: that a copied / unpickled container holds the same values as the original (an isomorphism of object graphs) is compared exactly by the correspondence, proved only for immutable entries (as_orbit_as_statevector_id) and values (copy_separate_depth1)",
    "setFrame_error_cases third case (covariance part fails after the state vector was changed; the covariance is then untouched, covSetFrame_error_atomic): not proved unreachable from constructor-built states; no occurrence in correspondence or oracle runs",
    "WfM is not proved to be preserved by the operations (it is a hypothesis of copy_separate / asOrbit_separate / asSV_separate)",
    "copy(form=..) / copy(frame=..): receiver-unchanged is proved; that the setters keep the full-depth separation invariant on the new object is not (they write only the new buffer, dict and covariance cell)",
]
RULE = ("correspondence: (a) exhaustive name resolution: every form x every reserved name, alias and two free keys; (b) random sequences of 1-2 constructions (form, frame incl. Hill, "
        "Orbit or StateVector, with/without metadata containers, maneuvers, covariance in own/local/other frame) followed by 1-6 operations drawn from copy, copy(form), copy(frame), as_orbit, as_statevector, "
        "form=, frame= (incl. unknown names, Hill, aliases), setattr/setitem by name/alias/foreign name/free key, index assignment, cov.frame=, maneuvers.append, cov=, pickle round trip; "
        "a case is non-trivial when it has >= 2 operations; distinct = distinct request line; cases whose buffers hold non-finite numbers are skipped and counted. oracle: for every converting method x every in-place mutation x both directions, deep snapshot of the other object; "
        "failing setters; name/alias/index on every form; pickle and StateVector<->Orbit round trips")

FRAMES = ["EME2000", "MOD", "TOD", "TEME", "PEF", "ITRF"]
FORMS = ["cartesian", "keplerian", "spherical", "keplerian_mean", "keplerian_eccentric", "keplerian_circular",
         "keplerian_mean_circular", "equinoctial", "cylindrical", "tle"]


# ---------------------------------------------------------------- real objects

def rand_coord(rng):
    """a generic elliptic orbit (keplerian elements away from every singular configuration)"""
    a = rng.uniform(6.8e6, 4.2e7)
    e = rng.uniform(0.02, 0.6)
    i = rng.uniform(0.15, 2.9)
    return [a, e, i, rng.uniform(0.1, 6.1), rng.uniform(0.1, 6.1), rng.uniform(0.1, 6.1)]


def make_state(rng, spec):
    """spec: dict(kep, form, frame, orbit, cov, covframe, mans, meta) -> real StateVector / Orbit"""
    import numpy as np
    from beyond.dates import Date, timedelta
    from beyond.orbits import StateVector
    from beyond.orbits.cov import Cov
    from beyond.orbits.man import ImpulsiveMan
    from beyond.propagators.kepler import Kepler
    date = Date(2020, 3, 1, 12, 0, 0) + timedelta(seconds=spec.get("dt", 0))
    meta = {}
    if spec.get("meta"):
        meta = {"name": "sat", "tags": ["a", "b"], "nested": {"k": [1, 2], "s": "x"}, "arr": np.arange(3.0)}
    sv = StateVector(spec["kep"], date, "keplerian", "Hill" if spec["frame"] == "Hill" else "EME2000", **meta)
    if spec["form"] != "keplerian":
        sv.form = spec["form"]
    if spec["frame"] not in ("EME2000", "Hill"):
        sv.frame = spec["frame"]
        sv._data.pop("cov", None)
    if spec.get("orbit"):
        sv = sv.as_orbit(Kepler())
    if spec.get("mans"):
        sv.maneuvers = [ImpulsiveMan(date + timedelta(seconds=600 * (k + 1)), [0.1 * (k + 1), 0.0, -0.2], frame=("TNW" if k % 2 else None), comment=f"m{k}")
                        for k in range(spec["mans"])]
    if spec.get("cov"):
        vals = np.diag([1.0e4, 2.0e4, 3.0e4, 1.0e-2, 2.0e-2, 3.0e-2])
        vals[0, 1] = vals[1, 0] = 12.5
        sv.cov = Cov(sv, vals, sv.frame)
        if spec.get("covframe"):
            sv.cov.frame = spec["covframe"]
    return sv


def finite_state(sv):
    import numpy as np
    cov = sv._data.get("cov")
    return bool(np.all(np.isfinite(np.asarray(sv))) and (cov is None or np.all(np.isfinite(np.asarray(cov)))))


def rand_spec(rng, **force):
    """a random object description whose state is finite (elements of a state that is hyperbolic relative to a rotating
    frame are NaN in the tle / mean forms; every later operation on such an object is garbage in, garbage out)"""
    for _ in range(50):
        spec = _rand_spec(rng, **force)
        try:
            if finite_state(make_state(rng, spec)):
                return spec
        except Exception:
            pass
    return _rand_spec(rng, **dict(force, form="cartesian", frame="EME2000"))


def _rand_spec(rng, **force):
    spec = {"kep": rand_coord(rng), "form": rng.choice(FORMS), "frame": rng.choice(FRAMES), "orbit": rng.random() < 0.4,
            "cov": rng.random() < 0.5, "covframe": rng.choice([None, None, "TNW", "QSW"]), "mans": rng.choice([0, 0, 1, 2]),
            "meta": rng.random() < 0.6, "dt": rng.randrange(0, 86400)}
    spec.update(force)
    return spec


def snap(x):
    """deep, identity-free description of everything observable through an object (values exact)"""
    import numpy as np
    from beyond.orbits import StateVector
    from beyond.orbits.cov import Cov
    from beyond.orbits.man import Man
    from beyond.dates import Date
    from beyond.propagators.base import Propagator
    if isinstance(x, StateVector):
        d = x._data
        rest = {k: snap(v) for k, v in d.items() if k not in ("form", "frame", "infos")
                and not (k == "cov" and v is None) and not (k == "maneuvers" and isinstance(v, list) and not v)}
        return (type(x).__name__, d["form"].name, d["frame"].name, tuple(float(v).hex() for v in np.asarray(x)), tuple(sorted(rest.items())))
    if isinstance(x, Cov):
        dd = x.__dict__.get("_data")
        if dd is None:
            return ("Cov", "<no _data>", np.asarray(x).tobytes().hex())
        fr = dd.get("frame")
        orb = dd.get("orb")
        return ("Cov", getattr(fr, "name", fr), np.asarray(x).tobytes().hex(), getattr(x.__dict__.get("_orb_frame"), "name", None),
                snap(orb) if orb is not None else None)
    if isinstance(x, Man):
        return ("Man", type(x).__name__, tuple(sorted((k, snap(v)) for k, v in x.__dict__.items())))
    if isinstance(x, Date):
        return ("Date", x.scale.name, x._d, x._s)
    if isinstance(x, Propagator):
        return ("Prop", type(x).__name__)
    if isinstance(x, np.ndarray):
        return ("arr", x.shape, x.tobytes().hex())
    if isinstance(x, dict):
        return ("dict", tuple(sorted((str(k), snap(v)) for k, v in x.items())))
    if isinstance(x, (list, tuple)):
        return (type(x).__name__, tuple(snap(v) for v in x))
    if isinstance(x, set):
        return ("set", tuple(sorted(map(repr, x))))
    return repr(x)


def snap_meta(x):
    """snapshot without type name and without the propagator (StateVector <-> Orbit comparisons)"""
    s = snap(x)
    return s[1:4] + (tuple(kv for kv in s[4] if kv[0] != "propagator"),)


def cart_state(sv):
    """physical state: cartesian coordinates computed from the raw values without touching the object"""
    import numpy as np
    from beyond.orbits import StateVector
    tmp = StateVector([float(v) for v in np.asarray(sv)], sv._data["date"], sv._data["form"], sv._data["frame"])
    return np.array(tmp._data["form"](tmp, "cartesian"), dtype=float)


def same_physical(c0, c1, rtol=1e-9):
    import numpy as np
    r = max(np.linalg.norm(c0[:3]), 1.0)
    v = max(np.linalg.norm(c0[3:]), 1e-3)
    return bool(np.all(np.abs(c0[:3] - c1[:3]) <= rtol * r) and np.all(np.abs(c0[3:] - c1[3:]) <= rtol * v))


# ---------------------------------------------------------------- oracle: separation

def conv_ops(rng, sv):
    """the methods that return a new object, as (name, kind, thunk)"""
    from beyond.propagators.kepler import Kepler
    from beyond.orbits import Orbit
    cur_form, cur_frame = sv._data["form"].name, sv._data["frame"].name
    f = rng.choice([x for x in FORMS if x != cur_form])
    fr = rng.choice([x for x in FRAMES if x != cur_frame])
    ops = [("copy()", "copy", lambda: sv.copy()),
           (f"copy(form={f})", "copy", lambda: sv.copy(form=f)),
           (f"copy(frame={fr})", "copy", lambda: sv.copy(frame=fr)),
           (f"copy(form={f},frame={fr})", "copy", lambda: sv.copy(form=f, frame=fr)),
           ("as_orbit", "as_orbit", lambda: sv.as_orbit(Kepler()))]
    if isinstance(sv, Orbit):
        ops.append(("as_statevector", "as_statevector", lambda: sv.as_statevector()))
    return ops


def mutations(rng, obj):
    """every way of changing `obj` in place, as (field family, thunk); only those applicable to obj"""
    import numpy as np
    from beyond.dates import timedelta
    from beyond.orbits.man import ImpulsiveMan
    from beyond.orbits.cov import Cov
    d = obj._data
    muts = []
    muts.append(("coord-index", lambda: obj.__setitem__(rng.randrange(6), 1.2345)))
    nm = rng.choice(d["form"].param_names)
    if not (d["form"].name == "cylindrical" and nm.startswith("theta")):
        muts.append(("coord-name", lambda: setattr(obj, nm, 0.4321)))
    muts.append(("coord-slice", lambda: obj.__setitem__(slice(None), np.arange(6.0) + 1)))
    muts.append(("form", lambda: setattr(obj, "form", "cartesian" if d["form"].name != "cartesian" else "keplerian")))
    muts.append(("frame", lambda: setattr(obj, "frame", "ITRF" if d["frame"].name != "ITRF" else "EME2000")))
    muts.append(("date", lambda: setattr(obj, "date", d["date"] + timedelta(seconds=7))))
    muts.append(("meta-rebind", lambda: setattr(obj, "name", "other")))
    muts.append(("meta-new-key", lambda: setattr(obj, "extra", [1])))
    if isinstance(d.get("tags"), list):
        muts.append(("meta-container", lambda: d["tags"].append("z")))
        muts.append(("meta-container", lambda: d["arr"].__setitem__(0, 99.0)))
        muts.append(("meta-container", lambda: d["nested"].__setitem__("new", 1)))
        muts.append(("nested-meta", lambda: d["nested"]["k"].append(3)))
    if isinstance(d.get("maneuvers"), list) and d["maneuvers"]:
        muts.append(("man-list", lambda: obj.maneuvers.append(ImpulsiveMan(d["date"], [1, 1, 1]))))
        muts.append(("man-list", lambda: obj.maneuvers.pop()))
        muts.append(("man-object", lambda: d["maneuvers"][0]._dv.__setitem__(0, 55.0)))
        muts.append(("man-object", lambda: setattr(d["maneuvers"][0], "date", d["date"] + timedelta(seconds=1))))
        muts.append(("man-rebind", lambda: setattr(obj, "maneuvers", [])))
    if isinstance(d.get("cov"), Cov):
        muts.append(("cov", lambda: d["cov"].__setitem__((0, 0), 7.0e4)))
        muts.append(("cov", lambda: setattr(d["cov"], "frame", "QSW" if d["cov"]._data["frame"] != "QSW" else "TNW")))
        muts.append(("cov", lambda: setattr(d["cov"], "frame", "ITRF" if d["frame"].name != "ITRF" else "EME2000")))
        muts.append(("cov-rebind", lambda: obj.__class__.cov.fdel(obj)))
    if "propagator" in d and d["propagator"] is not None:
        muts.append(("propagator", lambda: setattr(d["propagator"], "marker", 1)))
    return muts


def snap_full(x):
    """snap + the attributes a propagator may have been given"""
    s = snap(x)
    p = x._data.get("propagator")
    return (s, tuple(sorted(k for k in getattr(p, "__dict__", {}) if k == "marker")))


def check_separation(out, rng, spec):
    """O1/O2: a converting method leaves the receiver unchanged; afterwards no mutation of one object shows in the other"""
    probe = make_state(rng, spec)
    n_ops = len(conv_ops(rng, probe))
    for oi in range(n_ops):
        base = make_state(rng, spec)
        n_muts = len(mutations(rng, base))
        for mi in range(n_muts):
            for direction in ("copy", "orig"):
                st = rng.getstate()
                sv = make_state(rng, spec)
                before = snap_full(sv)
                name, kind, op = conv_ops(rng, sv)[oi]
                try:
                    new = op()
                except Exception as e:  # a converting method must work on a valid object
                    out.fail(f"convert-raises-{kind}", f"{name} raised {type(e).__name__}: {e}", {"spec": spec, "op": name}, observed=repr(e))
                    break
                if snap_full(sv) != before:
                    out.fail(f"receiver-changed-{kind}", f"{name} changed its receiver", {"spec": spec, "op": name},
                             observed=str(snap_full(sv))[:300], expected=str(before)[:300])
                    break
                target, other = (new, sv) if direction == "copy" else (sv, new)
                ms = mutations(rng, target)
                if mi >= len(ms):
                    break
                field, mut = ms[mi]
                ref = snap_full(other)
                try:
                    mut()
                except Exception as e:
                    out.tally(f"mutation-raised={field}:{type(e).__name__}")
                out.count(key=(oi, mi, direction, spec["form"], spec["frame"], spec["orbit"], spec["cov"], spec["mans"], spec["meta"]),
                          kind="separation", op=kind, field=field)
                now = snap_full(other)
                if now != ref:
                    if field in ("frame", "form") and now[0][:4] == ref[0][:4] and [k for k, _ in set(now[0][4]) ^ set(ref[0][4])] == ["cov", "cov"]:
                        field = "cov"   # the shared covariance followed the frame change of the other object
                    out.fail(f"shared-{field}-after-{kind}",
                             f"after {name}, changing {field} of the {'new object' if direction == 'copy' else 'receiver'} shows in the other object",
                             {"spec": spec, "op": name, "op_index": oi, "mutation_index": mi, "direction": direction, "rng": None},
                             observed=str(now)[:400], expected=str(ref)[:400])
                rng.setstate(st)
                rng.random()


# ---------------------------------------------------------------- oracle: failing changes

def check_failed_change(out, rng, spec):
    """O3: a failing form / frame change leaves form, frame, metadata and the physical state as they were"""
    from beyond.frames.frames import get_frame
    cases = [("form", "no_such_form", "unknown-form", True), ("frame", "NoSuchFrame", "unknown-frame", True),
             ("frame", "Hill", "to-hill", False)]
    for attr, value, tag, exact in cases + [("frame", "EME2000", "from-hill", False)]:
        sv = make_state(rng, spec)
        if tag == "from-hill":
            sv._data["frame"] = get_frame("Hill")
            if sv._data.get("cov") is not None:
                sv._data["cov"]._data["frame"] = sv._data["frame"]
        before = snap_full(sv)
        ids = (id(sv._data["form"]), id(sv._data["frame"]))
        c0 = cart_state(sv)
        try:
            setattr(sv, attr, value)
            raised = False
        except Exception:
            raised = True
        out.count(key=(tag, spec["form"], spec["frame"], spec["cov"], spec["orbit"]), kind="failed-change", case=tag)
        if not raised:
            out.fail(f"no-error-{tag}", f"{attr} = {value!r} did not raise", {"spec": spec, "case": tag})
            continue
        after = snap_full(sv)
        inp = {"spec": spec, "case": tag}
        if ids != (id(sv._data["form"]), id(sv._data["frame"])):
            out.fail(f"failed-change-label-{tag}", f"after the failed {attr} change form/frame differ from before", inp,
                     observed=(after[0][1], after[0][2]), expected=(before[0][1], before[0][2]))
        elif exact and after != before:
            out.fail(f"failed-change-state-{tag}", f"after the failed {attr} change the object differs from before", inp,
                     observed=str(after)[:300], expected=str(before)[:300])
        elif not exact:
            if (after[0][4], after[1]) != (before[0][4], before[1]):
                out.fail(f"failed-change-meta-{tag}", f"after the failed {attr} change metadata / covariance differ", inp,
                         observed=str(after[0][4])[:300], expected=str(before[0][4])[:300])
            elif not all(math.isfinite(float(v)) for v in c0):
                out.tally("failed-change-degenerate-state-skipped")   # e.g. tle/keplerian elements of a state that is hyperbolic relative to a rotating frame: NaN before the call
            elif not same_physical(c0, cart_state(sv)):
                out.fail(f"failed-change-values-{tag}", f"after the failed {attr} change the physical state differs", inp,
                         observed=list(map(float, cart_state(sv))), expected=list(map(float, c0)))
    # copy(...) that fails: receiver bit-identical
    for kw, tag in (({"form": "no_such_form"}, "copy-unknown-form"), ({"frame": "NoSuchFrame"}, "copy-unknown-frame"), ({"frame": "Hill"}, "copy-to-hill")):
        sv = make_state(rng, spec)
        before = snap_full(sv)
        try:
            sv.copy(**kw)
            out.fail(f"no-error-{tag}", f"copy({kw}) did not raise", {"spec": spec, "case": tag})
        except Exception:
            pass
        out.count(key=(tag, spec["form"], spec["frame"], spec["cov"]), kind="failed-change", case=tag)
        if snap_full(sv) != before:
            out.fail(f"receiver-changed-{tag}", f"failing copy({kw}) changed its receiver", {"spec": spec, "case": tag},
                     observed=str(snap_full(sv))[:300], expected=str(before)[:300])


# ---------------------------------------------------------------- oracle: access

def check_access(out, rng, form):
    """O4: name, alias and index address the same slot of the current form; names of other forms are refused"""
    import numpy as np
    from beyond.orbits.forms import Form, _cache_param_names, get_form
    spec = rand_spec(rng, form=form, cov=False, mans=0, orbit=False, meta=False)
    fobj = get_form(form)
    names = list(fobj.param_names)
    aliases = {}
    for al, tgt in Form.alt.items():
        aliases.setdefault(tgt, []).append(al)
    for i, nm in enumerate(names):
        for label in [nm] + aliases.get(nm, []) + [al for al in Form.alt if al == nm]:
            sv = make_state(rng, spec)
            ref = float(np.asarray(sv)[i]).hex()     # hex strings: NaN elements (degenerate states) compare equal to themselves
            out.count(key=(form, label), kind="access", form=form)
            fam = f"access-{form}-{label}"
            try:
                got = [float(getattr(sv, label)).hex(), float(sv[label]).hex(), float(sv[i]).hex()]
            except Exception as e:
                out.fail(fam, f"reading element '{label}' (slot {i}) of a {form} state raises {type(e).__name__}: {e}",
                         {"form": form, "name": label, "slot": i, "spec": spec}, observed=repr(e), expected=ref)
                continue
            if any(g != ref for g in got):
                out.fail(fam, f"'{label}' does not address slot {i} in form {form}", {"form": form, "name": label, "slot": i, "spec": spec}, observed=got, expected=ref)
                continue
            for how in ("attr", "item"):
                sv = make_state(rng, spec)
                old = [float(v).hex() for v in np.asarray(sv)]
                try:
                    if how == "attr":
                        setattr(sv, label, 0.123)
                    else:
                        sv[label] = 0.123
                except Exception as e:
                    out.fail(fam, f"writing element '{label}' of a {form} state raises {type(e).__name__}", {"form": form, "name": label, "slot": i, "spec": spec}, observed=repr(e))
                    continue
                new = [float(v).hex() for v in np.asarray(sv)]
                exp = old[:i] + [(0.123).hex()] + old[i + 1:]
                if new != exp or label in sv._data:
                    out.fail(fam, f"writing '{label}' does not change exactly slot {i} in form {form}", {"form": form, "name": label, "slot": i, "spec": spec}, observed=new, expected=exp)
    # names belonging only to other forms
    foreign = sorted(x for x in _cache_param_names if x not in names and Form.alt.get(x, x) not in names)
    for nm in foreign + [al for al, t in Form.alt.items() if t not in names and al not in names]:
        sv = make_state(rng, spec)
        before = snap_full(sv)
        out.count(key=(form, "foreign", nm), kind="access-foreign", form=form)
        res = []
        for f in (lambda: getattr(sv, nm), lambda: sv[nm], lambda: setattr(sv, nm, 1.0), lambda: sv.__setitem__(nm, 1.0)):
            try:
                f()
                res.append("ok")
            except AttributeError:
                res.append("AttributeError")
            except KeyError:
                res.append("KeyError")
        if res != ["AttributeError", "KeyError", "AttributeError", "KeyError"] or snap_full(sv) != before:
            out.fail(f"foreign-{form}-{nm}", f"name '{nm}' of another form is not refused in form {form}", {"form": form, "name": nm, "spec": spec}, observed=res)


# ---------------------------------------------------------------- oracle: pickle, StateVector <-> Orbit

def check_pickle(out, rng, spec):
    sv = make_state(rng, spec)
    before = snap_full(sv)
    p = pickle.loads(pickle.dumps(sv))
    out.count(key=("pickle", spec["form"], spec["frame"], spec["orbit"], spec["cov"], spec["mans"], spec["meta"]), kind="pickle", cov=bool(spec["cov"]))
    inp = {"spec": spec}
    if snap_full(sv) != before:
        out.fail("receiver-changed-pickle", "pickling changed the object", inp)
    if type(p) is not type(sv):
        out.fail("pickle-type", "unpickled object has another type", inp, observed=type(p).__name__, expected=type(sv).__name__)
        return
    sp, ss = snap(p), snap(sv)
    if sp[:4] != ss[:4]:
        out.fail("pickle-values", "form/frame/values differ after a pickle round trip", inp, observed=sp[:4], expected=ss[:4])
    dp, ds = dict(sp[4]), dict(ss[4])
    for k in sorted(set(dp) | set(ds)):
        if dp.get(k) != ds.get(k):
            out.fail(f"pickle-loses-{'cov' if k == 'cov' else 'metadata'}", f"metadata entry '{k}' differs after a pickle round trip", dict(inp, key=k),
                     observed=str(dp.get(k))[:200], expected=str(ds.get(k))[:200])
    # the unpickled object must be a working state vector: same conversions as the original
    f = "keplerian" if spec["form"] != "keplerian" else "cartesian"
    fr = "ITRF" if spec["frame"] != "ITRF" else "EME2000"
    for nm, g in (("copy", lambda o: o.copy()), ("copy-form", lambda o: o.copy(form=f)), ("copy-frame", lambda o: o.copy(frame=fr)),
                  ("set-form", lambda o: (setattr(o, "form", f), o)[1]), ("set-frame", lambda o: (setattr(o, "frame", fr), o)[1])):
        q = pickle.loads(pickle.dumps(sv))
        if spec["cov"]:   # judged separately (pickle-loses-cov); drop the covariance to look at the state vector itself
            q._data["cov"] = None
            o = make_state(rng, spec)
            o._data["cov"] = None
        else:
            o = make_state(rng, spec)
        exp = snap(g(o))
        try:
            got = snap(g(q))
        except Exception as e:
            out.fail("pickle-unusable", f"{nm} on an unpickled {type(sv).__name__} raises {type(e).__name__}: {e}", dict(inp, op=nm), observed=repr(e))
            continue
        if got != exp:
            out.fail("pickle-diverges", f"{nm} on an unpickled object gives another result than on the original", dict(inp, op=nm), observed=str(got)[:300], expected=str(exp)[:300])


def check_roundtrip_types(out, rng, spec):
    """O6: StateVector -> Orbit -> StateVector and Orbit -> StateVector -> Orbit preserve values and metadata"""
    from beyond.orbits import StateVector, Orbit
    from beyond.propagators.kepler import Kepler
    sv = make_state(rng, spec)
    out.count(key=("types", spec["form"], spec["frame"], spec["orbit"], spec["cov"], spec["mans"], spec["meta"]), kind="sv-orbit-roundtrip")
    o = sv.as_orbit(Kepler())
    back = o.as_statevector()
    inp = {"spec": spec}
    if type(o) is not Orbit or type(back) is not StateVector:
        out.fail("roundtrip-type", "as_orbit / as_statevector return the wrong type", inp, observed=(type(o).__name__, type(back).__name__))
    if snap_meta(o) != snap_meta(sv) or snap_meta(back) != snap_meta(sv):
        out.fail("roundtrip-values", "as_orbit / as_statevector do not preserve values and metadata", inp, observed=str(snap_meta(back))[:300], expected=str(snap_meta(sv))[:300])
    if "propagator" in back._data:
        out.fail("roundtrip-propagator", "as_statevector keeps the propagator", inp)
    if not isinstance(o._data.get("propagator"), Kepler):
        out.fail("roundtrip-propagator", "as_orbit does not attach the propagator", inp)


def oracle(ctx, widened):
    out = Outcome()
    rng = ctx.rng
    big = widened or ctx.thorough
    for form in FORMS:
        check_access(out, rng, form)
    specs = []
    # a covering set first (every optional part present), then random ones
    for orbit in (False, True):
        specs.append(rand_spec(rng, orbit=orbit, cov=True, mans=2, meta=True, covframe=None))
    for _ in range(40 if big else 3):
        specs.append(rand_spec(rng))
    for spec in specs:
        check_separation(out, rng, spec)
    for _ in range(300 if big else 30):
        check_failed_change(out, rng, rand_spec(rng))
    for k in range(300 if big else 30):
        spec = rand_spec(rng, cov=(k % 2 == 0))
        check_pickle(out, rng, spec)
        check_roundtrip_types(out, rng, spec)
    out.sample({"checked": "copy()/copy(form)/copy(frame)/as_orbit/as_statevector then every in-place mutation of one object; deep snapshot of the other must not move"})
    return out


def replay(f):
    import random
    out = Outcome()
    i = f["input"]
    rng = random.Random(0)
    fam = f["family"]
    if fam.startswith("shared-") or fam.startswith("receiver-changed-") or fam.startswith("convert-raises"):
        check_separation(out, rng, i["spec"])
    elif fam.startswith("failed-change") or fam.startswith("no-error"):
        check_failed_change(out, rng, i["spec"])
    elif fam.startswith("access-") or fam.startswith("foreign-"):
        check_access(out, rng, i["form"])
    elif fam.startswith("pickle"):
        check_pickle(out, rng, i["spec"])
    elif fam.startswith("roundtrip"):
        check_roundtrip_types(out, rng, i["spec"])
    out.failures = [x for x in out.failures if x["family"] == fam]
    return out


# ---------------------------------------------------------------- tables regenerated from the live package

def _lstr(s):
    return '"' + s.replace("\\", "\\\\").replace('"', '\\"') + '"'


def live_tables():
    """name / alias tables of beyond.orbits.forms, the frame registry and the property names of the classes, from live objects"""
    from beyond.orbits import forms, StateVector, Orbit
    from beyond.frames import frames
    form_keys = [(k, v.name) for k, v in forms._cache.items()]
    seen = []
    for _, v in forms._cache.items():
        if v.name not in [n for n, _ in seen]:
            seen.append((v.name, list(v.param_names)))
    alt = list(forms.Form.alt.items())
    cache = sorted(forms._cache_param_names)
    props = sorted({n for cls in (StateVector, Orbit) for n in dir(cls) if isinstance(getattr(cls, n, None), property)})
    reg, hill = [], []
    for k, fr in frames.dynamic.items():
        if type(fr) is frames.Frame and fr.center is frames.center.Earth and type(fr.orientation).__name__ != "LocalOrbitalOrientation":
            reg.append((k, fr.name))
        elif isinstance(fr, frames.HillFrame):
            hill.append(k)
    reg = [kv for kv in reg if kv[1] in {n for _, n in reg if _ == n}]   # keys of built-in frames only
    return {"form_keys": form_keys, "param_names": seen, "alt": alt, "cache": cache, "props": props,
            "frame_keys": sorted(kv for kv in reg if kv[0] in frames.__all__ or kv[0] == kv[1] and kv[0] in FRAMES + ["GCRF", "CIRF", "TIRF", "G50", "WGS84"]),
            "hill_keys": sorted(hill)}


def extract(ctx):
    t = live_tables()
    ctx.tables = t
    # the same tables read from the source text (AST) as a self-check of the live extraction
    import ast
    src = open(os.path.join(core.REPO, "beyond", "orbits", "forms.py")).read()
    tree = ast.parse(src)
    ast_names = {}
    for node in ast.walk(tree):
        if isinstance(node, ast.Assign) and isinstance(node.value, ast.Call) and getattr(node.value.func, "id", None) == "Form":
            ast_names[ast.literal_eval(node.value.args[0])] = ast.literal_eval(node.value.args[1])
    if ast_names != dict(t["param_names"]):
        raise RuntimeError(f"live Form.param_names differ from the Form(...) literals in forms.py: {ast_names} vs {t['param_names']}")

    def pairs(xs):
        return "[" + ", ".join(f"({_lstr(a)}, {_lstr(b)})" for a, b in xs) + "]"
    out = ["/- GENERATED by harness/props/C15.py from the live objects of beyond.orbits.forms / beyond.frames.frames — do not edit -/",
           "namespace BeyondVerif.Generated.FormTables",
           "/-- `forms._cache`: accepted form name ↦ name of the Form object -/",
           f"def formKeys : List (String × String) := {pairs(t['form_keys'])}",
           "/-- `Form.param_names` of every Form object -/",
           "def paramNames : List (String × List String) := [" + ", ".join(f"({_lstr(n)}, [" + ", ".join(map(_lstr, ps)) + "])" for n, ps in t["param_names"]) + "]",
           "/-- `Form.alt`: alias ↦ element name -/",
           f"def alt : List (String × String) := {pairs(t['alt'])}",
           "/-- `forms._cache_param_names` (sorted) -/",
           "def cacheParamNames : List String := [" + ", ".join(map(_lstr, t["cache"])) + "]",
           "/-- names that are properties of StateVector / Orbit (handled by their setters, not by the name tables) -/",
           "def propertyNames : List String := [" + ", ".join(map(_lstr, t["props"])) + "]",
           "/-- built-in Earth-centred frames: registry key ↦ `Frame.name` -/",
           f"def frameKeys : List (String × String) := {pairs(t['frame_keys'])}",
           "def hillKeys : List String := [" + ", ".join(map(_lstr, t["hill_keys"])) + "]",
           "end BeyondVerif.Generated.FormTables"]
    ch = core.write_if_changed(os.path.join(core.LEAN, "BeyondVerif", "Generated", "HeapTables.lean"), "\n".join(out) + "\n")
    return ["Generated/HeapTables.lean"] if ch else []


# ---------------------------------------------------------------- correspondence: real objects vs the heap model

STR_TOK = {"sat": 1, "a": 2, "b": 3, "x": 6}
ERR_KINDS = [("UnknownFormError", "unknown-form"), ("UnknownFrameError", "unknown-frame"), ("RuntimeError", "runtime"),
             ("ValueError", "value"), ("TypeError", "type"), ("AttributeError", "attr"), ("KeyError", "attr")]


def err_kind(e):
    for cls in type(e).__mro__:
        for name, kind in ERR_KINDS:
            if cls.__name__ == name:
                return kind
    return "other:" + type(e).__name__


class Real:
    """runs the operations of one request line on real objects and dumps them like Drv/C15.lean does"""

    def __init__(self):
        self.vars = []
        self.init = {}      # k -> bytes of the initial coordinate / covariance values
        self.dates = {}     # k -> Date
        self.datekey = {}

    def new(self, k, orbit, form, frame, meta, nmans, cov, covframe):
        import numpy as np
        spec = {"kep": self.kep[k], "form": form, "frame": frame, "orbit": orbit, "cov": False, "mans": nmans, "meta": meta, "dt": 60 * k}
        sv = make_state(None, spec)
        self.init[k] = np.asarray(sv).tobytes()
        self.dates[k] = sv._data["date"]
        self.datekey[(sv._data["date"]._d, sv._data["date"]._s)] = 100 + k
        self.vars.append(sv)
        if cov:
            self.setcov(len(self.vars) - 1, 1000 + k)
            if covframe != "-":
                sv.cov.frame = covframe

    def setcov(self, i, k):
        import numpy as np
        from beyond.orbits.cov import Cov
        sv = self.vars[i]
        vals = np.diag([1.0e4, 2.0e4, 3.0e4, 1.0e-2, 2.0e-2, 3.0e-2]) * (1 + (k % 7))
        vals[0, 1] = vals[1, 0] = 12.5
        self.init[k] = np.array(vals).tobytes()
        sv.cov = Cov(sv, vals, sv.frame)

    def run(self, op):
        from beyond.propagators.kepler import Kepler
        from beyond.orbits.man import ImpulsiveMan
        v = self.vars
        name, a = op[0], op[1:]
        try:
            if name == "new":
                self.new(int(a[0]), a[1] == "1", a[2], a[3], a[4] == "1", int(a[5]), a[6] == "1", a[7])
            elif name == "copy":
                v.append(v[int(a[0])].copy())
            elif name == "copyf":
                v.append(v[int(a[0])].copy(form=a[1]))
            elif name == "copyfr":
                v.append(v[int(a[0])].copy(frame=a[1]))
            elif name == "aso":
                v.append(v[int(a[0])].as_orbit(Kepler()))
            elif name == "assv":
                v.append(v[int(a[0])].as_statevector())
            elif name == "setf":
                v[int(a[0])].form = a[1]
            elif name == "setfr":
                v[int(a[0])].frame = a[1]
            elif name == "seta":
                if int(a[2]) % 2:
                    setattr(v[int(a[0])], a[1], int(a[2]))
                else:
                    v[int(a[0])][a[1]] = int(a[2])
            elif name == "seti":
                v[int(a[0])][int(a[1])] = int(a[2])
            elif name == "covfr":
                v[int(a[0])].cov.frame = a[1]
            elif name == "addman":
                sv = v[int(a[0])]
                sv.maneuvers.append(ImpulsiveMan(sv._data["date"], [1.0, 0.0, 0.0], comment=f"m{a[1]}"))
            elif name == "setcov":
                self.setcov(int(a[0]), int(a[1]))
            elif name == "pickle":
                v.append(pickle.loads(pickle.dumps(v[int(a[0])])))
            else:
                return "bad-op"
            return "ok"
        except Exception as e:
            return err_kind(e)

    def dump(self):
        """(structure string with '$' for buffer contents, list of buffer contents, list of problems)"""
        import numpy as np
        from beyond.orbits import StateVector, Orbit
        from beyond.orbits.cov import Cov
        from beyond.orbits.man import Man
        from beyond.orbits.forms import Form
        from beyond.frames.frames import Frame
        from beyond.dates import Date
        from beyond.propagators.base import Propagator
        from beyond.frames import frames as _frames
        seen, vals, problems, keep = {}, [], [], []
        clones = {}

        def frame_str(x):
            """registry objects by name; clones (pickle / deepcopy make new Frame objects, compared by identity) numbered by first visit"""
            hill = type(x).__name__ == "HillFrame"
            name = "Hill" if hill else x.name
            if _frames.dynamic.get("Hill" if hill else x.name) is x:
                return name
            keep.append(x)
            return f"{name}'{clones.setdefault(id(x), len(clones) + 1)}"

        def ident(key, obj):
            keep.append(obj)
            if key in seen:
                return None, f"#{seen[key]}"
            seen[key] = sum(1 for v in seen.values() if v >= 0)
            return seen[key], None

        def ref(x):
            if x is None:
                return "~"
            if isinstance(x, bool):
                return f"t{int(x)}"
            if isinstance(x, int):
                return f"t{x}"
            if isinstance(x, str):
                return f"t{STR_TOK.get(x, 999)}"
            if isinstance(x, Date):
                return f"t{self.datekey.get((x._d, x._s), 998)}"
            if isinstance(x, Form):
                return f"f:{x.name}"
            if isinstance(x, Frame):
                return f"F:{frame_str(x)}"
            if isinstance(x, StateVector):
                i, back = ident(id(x), x)
                if back:
                    return back
                owned = x.base is None
                if owned:
                    bi, bback = ident(("own", id(x)), x)
                else:
                    if type(x.base) is not np.ndarray or x.base.shape != (6,):
                        problems.append(f"unexpected base {type(x.base).__name__}")
                    bi, bback = ident(id(x.base), x.base)
                if bback:
                    sb = bback
                else:
                    sb = f"B{bi}=<$>"
                    vals.append(np.asarray(x).tobytes())
                return f"S{i}({'O' if isinstance(x, Orbit) else 'V'},{sb},{ref(x._data)})"
            if isinstance(x, Cov):
                i, back = ident(id(x), x)
                if back:
                    return back
                dd = x.__dict__.get("_data")
                if dd is None:
                    vals.append(np.asarray(x).tobytes())
                    return f"C{i}(!,<$>)"
                for part in (x.base, dd):
                    if part is None:      # an unpickled array owns its memory
                        continue
                    if id(part) in seen or ("covpart", id(part)) in seen:
                        problems.append("a covariance shares its buffer / dict with another object")
                    seen[("covpart", id(part))] = -1
                    keep.append(part)
                vals.append(np.asarray(x).tobytes())
                fr = dd["frame"]
                of = x.__dict__.get("_orb_frame")
                frs = fr if isinstance(fr, str) else frame_str(fr)
                ofs = frame_str(of)
                return f"C{i}(<$>,{frs},{ofs},{ref(dd['orb'])})"
            if isinstance(x, Man):
                i, back = ident(id(x), x)
                return back or f"M{i}={x.comment[1:]}"
            if isinstance(x, Propagator):
                i, back = ident(id(x), x)
                return back or f"P{i}"
            if isinstance(x, np.ndarray):
                i, back = ident(id(x), x)
                return back or f"A{i}={7 if x.tobytes() == np.arange(3.0).tobytes() else 0}"
            if isinstance(x, list):
                i, back = ident(id(x), x)
                return back or f"L{i}[" + ",".join(ref(y) for y in x) + "]"
            if isinstance(x, dict):
                i, back = ident(id(x), x)
                if back:
                    return back
                items = [(k, y) for k, y in sorted(x.items()) if not (k == "cov" and y is None) and not (k == "maneuvers" and isinstance(y, list) and not y)]
                return f"D{i}{{" + ",".join(f"{k}={ref(y)}" for k, y in items) + "}"
            return f"?{type(x).__name__}"
        s = " ".join(ref(x) for x in self.vars)
        for k in list(seen):
            if isinstance(k, tuple) and k[0] == "covpart":
                del seen[k]
        return s, vals, problems


def parse_val(s):
    """'c(f,g,i0)' -> ('c', 'f', 'g', ('i', 0))"""
    pos = 0

    def term():
        nonlocal pos
        j = pos
        while pos < len(s) and s[pos] not in "(),":
            pos += 1
        head = s[j:pos]
        if pos < len(s) and s[pos] == "(":
            args = []
            pos += 1
            while True:
                args.append(term())
                if s[pos] == ",":
                    pos += 1
                else:
                    pos += 1   # ')'
                    break
            return (head,) + tuple(args)
        return head
    return term()


class Evaluator:
    """evaluates a symbolic value of the model with the pure conversion functions of the library"""

    def __init__(self, real):
        self.real = real
        self.cache = {}

    def date_of(self, t):
        if isinstance(t, str):
            return self.real.dates.get(int(t[1:])) if t.startswith("i") else None
        return self.date_of(t[-1])

    def ev(self, t):
        import numpy as np
        from beyond.orbits import StateVector
        from beyond.orbits.forms import get_form
        from beyond.frames.frames import get_frame
        key = repr(t)
        if key in self.cache:
            return self.cache[key]
        res = None
        if isinstance(t, str):
            if t.startswith("i"):
                res = self.real.init.get(int(t[1:]))
        elif t[0] == "c":
            v = self.ev(t[3])
            if v is not None:
                tmp = StateVector(np.frombuffer(v), self.date_of(t), t[1], "EME2000")
                res = np.array(get_form(t[1])(tmp, t[2]), dtype=float).tobytes()
        elif t[0] == "x":
            v = self.ev(t[3])
            if v is not None:
                tmp = StateVector(np.frombuffer(v), self.date_of(t), "cartesian", t[1])
                res = np.array(get_frame(t[1]).transform(tmp, get_frame(t[2])), dtype=float).tobytes()
        elif t[0] == "s":
            v = self.ev(t[4])
            if v is not None:
                arr = np.frombuffer(v).copy()
                arr[int(t[2])] = float(int(t[3]))
                res = arr.tobytes()
        self.cache[key] = res
        return res


import re
_VAL = re.compile(r"<([^<>]*)>")


def run_case(ops, kep):
    """returns (list of per-op (status, struct, vals, problems)) from the real code"""
    real = Real()
    real.kep = kep
    res = []
    for op in ops:
        status = real.run(op)
        s, vals, problems = real.dump()
        res.append((status, s, vals, problems))
    return real, res


def compare_case(ops, kep, reply):
    """None when model and implementation agree, else (what, observed, expected)"""
    real, res = run_case(ops, kep)
    parts = reply.split(" || ")
    if len(parts) != len(ops):
        return ("model refused the request", reply[:200], None)
    evl = Evaluator(real)
    bits = {}
    import numpy as np
    if any(not np.all(np.isfinite(np.frombuffer(b))) for _, _, vals, _ in res for b in vals):
        return "degenerate"   # NaN elements (state hyperbolic relative to a rotating frame in tle form, ...): conversions of NaN are not compared
    for n, (op, (status, s, vals, problems), part) in enumerate(zip(ops, res, parts)):
        mstatus, _, mdump = part.partition(" ")
        if problems:
            return (f"op {n} {' '.join(op)}: {problems[0]}", problems, None)
        if mstatus != status:
            return (f"op {n} {' '.join(op)}: outcome differs", status, mstatus)
        mvals = _VAL.findall(mdump)
        mstruct = _VAL.sub("<$>", mdump)
        if mstruct != s:
            return (f"op {n} {' '.join(op)}: object graph (structure / sharing / labels) differs", s, mstruct)
        if len(mvals) != len(vals):
            return (f"op {n}: number of buffers differs", len(vals), len(mvals))
        for expr, b in zip(mvals, vals):
            if bits.setdefault(expr, b) != b:
                return (f"op {n} {' '.join(op)}: two buffers with the same model value {expr} hold different numbers", None, expr)
            want = evl.ev(parse_val(expr))
            if want is not None and want != b:
                import numpy as np
                return (f"op {n} {' '.join(op)}: buffer content differs from the pure evaluation of {expr}",
                        list(map(float, np.frombuffer(b))), list(map(float, np.frombuffer(want))))
    return None


SET_NAMES = ["x", "vz", "a", "e", "i", "raan", "Omega", "Ω", "omega", "nu", "ν", "theta", "θ", "r", "M", "ex", "aol", "alpha", "l", "n",
             "label", "note", "r_dot", "theta_dot", "phi"]


def rand_ops(rng, maxlen=6):
    ops = []
    nvars = 0
    nnew = rng.choice([1, 1, 2])
    for k in range(nnew):
        ops.append(["new", str(k), str(int(rng.random() < 0.4)), rng.choice(FORMS), rng.choice(FRAMES + ["Hill"] * (rng.random() < 0.1)),
                    str(int(rng.random() < 0.6)), str(rng.choice([0, 0, 1, 2])), str(int(rng.random() < 0.5)), rng.choice(["-", "-", "TNW", "QSW", "ITRF"])])
        nvars += 1
    est = nvars   # upper bound of the number of variables; the model and the code agree on failures, so indices stay valid on both sides
    for _ in range(rng.randint(1, maxlen)):
        i = str(rng.randrange(est))
        r = rng.random()
        form = rng.choice(FORMS + ["circular", "mean", "no_such_form"] if rng.random() < 0.2 else FORMS)
        frame = rng.choice(FRAMES + ["WGS84", "NoSuchFrame", "Hill"] if rng.random() < 0.3 else FRAMES)
        if r < 0.14:
            op = ["copy", i]
        elif r < 0.24:
            op = ["copyf", i, form]
        elif r < 0.36:
            op = ["copyfr", i, frame]
        elif r < 0.44:
            op = ["aso", i]
        elif r < 0.50:
            op = ["assv", i]
        elif r < 0.58:
            op = ["setf", i, form]
        elif r < 0.70:
            op = ["setfr", i, frame]
        elif r < 0.76:
            op = ["seta", i, rng.choice(SET_NAMES), str(rng.randrange(10, 90))]
        elif r < 0.80:
            op = ["seti", i, str(rng.randrange(6)), str(rng.randrange(10, 90))]
        elif r < 0.86:
            op = ["covfr", i, rng.choice(FRAMES + ["TNW", "QSW", "NoSuchFrame"])]
        elif r < 0.90:
            op = ["addman", i, str(rng.randrange(10, 90))]
        elif r < 0.94:
            op = ["setcov", i, str(rng.randrange(2000, 2100))]
        else:
            op = ["pickle", i]
        ops.append(op)
    return ops


def fix_indices(ops):
    """variable indices are taken modulo the number of variables that exist when the op runs: done by a dry run on the real code"""
    return ops


def correspondence(ctx):
    out = Outcome()
    rng = ctx.rng
    # 1. name resolution, exhaustive: every form x every name / alias / a free key
    t = getattr(ctx, "tables", None) or live_tables()
    names = sorted(set(t["cache"]) | {a for a, _ in t["alt"]} | {"label", "foo"})
    lines, keys = [], []
    for form, _ in t["param_names"]:
        for nm in names:
            lines.append(f"access {form} {nm}")
            keys.append((form, nm))
    replies = core.Driver().run(lines)
    for (form, nm), m in zip(keys, replies):
        real = real_access(form, nm)
        out.count(key=("access", form, nm), kind="access", nontrivial=real != "free")
        if real != m:
            out.fail("access-table", "name resolution differs between the model and StateVector.__getattr__/__setattr__", {"form": form, "name": nm}, observed=real, expected=m)
    out.sample({"line": lines[0], "reply": replies[0]})
    # 2. operation sequences
    cases = []
    for _ in range(ctx.n(1200, 20000)):
        ops = rand_ops(rng)
        kep = [rand_coord(rng) for _ in range(2)]
        cases.append((ops, kep))
    cases = [(resolve_indices(ops, kep), kep) for ops, kep in cases]
    replies = core.Driver().run(["heap " + " ; ".join(" ".join(op) for op in ops) for ops, _ in cases])
    for (ops, kep), m in zip(cases, replies):
        d = compare_case(ops, kep, m)
        kinds = sorted({op[0] for op in ops})
        out.count(key=tuple(tuple(o) for o in ops), nontrivial=len(ops) >= 2, kind="sequence", length=len(ops))
        for kd in kinds:
            out.tally(f"op={kd}")
        for part in m.split(" || "):
            out.tally("status=" + part.split(" ")[0])
        if d == "degenerate":
            out.tally("skipped=non-finite-values")
            continue
        if d is not None:
            out.fail("heap-sequence", d[0], {"ops": ops, "kep": kep}, observed=str(d[1])[:600], expected=str(d[2])[:600])
        out.sample({"line": "heap " + " ; ".join(" ".join(op) for op in ops), "reply": m[:200]}, limit=3)
    return out


def resolve_indices(ops, kep):
    """dry run on the real code: reduce every variable index modulo the number of live variables at that point"""
    real = Real()
    real.kep = kep
    fixed = []
    for op in ops:
        op = list(op)
        if op[0] != "new":
            op[1] = str(int(op[1]) % max(1, len(real.vars))) if real.vars else "0"
        real.run(op)
        fixed.append(op)
    return fixed


def real_access(form, name):
    """what the real object does with `name` in form `form`: 'slot i' | 'foreign' | 'free'"""
    import numpy as np
    from beyond.dates import Date
    from beyond.orbits import StateVector
    sv = StateVector([1.0, 2.0, 3.0, 4.0, 5.0, 6.0], Date(2020, 1, 1), form, "EME2000")
    try:
        setattr(sv, name, 77.0)
    except AttributeError:
        try:
            sv[name]
        except KeyError:
            return "foreign"
        return "inconsistent"
    hit = [i for i in range(6) if float(np.asarray(sv)[i]) == 77.0]
    if name in sv._data:
        return "free" if not hit else "inconsistent"
    if len(hit) == 1 and float(getattr(sv, name)) == 77.0 and float(sv[name]) == 77.0:
        return f"slot {hit[0]}"
    return "inconsistent"
