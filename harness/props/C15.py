"""C15 — state vectors have value semantics and change atomically."""
import math
import os
import pickle

from harness import core
from harness.core import Outcome

ID = "C15"
LEAN_TARGETS = ["BeyondVerif.Props.C15", "BeyondVerif.Props.C15Reg", "BeyondVerif.Witness.C15"]
THEOREMS = [
    "BeyondVerif.C15.names_six_distinct",
    "BeyondVerif.C15.access_name_index",
    "BeyondVerif.C15.access_alias_index",
    "BeyondVerif.C15.access_foreign_refused",
    "BeyondVerif.C15.access_slot_sound",
    "BeyondVerif.C15.setForm_unknown_atomic",
    "BeyondVerif.C15.setForm_unknown_error_atomic",
    "BeyondVerif.C15.runFormSteps_atomic",
    "BeyondVerif.C15.formSteps_atomicOrder",
    "BeyondVerif.C15.setForm_error_atomic",
    "BeyondVerif.C15.setFormX_eq_setForm",
    "BeyondVerif.C15.setFrame_unknown_atomic",
    "BeyondVerif.C15.setFrameBasic_error_atomic",
    "BeyondVerif.C15.setFrameBasic_error_keeps_labels",
    "BeyondVerif.C15.restore_after_basic",
    "BeyondVerif.C15.setFrame_error_atomic",
    "BeyondVerif.C15.setFrame_error_frame",
    "BeyondVerif.C15.stdDeepcopy_separate",
    "BeyondVerif.C15.infosTest_never",
    "BeyondVerif.C15.getInfos_own",
    "BeyondVerif.C15.getInfos_frame",
    "BeyondVerif.C15.copyItems_no_infos",
    "BeyondVerif.C15.copy_drops_infos",
    "BeyondVerif.C15.asOrbit_drops_infos",
    "BeyondVerif.C15.asSV_drops_infos",
    "BeyondVerif.C15.copyForm_ok_new",
    "BeyondVerif.C15.transformObj_separate",
    "BeyondVerif.C15.covSetFrame_error_atomic",
    "BeyondVerif.C15.setFrame_error_cases",
    "BeyondVerif.C15.copy_receiver_unchanged",
    "BeyondVerif.C15.copyForm_receiver_unchanged",
    "BeyondVerif.C15.copyFrame_receiver_unchanged",
    "BeyondVerif.C15.asOrbit_receiver_unchanged",
    "BeyondVerif.C15.asSV_receiver_unchanged",
    "BeyondVerif.C15.pickle_receiver_unchanged",
    "BeyondVerif.C15.copy_separate_depth1",
    "BeyondVerif.C15.copy_separate",
    "BeyondVerif.C15.copy_shares_only_maneuver_objects",
    "BeyondVerif.C15.copyForm_separate",
    "BeyondVerif.C15.copyFrame_separate",
    "BeyondVerif.C15.mut_sep",
    "BeyondVerif.C15.muts_sep",
    "BeyondVerif.C15.copy_then_mutations_invisible",
    "BeyondVerif.C15.mut_out",
    "BeyondVerif.C15.muts_out",
    "BeyondVerif.C15.copy_region_out",
    "BeyondVerif.C15.original_mutations_invisible",
    "BeyondVerif.C15.asSV_then_mutations_invisible",
    "BeyondVerif.C15.pickle_then_mutations_invisible",
    "BeyondVerif.C15.ctor_separate",
    "BeyondVerif.C15.attachCov_frame",
    "BeyondVerif.C15.attachCov_result",
    "BeyondVerif.C15.covFrom_frame",
    "BeyondVerif.C15.getMans_creates_new",
    "BeyondVerif.C15.getMans_existing",
    "BeyondVerif.C15.example_heap_wf",
    "BeyondVerif.C15.asOrbit_separate",
    "BeyondVerif.C15.asSV_separate",
    "BeyondVerif.C15.pickle_separate",
    "BeyondVerif.C15.as_orbit_as_statevector_id",
    "BeyondVerif.Heap.copyRef_ok",
    "BeyondVerif.Heap.copyRef_sep",
    "BeyondVerif.Heap.deepRef_ok",
    "BeyondVerif.Heap.covSetFrame_sep",
    "BeyondVerif.Heap.setFrameTo_sep",
    "BeyondVerif.C15W.copy_shares_maneuver_objects",
    "BeyondVerif.C15W.as_orbit_cov_separate",
    "BeyondVerif.C15W.pickle_gives_working_object",
    "BeyondVerif.C15W.deepcopy_shares_nothing",
    "BeyondVerif.C15W.copy_hands_over_infos_entry",
    "BeyondVerif.C15W.cached_infos_test_would_answer_with_the_original",
    "BeyondVerif.C15W.frame_change_fails_after_state_moved",
    "BeyondVerif.C15W.frame_change_moves_state_and_covariance",
    "BeyondVerif.C15W.cov_from_cov_has_own_buffer",
    "BeyondVerif.C15W.lazily_created_maneuver_list_not_shared",
    "BeyondVerif.C15W.failed_frame_change_from_keplerian",
    "BeyondVerif.C15.pickle_frame_any_registry_history",
    "BeyondVerif.C15.St.load_replies_dumped",
    "BeyondVerif.C15.St.step_keeps_blobs",
    "BeyondVerif.C15.St.load_after_history",
    "BeyondVerif.C15.get_set_same",
    "BeyondVerif.C15.get_set_other",
    "BeyondVerif.C15.get_del_same",
    "BeyondVerif.C15.get_del_other",
    "BeyondVerif.C15.get_after_build",
    "BeyondVerif.C15.rereg_replaces",
    "BeyondVerif.C15.byName_roundtrip_iff",
    "BeyondVerif.C15.byName_unsound_on_registry0",
    "BeyondVerif.C15.byName_unsound_after_rereg",
    "BeyondVerif.C15.byName_fails_when_unregistered",
]
LEVEL_TEXT = ("Lean theorems over an object-graph (heap) model of StateVector/Orbit/Cov (buffers of state vectors AND of covariances, dicts, containers, maneuver and covariance objects are cells): for every heap and receiver, copy(), "
              "copy(form=..), copy(frame=..), as_orbit, as_statevector, a pickle round trip and the constructors given an existing object write no pre-existing cell (receiver unchanged, also when the conversion fails); in every "
              "well-formed heap a cell reachable both from a copy and from its original is a maneuver object and nothing else, at any depth (copy_shares_only_maneuver_objects), also after copy(form/frame) whether it succeeds or fails "
              "(copyForm_separate, copyFrame_separate); over HISTORIES: after a copy / as_statevector / unpickling, any sequence of in-place operations on the new object — form, frame (incl. transformations the environment makes "
              "fail), element by name/index, metadata keys, metadata containers empty or not and nested, the maneuver list incl. the one the getter creates on a mere read, covariance frame — each succeeding or raising, leaves every "
              "pre-existing cell bit-identical (copy_then_mutations_invisible, by induction over the sequence), and any such sequence on the original (or any other object) leaves every cell the copy consists of bit-identical "
              "(original_mutations_invisible); a covariance built from a list, an ndarray or another covariance gets a new buffer cell and only the owner's own dict is "
              "rewritten (attachCov_result, covFrom_frame); the maneuver getter creates a new list per object (getMans_creates_new); every failing form change and every failing covariance frame change leaves the heap identical, a "
              "failing frame assignment — unknown name, Hill, unreachable centre, missing EOP data, the covariance that has to follow cannot be converted — from ANY form leaves form, frame, _data and every cell but the coordinate buffer "
              "bit-identical and the buffer untouched or the round trip form->cartesian->form of its content (setFrame_error_atomic, setFrame_error_frame, in full since /repo 45ca5d0); a failing FORM change — unknown name or the conversion raising on any leg "
              "of its route — leaves the heap bit-identical, proved over the order of effects of the setter read from its AST on every run (formSteps_atomicOrder by kernel decide, setForm_error_atomic; setFormX_eq_setForm ties the interpreted order to the "
              "hand-written setter of the other theorems); the helper `sv.infos` hands out is bound to sv in EVERY heap, i.e. after any history of reads, copies, conversions, pickling and modifications, given the getter's cache test read from the AST "
              "(infosTest_never by kernel decide, getInfos_own); the object Frame.transform returns is separate from its argument (transformObj_separate); copy.deepcopy writes no old cell and stores only new "
              "addresses (stdDeepcopy_separate); StateVector->Orbit->StateVector gives back the coordinates, form, frame and every immutable _data entry; name/alias/index resolution decided over the tables "
              "regenerated from beyond.orbits.forms on every run. The model agrees exactly (object-identity partition incl. memory owners of all buffers and cloned Frame objects, labels, error kinds, bit-identical buffers) with the "
              "real classes on random operation sequences. Frame registry (Model/PickleReg.lean: frames.dynamic as key -> frame, the key a constructor registers under — the name, or 'Hill' for every HillFrame —, overriding and dropping of entries; "
              "initial registry regenerated from the live package): the frame of an unpickled state is the frame the state was expressed in for EVERY sequence of registry events before the dump and between dump and load "
              "(pickle_frame_any_registry_history; on the command machine the correspondence drives: St.load_after_history), with the exact condition under which a name-only pickle would do the same (byName_roundtrip_iff) and its failure "
              "on the regenerated initial registry (Hill, kernel decide), after a name is registered again and after it is dropped.")
LEVEL_NOTE = ("shared maneuver objects (kept on purpose by the library) are the open finding; the maneuver objects are the one exception in the separation theorems; that the "
              "content of copied containers equals the original's, and the pickle round trip as an isomorphism, are compared exactly by the correspondence but not proved; the history theorems cover in-place operations on the new object and, "
              "the other way round, on the original (setCov / Cov-from-Cov / copies of copies inside a history are compared by the correspondence and judged by the history oracle only); that the result of copy.deepcopy reaches no OLD maneuver object is proved "
              "up to the intermediate maneuver lists of copy() (stdDeepcopy_separate) and kernel-checked on a witness heap (deepcopy_shares_nothing), not for every heap; heap model hand-written, tied by the correspondence run; Lean kernel + propext/Classical.choice/Quot.sound")
TECHNIQUE = "Lean 4 proof over an object-graph (heap) model + kernel decide on regenerated name/alias tables; exact model/implementation correspondence"
TRUSTED = [
    "harness/props/C15.py form_setter_steps: the order of the effects (convert / store / commit) of StateVector.form.fset read from the AST of statevector.py -> Generated/HeapTables.lean formSetterSteps (an unrecognised statement stops the run as a broken extraction)",
    "harness/props/C15.py lazy_getters: census of the property getters of StateVector / Orbit that store into _data on read access (must be exactly cov, maneuvers, infos) and the cache test of the infos getter, read from the AST -> Generated/HeapTables.lean infosCacheTest",
    "harness/props/C15.py extract: Form.param_names, Form.alt, forms._cache, _cache_param_names, the frame registry and the property names of the classes, read from live objects (cross-checked against the Form(...) literals in forms.py) -> Generated/FormTables.lean",
    "correspondence: real StateVector/Orbit/Cov objects vs the compiled Lean model on identical operation sequences; after every operation the whole object graph reachable from all variables is compared: "
    "partition of mutable objects by id() and of every ndarray buffer (state vectors, covariances, metadata arrays) by the object that owns its memory, identity of cloned Frame objects, kinds, keys, labels, error kind, and every "
    "coordinate buffer bit for bit against the pure evaluation (Form.__call__, Frame.transform on fresh objects) of the model's symbolic value; a library call that raises or does not return (1 s SIGALRM watchdog) is the outcome of that operation",
    "correspondence `freg`: random sequences of frame constructions (every kind: built-in, alias key, Hill QSW/TNW, Frame(...) on Earth or an own centre, orbit2frame with and without local orientation, create_station incl. equatorial; two user names, "
    "so names are taken over repeatedly), registry drops, pickle.dumps / loads of a state vector in any frame built so far and get_frame look-ups, on the real registry vs PickleReg.St.step; the model is told the description (class, name, orientation, centre) of what was built",
    "CPython object identity (id / is), ndarray.base chains, pickle / copy.deepcopy memo semantics, numpy buffer semantics",
    "the environment failures of Frame.transform are produced by the harness: a Frame registered for the duration of one assignment whose centre has no link (ValueError from Node.path), and beyond.config eop.missing_policy='error' with target EME2000 (EopError)",
]
ASSUMPTIONS = [
    "the heap model Model/Heap.lean is hand-written; it is tied to statevector.py / orbit.py / cov.py by the exact correspondence run only",
    "the separation theorems assume a well-formed heap (WfM: no dangling address; every `maneuvers` entry is a list of maneuver objects); shown satisfiable (example_heap_wf), true of every state the harness builds, not proved preserved by the operations",
    "coordinate values are symbolic in the model (initial vector + sequence of conversions/assignments); that a form conversion does not move the physical state (phys erases it) is property C01, not proved here",
    "a Cov's `_data` / `__dict__` are kept inside its cell (Cov.__new__ creates them afresh); the correspondence asserts on every dump that no two objects share them. Its 6x6 buffer IS a cell",
    "dict key order is not modelled (both dumps sort keys); `cov: None` (an immutable value left by the getter on first read) is treated as absent",
    "Date and Form objects are treated as immutable values identified by name; Frame objects by name and identity (pickle / deepcopy clone them, the setters compare them with `is`-semantics)",
    "copy.deepcopy of a metadata container holding a StateVector / Cov is modelled like a pickle of it (not generated by the harness)",
    "Model/PickleReg.lean describes a Frame object by class, name, orientation name and centre name (its identity is the heap model's business; geometry of a station / the reference orbit of a local frame is compared by the oracle, not modelled); "
    "a process that never registered a name is modelled as the name being dropped from the registry",
    "which rotations raise under the EOP 'error' policy depends on what the Date object has cached; the model takes 'the transformation raises e' as an input (setFrameBasic env) and the harness asks for it where it does on the current code: every rotation but PEF <-> ITRF (setfrx eop / eopc); the oracle tries a list of routes (STALE_ROUTES) and reports in which step the error arose",
]
NOT_COVERED = [
    "maneuver objects stay shared between a copy and its original (open findings C15-*-man-object, kept on purpose by the library): the clause 'changing maneuvers of one never shows in the other' holds for the maneuver list, not for the objects in it",
    "copy.copy(sv) / np.copy(sv): ndarray's own protocol, shallow in _data by contract (copy.deepcopy is StateVector.__deepcopy__ since /repo fd4f2bf: modelled as stdDeepcopy, compared by the correspondence, judged by the oracle)",
    "numpy views (sv[:], sv.view()) share the buffer with their parent by numpy's own semantics and are outside the model; setting the form of such a view rewrites the parent's values but not its form label (observed, not filed: a view is not a copy)",
    "after a pickle round trip the Frame objects are clones, so `p.frame = <same name>` runs a (numerically identity) transformation through cartesian instead of doing nothing: modelled and compared, not judged",
    "the Infos helper is a WEAK reference of the model (Ref.infos owner gen: compared by identity and owner in every dump, not followed by refsOf): the separation theorems do not speak about it; what the getter hands out has its own "
    "theorem (getInfos_own), and since /repo a12f060 copy() does not hand it over: copy_drops_infos / asOrbit_drops_infos / asSV_drops_infos for every heap; for copy(form=), copy(frame=), Frame.transform and copy.deepcopy "
    "kernel-checked on the witness heap (copy_hands_over_infos_entry) and compared by the correspondence; that no cell at ANY depth of a copy holds a helper bound to an old object needs 'helpers occur only under the key infos' as a further well-formedness clause (not stated); the caches inside an Infos object (_kep, _sphe) are C01 / C08",
    "a form change that fails for another reason than an unknown name (an exception inside Form.__call__): no input of the generators reaches one",
    "Cov frame conversions to/from the Hill frame beyond the error kind; numerical content of covariance rotations (C14); the stale _orb_frame of a Cov re-attached to a state in another frame (C14)",
    "Orbit.propagate / Infos caches (C08, C01)",
    "two user frames / stations of the SAME name both alive and both used in transformations (the conversion graphs route by name: C20); the pickle x registry oracle re-registers a name with a plain Earth-centred frame of another orientation; "
    "built-in names (EME2000, ITRF, ...) are not taken over or dropped (the library itself looks them up by name)",
    "objects returned by Orbit.propagate / iter / ephem and by Ephem.interpolate / propagate / iter / ephem / copy, and Tle.orbit(): judged by the oracle (identity partition with receiver and stored orbits + every in-place mutation, both "
    "directions), not in the heap model (the propagator would need a state of its own); Ephem.__getitem__ / __iter__ hand out the stored objects themselves (container access, not a conversion)",
    "the object Frame.transform returns keeps the OLD Frame under `frame` and carries the new one under the extra key `_frame` (only its values are used by the setters): modelled and compared as it is, not judged",
]
OPEN = [
    "content equality of copies: that a copied / unpickled container holds the same values as the original (an isomorphism of object graphs) is compared exactly by the correspondence, proved only for immutable entries (as_orbit_as_statevector_id) and values (copy_separate_depth1, attachCov_result)",
    "copy.deepcopy: stdDeepcopy_separate leaves maneuver objects as the possible exception (the lists copy() made on the way, which the result no longer refers to, still hold the old objects); that no old maneuver object is REACHABLE "
    "from the result needs 'an address returned by a copy step is referred to by nothing else' (freshness / no dangling address in intermediate heaps = WfM preservation), kernel-checked on the witness heap only",
    "WfM is not proved to be preserved by the operations (it is a hypothesis of copy_separate / asOrbit_separate / asSV_separate); hence histories that copy a copy, or attach a covariance to the copy (setCov / covFrom run copy() inside), are outside copy_then_mutations_invisible",
    "both directions of the history theorem (copy_then_mutations_invisible, original_mutations_invisible) cover the eleven in-place operations of `Mut`; operations that copy inside (cov= from values or from another covariance, copies of copies) within a history are compared by the correspondence and judged by the history oracle only",
    "copyFrame_receiver_unchanged now carries the hypothesis WfM h (the covariance that follows the frame change writes its buffer cell, which is new because the copy is separated)",
]
RULE = ("correspondence: (a) exhaustive name resolution: every form x every reserved name, alias and two free keys; (b) random sequences of 1-2 constructions (form, frame incl. Hill, Orbit or StateVector, metadata absent / non-empty and nested / "
        "EMPTY containers / empty containers inside non-empty ones, maneuvers, covariance in own/local/other frame) followed by 1-6 operations drawn (weights OP_WEIGHTS) from copy, copy(form), copy(frame), as_orbit, as_statevector, the constructors given "
        "an existing object, form=, form= with leg k of its route made to raise (fault injection, k over the whole route), Frame.transform called directly, frame= (incl. unknown names, Hill, aliases), frame= made to fail by an unreachable centre or by the EOP 'error' policy, setattr/setitem by name/alias/foreign name/free key, index assignment, cov.frame=, a mere read of "
        "maneuvers, a read of infos (the helper appears in the dump by identity and with the object it is bound to), maneuvers.append, append / setitem on metadata containers (also nested, also on keys that are missing or of the wrong type), cov= from values and from the covariance of another object, pickle round trip, copy.deepcopy; targets are "
        "drawn among ALL objects alive (copies of copies); a case is non-trivial when it has >= 2 operations; distinct = distinct request line; cases whose buffers hold non-finite numbers are skipped and counted. oracle: for every converting method "
        "(incl. pickle, copy(same=)) x every in-place mutation (every container reachable from _data, in-place arithmetic, the maneuver list through its getter) x both directions, deep snapshot of the other object, plus the identity partition of the two "
        "object graphs; every constructor form of Cov / StateVector / Orbit; every failing setter (unknown name, Hill both ways, unreachable centre, EOP error; on the state and on its covariance) from every form; failing form changes (frame whose centre has no body from spherical/cylindrical/cartesian to every keplerian-family form; hyperbolic, circular-equatorial and rectilinear states under np.errstate(all=raise) from 4 forms to every form; "
        "every leg of routes between the ten forms made to raise, through the setter and through copy(form=)); every public method returning a state object (Frame.transform, Form.__call__, Orbit.propagate/iter/ephem, Ephem.interpolate/propagate/iter/ephem/copy, "
        "Tle.orbit) by identity partition and mutate-one-observe-other; getter-created helpers: infos read on the original, then every converting method (copy variants, as_orbit, as_statevector, pickle, deepcopy, Frame.transform), "
        "then one side modified, then `new.infos.orb is new` and nine infos quantities of the new object against those of a fresh object with the same values; in the history oracle `obj.infos.orb is obj` for every object after every step; the same operation sequences as the "
        "correspondence judged step by step by the statement (history oracle); name/alias/index on every form; pickle and StateVector<->Orbit round trips; pickle x frames (check_pickle_frames): every kind of frame a state can be expressed in "
        "(FRAME_KINDS: built-in, alias key WGS84, Hill QSW / TNW, user frame on Earth / on an own centre, orbit2frame plain / QSW / TNW, station / equatorial station) x registry event before the dump and between dump and load (none / name registered again for another frame / name "
        "dropped) x holder (the state itself, Cov.orb, Ephem, the propagator's orbit, a metadata container) x via (pickle, copy.deepcopy): loads must not raise, frame description (class, name, orientation incl. station geometry, centre), values, metadata equal, and both "
        "states expressed in EME2000 equal (rtol 1e-12); (c) correspondence `freg`: 3-9 commands drawn from build (11 kinds x 2 names), drop, dump, load, get_frame on the real registry vs PickleReg.St.step")

FRAMES = ["EME2000", "MOD", "TOD", "TEME", "PEF", "ITRF"]
FORMS = ["cartesian", "keplerian", "spherical", "keplerian_mean", "keplerian_eccentric", "keplerian_circular",
         "keplerian_mean_circular", "equinoctial", "cylindrical", "tle"]


# ---------------------------------------------------------------- watchdog

class Hang(Exception):
    """a call into the library did not return within the time limit (e.g. the unbounded Newton loop of Form.M2E run on
    values that are not what the form label says): recorded as the outcome of that one case, never an abort of the run"""


class guard:
    """SIGALRM watchdog around calls into the library (main thread)"""

    def __init__(self, seconds=1.0):
        self.seconds = seconds

    def __enter__(self):
        import signal

        def handler(signum, frame):
            raise Hang(f"no return within {self.seconds} s")
        self.old = signal.signal(signal.SIGALRM, handler)
        signal.setitimer(signal.ITIMER_REAL, self.seconds)
        return self

    def __exit__(self, *a):
        import signal
        signal.setitimer(signal.ITIMER_REAL, 0)
        signal.signal(signal.SIGALRM, self.old)
        return False


def attempt(f, seconds=1.0):
    """('ok', value) | ('raised', exception) | ('hang', exception): whatever the library does inside one case is that case's outcome"""
    try:
        with guard(seconds):
            return "ok", f()
    except Hang as e:
        return "hang", e
    except Exception as e:
        return "raised", e


# ---------------------------------------------------------------- real objects

def rand_coord(rng):
    """a generic elliptic orbit (keplerian elements away from every singular configuration)"""
    a = rng.uniform(6.8e6, 4.2e7)
    e = rng.uniform(0.02, 0.6)
    i = rng.uniform(0.15, 2.9)
    return [a, e, i, rng.uniform(0.1, 6.1), rng.uniform(0.1, 6.1), rng.uniform(0.1, 6.1)]


META_VARIANTS = [0, 1, 2, 3, 4]


def make_meta(variant):
    """free metadata given to the constructor: 0 none; 1 non-empty and nested containers; 2 empty containers; 3 empty containers inside
    non-empty ones; 4 (oracle only) sets, tuples holding a list, empty tuple"""
    import numpy as np
    variant = 1 if variant is True else (0 if not variant else int(variant))
    if variant == 1:
        return {"name": "sat", "tags": ["a", "b"], "nested": {"k": [1, 2], "s": "x"}, "arr": np.arange(3.0)}
    if variant == 2:
        return {"name": "sat", "tags": [], "nested": {}}
    if variant == 3:
        return {"tags": [], "nested": {"k": [], "s": "x"}, "arr": np.arange(3.0)}
    if variant == 4:
        return {"tags": [], "nested": {}, "es": set(), "tup": ([], "a"), "et": (), "full": {1, 2}}
    return {}


def make_state(rng, spec):
    """spec: dict(kep, form, frame, orbit, cov, covframe, mans, meta, lazy) -> real StateVector / Orbit.
    lazy: the maneuver list and the covariance have been *looked at* (the getters create `maneuvers: []` / `cov: None` on first read)"""
    import numpy as np
    from beyond.dates import Date, timedelta
    from beyond.orbits import StateVector
    from beyond.orbits.cov import Cov
    from beyond.orbits.man import ImpulsiveMan
    from beyond.propagators.kepler import Kepler
    date = Date(2020, 3, 1, 12, 0, 0) + timedelta(seconds=spec.get("dt", 0))
    meta = make_meta(spec.get("meta"))
    sv = StateVector(spec["kep"], date, "keplerian", "Hill" if spec["frame"] == "Hill" else "EME2000", **meta)
    if spec["form"] != "keplerian":
        sv.form = spec["form"]
    if spec["frame"] not in ("EME2000", "Hill"):
        sv.frame = spec["frame"]
        sv._data.pop("cov", None)
    if spec.get("orbit"):
        sv = sv.as_orbit(Kepler())
    if spec.get("mans"):
        sv.maneuvers = [ImpulsiveMan(date + timedelta(seconds=600 * (k + 1)), [0.1 * (k + 1), 0.0, -0.2], frame=("TNW" if k % 2 else None), comment=f"m{k}")
                        for k in range(spec["mans"])]
    if spec.get("cov"):
        vals = np.diag([1.0e4, 2.0e4, 3.0e4, 1.0e-2, 2.0e-2, 3.0e-2])
        vals[0, 1] = vals[1, 0] = 12.5
        sv.cov = Cov(sv, vals, sv.frame)
        if spec.get("covframe"):
            sv.cov.frame = spec["covframe"]
    if spec.get("lazy"):
        bool(sv.maneuvers)        # what repr(), `if orb.maneuvers:` and the numerical propagators do
        sv.cov is None
    return sv


def finite_state(sv):
    import numpy as np
    cov = sv._data.get("cov")
    return bool(np.all(np.isfinite(np.asarray(sv))) and (cov is None or np.all(np.isfinite(np.asarray(cov)))))


def rand_spec(rng, **force):
    """a random object description whose state is finite (elements of a state that is hyperbolic relative to a rotating
    frame are NaN in the tle / mean forms; every later operation on such an object is garbage in, garbage out)"""
    for _ in range(50):
        spec = _rand_spec(rng, **force)
        try:
            if finite_state(make_state(rng, spec)):
                return spec
        except Exception:
            pass
    return _rand_spec(rng, **dict(force, form="cartesian", frame="EME2000"))


def _rand_spec(rng, **force):
    spec = {"kep": rand_coord(rng), "form": rng.choice(FORMS), "frame": rng.choice(FRAMES), "orbit": rng.random() < 0.4,
            "cov": rng.random() < 0.5, "covframe": rng.choice([None, None, "TNW", "QSW"]), "mans": rng.choice([0, 0, 1, 2]),
            "meta": rng.choice([0, 1, 1, 2, 3, 4]), "lazy": rng.random() < 0.4, "dt": rng.randrange(0, 86400)}
    spec.update(force)
    return spec


def snap(x):
    """deep, identity-free description of everything observable through an object (values exact)"""
    import numpy as np
    from beyond.orbits import StateVector
    from beyond.orbits.cov import Cov
    from beyond.orbits.man import Man
    from beyond.dates import Date
    from beyond.propagators.base import Propagator
    if isinstance(x, StateVector):
        d = x._data
        # `cov: None` is what the getter leaves on first read (None is immutable: nothing to share); an EMPTY maneuver list
        # created the same way is a mutable object and is part of the snapshot
        rest = {k: snap(v) for k, v in d.items() if k not in ("form", "frame", "infos") and not (k == "cov" and v is None)}
        return (type(x).__name__, d["form"].name, d["frame"].name, tuple(float(v).hex() for v in np.asarray(x)), tuple(sorted(rest.items())))
    if isinstance(x, Cov):
        dd = x.__dict__.get("_data")
        if dd is None:
            return ("Cov", "<no _data>", np.asarray(x).tobytes().hex())
        fr = dd.get("frame")
        orb = dd.get("orb")
        return ("Cov", getattr(fr, "name", fr), np.asarray(x).tobytes().hex(), getattr(x.__dict__.get("_orb_frame"), "name", None),
                snap(orb) if orb is not None else None)
    if isinstance(x, Man):
        return ("Man", type(x).__name__, tuple(sorted((k, snap(v)) for k, v in x.__dict__.items())))
    if isinstance(x, Date):
        return ("Date", x.scale.name, x._d, x._s)
    if isinstance(x, Propagator):
        return ("Prop", type(x).__name__)
    if isinstance(x, np.ndarray):
        return ("arr", x.shape, x.tobytes().hex())
    if isinstance(x, dict):
        return ("dict", tuple(sorted((str(k), snap(v)) for k, v in x.items())))
    if isinstance(x, (list, tuple)):
        return (type(x).__name__, tuple(snap(v) for v in x))
    if isinstance(x, (set, frozenset)):
        return (type(x).__name__, tuple(sorted(map(repr, x))))
    return repr(x)


def snap_meta(x):
    """snapshot without type name and without the propagator (StateVector <-> Orbit comparisons)"""
    s = snap(x)
    return s[1:4] + (tuple(kv for kv in s[4] if kv[0] != "propagator"),)


def cart_state(sv):
    """physical state: cartesian coordinates computed from the raw values without touching the object"""
    import numpy as np
    from beyond.orbits import StateVector
    tmp = StateVector([float(v) for v in np.asarray(sv)], sv._data["date"], sv._data["form"], sv._data["frame"])
    return np.array(tmp._data["form"](tmp, "cartesian"), dtype=float)


def same_physical(c0, c1, rtol=1e-9):
    import numpy as np
    r = max(np.linalg.norm(c0[:3]), 1.0)
    v = max(np.linalg.norm(c0[3:]), 1e-3)
    return bool(np.all(np.abs(c0[:3] - c1[:3]) <= rtol * r) and np.all(np.abs(c0[3:] - c1[3:]) <= rtol * v))


def snap_full(x):
    """snap + the attributes a propagator may have been given"""
    s = snap(x)
    p = x._data.get("propagator")
    return (s, tuple(sorted(k for k in getattr(p, "__dict__", {}) if k == "marker")))


def snap_diff(s0, s1):
    """which part of a snap_full differs: 'type' | 'form' | 'frame' | 'values' | <_data key> | 'propagator-attr' | None"""
    if s0 == s1:
        return None
    a, b = s0[0], s1[0]
    for i, nm in ((0, "type"), (1, "form"), (2, "frame"), (3, "values")):
        if a[i] != b[i]:
            return nm
    da, db = dict(a[4]), dict(b[4])
    for k in sorted(set(da) | set(db)):
        if da.get(k) != db.get(k):
            return k
    return "propagator-attr"


FIELD_OF_KEY = {"maneuvers": "man-list", "cov": "cov", "propagator": "propagator", "date": "date"}


def field_of(key, depth=0):
    """the vocabulary of the failure families: which clause of the statement a `_data` entry belongs to"""
    return FIELD_OF_KEY.get(key, "meta-container" if depth == 0 else "nested-meta")


# ---------------------------------------------------------------- object graph: identity partition of the mutable cells

def cells(root):
    """every mutable object reachable from `root` through what the library stores: {key: (field, path, obj)};
    key = ('obj', id) for Python objects, ('mem', id of the owner of the memory) for ndarray buffers (a view, or an array built on the
    buffer of another one, has another id but the same memory)"""
    import numpy as np
    from beyond.orbits import StateVector
    from beyond.orbits.cov import Cov
    from beyond.orbits.man import Man
    from beyond.orbits.forms import Form
    from beyond.frames.frames import Frame
    from beyond.dates import Date
    found = {}

    def mem(arr, field, path):
        owner = arr
        while isinstance(owner.base, np.ndarray):
            owner = owner.base
        found.setdefault(("mem", id(owner) if owner.base is None else id(owner.base)), (field, path, arr))

    def walk(x, field, path, depth):
        if x is None or isinstance(x, (str, bytes, int, float, complex, bool, Date, Form, Frame, frozenset, type)):
            return
        if isinstance(x, tuple):            # immutable itself; what it holds may not be
            for i, y in enumerate(x):
                walk(y, field, f"{path}[{i}]", depth)
            return
        key = ("obj", id(x))
        if key in found:
            return
        found[key] = (field, path, x)
        if isinstance(x, StateVector):
            top = depth == 0 and field == "object"
            mem(x, "coord" if top else field, path + "[buffer]")
            found.setdefault(("obj", id(x._data)), ("data-dict" if top else field, path + "._data", x._data))
            for k, v in x._data.items():
                if k == "infos":        # cache object (C01 / C08), re-created by the getter on every access
                    continue
                walk(v, field_of(k) if top else field, f"{path}.{k}", depth + 1 if not top else 0)
        elif isinstance(x, Cov):
            mem(x, "cov", path + "[buffer]")
            found.setdefault(("obj", id(x.__dict__)), ("cov", path + ".__dict__", x.__dict__))
            for k, v in x.__dict__.items():
                walk(v, "cov", f"{path}.{k}", depth + 1)
        elif isinstance(x, np.ndarray):
            mem(x, field, path + "[buffer]")
        elif isinstance(x, (list, set)):
            sub = "man-object" if field == "man-list" else ("nested-meta" if field == "meta-container" else field)
            for i, y in enumerate(x if isinstance(x, list) else ()):
                walk(y, sub, f"{path}[{i}]", depth + 1)
        elif isinstance(x, dict):
            sub = "nested-meta" if field == "meta-container" else field
            for k, y in x.items():
                walk(y, sub, f"{path}[{k!r}]", depth + 1)
        elif hasattr(x, "__dict__"):      # maneuver objects, propagators, anything else a user hangs on the state
            sub = "man-object" if isinstance(x, Man) else field
            found[key] = (sub, path, x)
            for k, y in vars(x).items():
                walk(y, sub, f"{path}.{k}", depth + 1)

    walk(root, "object", type(root).__name__, 0)
    return found


def shared_cells(a, b):
    """the mutable cells reachable from both objects: [(field, path in a, path in b, object)] (plus overlapping array memory of different owners)"""
    import numpy as np
    ca, cb = cells(a), cells(b)
    res = [(ca[k][0], ca[k][1], cb[k][1], ca[k][2]) for k in ca if k in cb]
    arrs_a = [(k, v) for k, v in ca.items() if k[0] == "mem"]
    arrs_b = [(k, v) for k, v in cb.items() if k[0] == "mem"]
    for ka, va in arrs_a:
        for kb, vb in arrs_b:
            if ka != kb and np.may_share_memory(np.asarray(va[2]), np.asarray(vb[2])):
                res.append((va[0], va[1], vb[1], va[2]))
    return res


def poke(obj):
    """change a container in place (what a user holding one of the two objects can do); True when something was changed"""
    import numpy as np
    if isinstance(obj, list):
        obj.append("__poke__")
    elif isinstance(obj, dict):
        obj["__poke__"] = 1
    elif isinstance(obj, set):
        obj.add("__poke__")
    elif isinstance(obj, np.ndarray) and obj.size:
        flat = np.asarray(obj).reshape(-1)
        flat[0] = flat[0] + 1.0 if np.isfinite(flat[0]) else 1.0
    else:
        return False
    return True


def report_shared(out, sh, kind, name, inp, a, b, skip=()):
    """one failure per field for cells found in both graphs; the in-place change through `a` is shown in `b` where the cell is a container"""
    done = set()
    for field, pa, pb, obj in sh:
        if field in done or field in skip:
            continue
        done.add(field)
        ref = snap_full(b)
        shows = None
        if poke(obj):
            shows = snap_full(b) != ref
        out.fail(f"shared-{field}-after-{kind}",
                 f"after {name}, {pa} of one object and {pb} of the other are the same mutable object"
                 + ("" if shows is None else (": a change made in place through one shows in the other" if shows else " (an in-place change is not visible through the snapshot)")),
                 inp, observed=f"{type(obj).__name__} at {pa} is {pb}", expected="no mutable object reachable from both")


# ---------------------------------------------------------------- oracle: separation

def conv_ops(rng, sv):
    """the methods that return a new object, as (name, kind, thunk)"""
    from beyond.propagators.kepler import Kepler
    from beyond.orbits import Orbit
    cur_form, cur_frame = sv._data["form"].name, sv._data["frame"].name
    f = rng.choice([x for x in FORMS if x != cur_form])
    fr = rng.choice([x for x in FRAMES if x != cur_frame])
    ops = [("copy()", "copy", lambda: sv.copy()),
           (f"copy(form={f})", "copy", lambda: sv.copy(form=f)),
           (f"copy(frame={fr})", "copy", lambda: sv.copy(frame=fr)),
           (f"copy(form={f},frame={fr})", "copy", lambda: sv.copy(form=f, frame=fr)),
           ("copy(same=self)", "copy", lambda: sv.copy(same=sv)),
           ("as_orbit", "as_orbit", lambda: sv.as_orbit(Kepler())),
           ("pickle", "pickle", lambda: pickle.loads(pickle.dumps(sv)))]
    if isinstance(sv, Orbit):
        ops.append(("as_statevector", "as_statevector", lambda: sv.as_statevector()))
    return ops


def container_muts(d):
    """an in-place change of every container reachable from the free metadata entries of `_data` (empty ones included)"""
    import numpy as np
    from beyond.orbits import StateVector
    from beyond.orbits.cov import Cov
    acc = []

    def rec(v, depth):
        field = "meta-container" if depth == 0 else "nested-meta"
        if isinstance(v, (StateVector, Cov)):
            return
        if isinstance(v, list):
            acc.append((field, lambda v=v: v.append("z")))
            for y in list(v):
                rec(y, depth + 1)
        elif isinstance(v, dict):
            acc.append((field, lambda v=v: v.__setitem__("new", 1)))
            for y in list(v.values()):
                rec(y, depth + 1)
        elif isinstance(v, set):
            acc.append((field, lambda v=v: v.add("z")))
        elif isinstance(v, np.ndarray):
            if v.size:
                acc.append((field, lambda v=v: v.reshape(-1).__setitem__(0, 99.0)))
        elif isinstance(v, tuple):
            for y in v:
                rec(y, depth + 1)
    for k in sorted(d):
        if k not in ("date", "form", "frame", "cov", "maneuvers", "propagator", "infos"):
            rec(d[k], 0)
    return acc


def mutations(rng, obj):
    """every way of changing `obj` in place, as (field family, thunk); only those applicable to obj"""
    import numpy as np
    from beyond.dates import timedelta
    from beyond.orbits.man import ImpulsiveMan
    from beyond.orbits.cov import Cov
    d = obj._data
    muts = []
    muts.append(("coord-index", lambda: obj.__setitem__(rng.randrange(6), 1.2345)))
    nm = rng.choice(d["form"].param_names)
    if not (d["form"].name == "cylindrical" and nm.startswith("theta")):
        muts.append(("coord-name", lambda: setattr(obj, nm, 0.4321)))
    muts.append(("coord-slice", lambda: obj.__setitem__(slice(None), np.arange(6.0) + 1)))
    muts.append(("coord-inplace", lambda: obj.__imul__(2.0)))           # in-place arithmetic
    muts.append(("form", lambda: setattr(obj, "form", "cartesian" if d["form"].name != "cartesian" else "keplerian")))
    muts.append(("frame", lambda: setattr(obj, "frame", "ITRF" if d["frame"].name != "ITRF" else "EME2000")))
    muts.append(("date", lambda: setattr(obj, "date", d["date"] + timedelta(seconds=7))))
    muts.append(("meta-rebind", lambda: setattr(obj, "name", "other")))
    muts.append(("meta-new-key", lambda: setattr(obj, "extra", [1])))
    muts.extend(container_muts(d))
    # the maneuver list through the public getter (which creates it when the state never had one)
    muts.append(("man-list", lambda: obj.maneuvers.append(ImpulsiveMan(d["date"], [1, 1, 1]))))
    muts.append(("man-rebind", lambda: setattr(obj, "maneuvers", [])))
    if isinstance(d.get("maneuvers"), list) and d["maneuvers"]:
        muts.append(("man-list", lambda: obj.maneuvers.pop()))
        muts.append(("man-object", lambda: d["maneuvers"][0]._dv.__setitem__(0, 55.0)))
        muts.append(("man-object", lambda: setattr(d["maneuvers"][0], "date", d["date"] + timedelta(seconds=1))))
    if isinstance(d.get("cov"), Cov):
        muts.append(("cov", lambda: d["cov"].__setitem__((0, 0), 7.0e4)))
        muts.append(("cov", lambda: d["cov"].__imul__(2.0)))
        muts.append(("cov", lambda: setattr(d["cov"], "frame", "QSW" if d["cov"]._data["frame"] != "QSW" else "TNW")))
        muts.append(("cov", lambda: setattr(d["cov"], "frame", "ITRF" if d["frame"].name != "ITRF" else "EME2000")))
        muts.append(("cov-rebind", lambda: obj.__class__.cov.fdel(obj)))
    muts.append(("cov-rebind", lambda: setattr(obj, "cov", Cov(obj, np.identity(6), d["frame"]))))
    if "propagator" in d and d["propagator"] is not None:
        muts.append(("propagator", lambda: setattr(d["propagator"], "marker", 1)))
    return muts


def check_separation(out, rng, spec):
    """O1/O2: a converting method leaves the receiver unchanged; the new object and the receiver have no mutable cell in common
    (identity partition of the two object graphs); afterwards no in-place change of one object shows in the other"""
    probe = make_state(rng, spec)
    n_ops = len(conv_ops(rng, probe))
    for oi in range(n_ops):
        st0 = rng.getstate()
        base = make_state(rng, spec)
        n_muts = len(mutations(rng, base))
        name, kind, op = conv_ops(rng, base)[oi]
        before = snap_full(base)
        how, new = attempt(op)
        rng.setstate(st0)
        inp0 = {"spec": spec, "op": name, "op_index": oi}
        if how != "ok":   # a converting method must work on a valid object
            out.fail(f"convert-raises-{kind}", f"{name} {'does not return' if how == 'hang' else 'raised'} {type(new).__name__}: {new}", inp0, observed=repr(new))
            continue
        out.count(key=("identity", oi, spec["form"], spec["frame"], spec["orbit"], spec["cov"], spec["mans"], spec.get("meta"), spec.get("lazy")), kind="separation-identity", op=kind)
        if snap_full(base) != before:
            out.fail(f"receiver-changed-{kind}", f"{name} changed its receiver ({snap_diff(before, snap_full(base))})", inp0,
                     observed=str(snap_full(base))[:300], expected=str(before)[:300])
            continue
        report_shared(out, shared_cells(base, new), kind, name, inp0, base, new)
        n_muts = max(n_muts, len(mutations(rng, new)))
        rng.setstate(st0)
        for mi in range(n_muts):
            for direction in ("copy", "orig"):
                st = rng.getstate()
                sv = make_state(rng, spec)
                name, kind, op = conv_ops(rng, sv)[oi]
                how, new = attempt(op)
                if how != "ok":
                    break
                target, other = (new, sv) if direction == "copy" else (sv, new)
                ms = mutations(rng, target)
                if mi < len(ms):
                    field, mut = ms[mi]
                    ref = snap_full(other)
                    how, err = attempt(mut)
                    if how != "ok":
                        out.tally(f"mutation-raised={field}:{type(err).__name__}")
                    out.count(key=(oi, mi, direction, spec["form"], spec["frame"], spec["orbit"], spec["cov"], spec["mans"], spec.get("meta"), spec.get("lazy")),
                              kind="separation", op=kind, field=field)
                    now = snap_full(other)
                    if now != ref:
                        if field in ("frame", "form") and now[0][:4] == ref[0][:4] and [k for k, _ in set(now[0][4]) ^ set(ref[0][4])] == ["cov", "cov"]:
                            field = "cov"   # the shared covariance followed the frame change of the other object
                        out.fail(f"shared-{field}-after-{kind}",
                                 f"after {name}, changing {field} of the {'new object' if direction == 'copy' else 'receiver'} shows in the other object ({snap_diff(ref, now)})",
                                 {"spec": spec, "op": name, "op_index": oi, "mutation_index": mi, "direction": direction, "rng": None},
                                 observed=str(now)[:400], expected=str(ref)[:400])
                rng.setstate(st)
                rng.random()


# ---------------------------------------------------------------- oracle: constructors

def check_cov_constructors(out, rng, spec):
    """every constructor form of Cov (values as nested list, ndarray, Cov of the same / of another state; frame as name, Frame object,
    local orientation, None) and Cov.copy(): the new covariance has the values it was given and shares no memory / object with its source;
    in-place changes of one (element, in-place arithmetic, frame conversion, frame change of the owning state) never show in the other"""
    import numpy as np
    from beyond.orbits.cov import Cov
    spec_a = dict(spec, cov=True)
    spec_b = dict(spec, cov=False, kep=[spec["kep"][0] * 1.01] + list(spec["kep"][1:]))

    def build(kind):
        """-> (source description for messages, source object to watch, its owner state or None, new Cov, its owner)"""
        a = make_state(rng, spec_a)
        b = make_state(rng, spec_b)
        arr = np.array(a.cov)
        if kind == "list":
            src = arr.tolist()
            return src, None, Cov(b, src, b.frame), b
        if kind == "ndarray":
            return arr, None, Cov(b, arr, b.frame.name), b
        if kind == "ndarray-local":
            return arr, None, Cov(b, arr, "TNW"), b
        if kind == "cov-same-state":
            return a.cov, a, Cov(a, a.cov, None), a
        if kind == "cov-other-state":
            return a.cov, a, Cov(b, a.cov, None), b
        if kind == "cov-frame-given":
            return a.cov, a, Cov(b, a.cov, "ITRF"), b     # the frame of the source wins
        if kind == "cov-copy":
            return a.cov, a, a.cov.copy(), a
        if kind == "cov-copy-frame":
            return a.cov, a, a.cov.copy(frame="QSW" if a.cov.frame != "QSW" else "TNW"), a
        raise ValueError(kind)

    def watch(x, owner):
        if owner is not None:
            return snap_full(owner)
        return np.asarray(x).tobytes() if isinstance(x, np.ndarray) else repr(x)

    def new_muts(c, owner):
        other = "ITRF" if owner._data["frame"].name != "ITRF" else "EME2000"
        return [("element", lambda: c.__setitem__((0, 0), 7.0e4)),
                ("inplace-arithmetic", lambda: c.__imul__(3.0)),
                ("frame-local", lambda: setattr(c, "frame", "TNW" if c.frame != "TNW" else "QSW")),
                ("frame", lambda: setattr(c, "frame", other)),
                ("owner-frame", lambda: (setattr(owner, "cov", c), setattr(c, "frame", owner.frame), setattr(owner, "frame", other)))]

    def src_muts(src, owner):
        if owner is None:
            if isinstance(src, np.ndarray):
                return [("element", lambda: src.__setitem__((0, 0), 7.0e4)), ("inplace-arithmetic", lambda: src.__imul__(3.0))]
            return [("element", lambda: src[0].__setitem__(0, 7.0e4))]
        other = "ITRF" if owner._data["frame"].name != "ITRF" else "EME2000"
        return [("element", lambda: src.__setitem__((0, 0), 7.0e4)),
                ("frame-local", lambda: setattr(src, "frame", "TNW" if src.frame != "TNW" else "QSW")),
                ("owner-frame", lambda: (setattr(src, "frame", owner.frame), setattr(owner, "frame", other)))]

    for kind in ("list", "ndarray", "ndarray-local", "cov-same-state", "cov-other-state", "cov-frame-given", "cov-copy", "cov-copy-frame"):
        fam = f"shared-cov-after-{'cov-copy' if kind.startswith('cov-copy') else 'cov-ctor-' + kind}"
        inp = {"spec": spec, "ctor": kind}
        a0 = make_state(rng, spec_a)
        ref0 = snap_full(a0)
        how, res = attempt(lambda: build(kind))
        out.count(key=("cov-ctor", kind, spec["form"], spec["frame"], spec.get("covframe")), kind="cov-constructor", ctor=kind)
        if how != "ok":
            out.fail(f"convert-raises-cov-{kind}", f"Cov construction ({kind}) raised {type(res).__name__}: {res}", inp, observed=repr(res))
            continue
        src, owner, c, cowner = res
        if owner is not None and snap_full(owner) != ref0:
            out.fail(f"receiver-changed-cov-{kind}", f"building a covariance from an existing one ({kind}) changed the source state ({snap_diff(ref0, snap_full(owner))})", inp)
            continue
        if kind not in ("cov-copy-frame",):
            want = np.asarray(src, dtype=float)
            if np.asarray(c).tobytes() != want.tobytes() or (owner is not None and c.frame != src.frame):
                out.fail(f"cov-ctor-values-{kind}", f"the covariance built ({kind}) does not hold the values / frame it was given", inp,
                         observed=[float(v) for v in np.diag(np.asarray(c))], expected=[float(v) for v in np.diag(want)])
                continue
        # identity / memory
        if isinstance(src, np.ndarray) and np.may_share_memory(np.asarray(c), np.asarray(src)):
            ref = np.asarray(src).tobytes()
            np.asarray(c)[0, 0] += 1.0
            out.fail(fam, f"the covariance built ({kind}) lives in the memory of the values it was built from"
                     + (": writing an element of one changes the other" if np.asarray(src).tobytes() != ref else ""), inp,
                     observed="np.may_share_memory(new, source) is True", expected="no shared memory")
            continue
        if owner is not None:
            sh = [x for x in shared_cells(c, src) if x[0] != "man-object"]
            if sh:
                out.fail(fam, f"the covariance built ({kind}) and its source have the mutable object {sh[0][1]} in common", inp, observed=sh[0][1], expected="no mutable object reachable from both")
                continue
        # behaviour, both directions
        n_new, n_src = len(new_muts(c, cowner)), len(src_muts(src, owner))
        for direction, n in (("new", n_new), ("source", n_src)):
            for mi in range(n):
                how, res = attempt(lambda: build(kind))
                if how != "ok":
                    break
                src, owner, c, cowner = res
                if direction == "new":
                    if cowner is owner and mi == 4:
                        continue    # attaching the new covariance to the state that owns the source replaces the source: nothing to compare
                    field, mut = new_muts(c, cowner)[mi]
                    ref = watch(src, owner)
                    how, err = attempt(mut)
                    now = watch(src, owner)
                else:
                    field, mut = src_muts(src, owner)[mi]
                    ref = snap(c)
                    how, err = attempt(mut)
                    now = snap(c)
                if how != "ok":
                    out.tally(f"mutation-raised=cov-{field}:{type(err).__name__}")
                out.count(key=("cov-ctor", kind, direction, mi, spec["form"], spec["frame"], spec.get("covframe")), kind="cov-constructor-separation", ctor=kind)
                if now != ref:
                    out.fail(fam, f"covariance built ({kind}): changing the {direction} one ({field}) shows in the other", dict(inp, direction=direction, mutation=field),
                             observed=str(now)[:300], expected=str(ref)[:300])


def check_sv_constructors(out, rng, spec):
    """every constructor form of StateVector / Orbit (coordinates as list, tuple, ndarray, StateVector, Orbit; form and frame by name or as
    objects; propagator by name, as object, None): the values are those given, no memory is shared with the coordinates given, and changing
    one afterwards never shows in the other"""
    import numpy as np
    from beyond.orbits import StateVector, Orbit
    from beyond.propagators.kepler import Kepler
    for kind in ("list", "tuple", "ndarray", "ndarray-view", "statevector", "orbit"):
        for cls in ("StateVector", "Orbit"):
            src_sv = make_state(rng, dict(spec, orbit=(kind == "orbit")))
            raw = np.array(src_sv)
            src = {"list": lambda: [float(v) for v in raw], "tuple": lambda: tuple(float(v) for v in raw), "ndarray": lambda: raw,
                   "ndarray-view": lambda: np.concatenate([raw, raw])[3:9], "statevector": lambda: src_sv, "orbit": lambda: src_sv}[kind]()
            by_name = rng.random() < 0.5
            form = src_sv.form.name if by_name else src_sv.form
            frame = src_sv.frame.name if by_name else src_sv.frame
            prop = rng.choice(["Kepler", Kepler(), None])
            inp = {"spec": spec, "ctor": kind, "cls": cls}
            fam = f"shared-coord-after-ctor-{kind}"
            ref_src = snap_full(src) if isinstance(src, StateVector) else repr(list(np.asarray(src, dtype=float)))
            how, new = attempt(lambda: StateVector(src, src_sv.date, form, frame) if cls == "StateVector" else Orbit(src, src_sv.date, form, frame, prop))
            out.count(key=("sv-ctor", kind, cls, spec["form"], spec["frame"], by_name), kind="sv-constructor", ctor=kind)
            if how != "ok":
                out.fail(f"convert-raises-ctor-{kind}", f"{cls}({kind}) raised {type(new).__name__}: {new}", inp, observed=repr(new))
                continue
            want = np.asarray(src, dtype=float)
            if np.asarray(new).tobytes() != want.tobytes() or new.form is not src_sv.form or new.frame is not src_sv.frame:
                out.fail(f"ctor-values-{kind}", f"{cls}({kind}) does not hold the values / form / frame it was given", inp,
                         observed=[float(v) for v in np.asarray(new)], expected=[float(v) for v in want])
                continue
            now_src = snap_full(src) if isinstance(src, StateVector) else repr(list(np.asarray(src, dtype=float)))
            if now_src != ref_src:
                out.fail(f"receiver-changed-ctor-{kind}", f"{cls}({kind}) changed the coordinates it was given", inp)
                continue
            if isinstance(src, np.ndarray) and np.may_share_memory(np.asarray(new), np.asarray(src)):
                out.fail(fam, f"{cls}({kind}) lives in the memory of the coordinates it was built from", inp, observed="np.may_share_memory(new, source) is True")
                continue
            if isinstance(src, StateVector):
                sh = shared_cells(new, src)
                if sh:
                    out.fail(fam, f"{cls}({kind}) and its source have the mutable object {sh[0][1]} in common", inp, observed=sh[0][1])
                    continue
            # behaviour
            ref_new = snap_full(new)
            if isinstance(src, np.ndarray):
                src[0] = 1.0
                src *= 2.0
            elif isinstance(src, list):
                src[0] = 1.0
            if snap_full(new) != ref_new:
                out.fail(fam, f"{cls}({kind}): changing the coordinates given to the constructor afterwards shows in the object", inp)
                continue
            ref_src = snap_full(src) if isinstance(src, StateVector) else repr(list(np.asarray(src, dtype=float)))
            new[1] = 0.5
            new *= 1.5
            new.form = "cartesian" if new.form.name != "cartesian" else "spherical"
            now_src = snap_full(src) if isinstance(src, StateVector) else repr(list(np.asarray(src, dtype=float)))
            if now_src != ref_src:
                out.fail(fam, f"{cls}({kind}): changing the new object shows in the coordinates it was built from", inp)


# ---------------------------------------------------------------- oracle: failing changes

class isolated_frame:
    """a frame whose centre has no link to any other centre: every transformation to it raises inside Frame.transform"""

    def __init__(self, like="EME2000"):
        self.like = like

    def __enter__(self):
        from beyond.frames import frames, center
        self.prev = frames.dynamic.get("Isolated")
        base = frames.get_frame(self.like)
        frames.Frame("Isolated", base.orientation, center.Center("Isolated", body=base.center.body), exists_warning=False)
        return "Isolated"

    def __exit__(self, *a):
        from beyond.frames import frames
        frames.dynamic.pop("Isolated", None)
        if self.prev is not None:
            frames.dynamic["Isolated"] = self.prev
        return False


class eop_error_policy:
    """`eop.missing_policy = error`: a date without Earth-orientation data makes every date-dependent rotation raise"""

    def __enter__(self):
        from beyond.config import config
        self.had = "eop" in config
        self.old = dict(config.get("eop", fallback={}) or {}) if self.had else None
        config.update({"eop": dict(self.old or {}, missing_policy="error")})

    def __exit__(self, *a):
        from beyond.config import config
        if self.had:
            config["eop"] = self.old
        else:
            config.pop("eop", None)
        return False


import contextlib

FAIL_CASES = [("form", "unknown-form", True), ("frame", "unknown-frame", True), ("frame", "to-hill", False), ("frame", "from-hill", False),
              ("frame", "unreachable-centre", False), ("frame", "eop-error", False), ("frame", "eop-error-stale-parent", False),
              ("cov.frame", "cov-unknown-frame", True), ("cov.frame", "cov-to-hill", True),
              ("cov.frame", "cov-eop-error", True)]


# (via, target): under the 'error' policy the state step via -> target needs no new EOP lookup (on the current code: PEF <-> ITRF, EME2000 <-> G50;
# TOD -> MOD did until /repo deb035a, when the nutation stopped being memoised on the text of the date) while the route of a covariance attached
# in another frame does. Which rotations raise is the library's business: every route is tried, the one that raises must leave no trace
STALE_ROUTES = [("TOD", "MOD"), ("PEF", "ITRF"), ("ITRF", "PEF"), ("G50", "EME2000"), ("EME2000", "G50")]


def stale_start(spec, via):
    """the frame the covariance is attached in: the one of the spec unless the state would not have to move to reach `via`"""
    if spec["frame"] not in ("Hill", via):
        return spec["frame"]
    return "MOD" if via != "MOD" else "TEME"


def failing_assignment(sv, tag, target=None):
    """-> (context manager, thunk) of one assignment that has to raise"""
    cur = sv._data["frame"].name
    other = "ITRF" if cur != "ITRF" else "TOD"
    # under the 'error' policy the rotations that read the date's cached EOP values still work (TOD -> MOD, PEF <-> ITRF ...);
    # every path to or from EME2000 needs the time-scale offsets of the date and raises
    eop_target = "EME2000" if cur != "EME2000" else "ITRF"
    if tag == "unknown-form":
        return contextlib.nullcontext(), lambda: setattr(sv, "form", "no_such_form")
    if tag == "unknown-frame":
        return contextlib.nullcontext(), lambda: setattr(sv, "frame", "NoSuchFrame")
    if tag in ("to-hill", "from-hill"):
        return contextlib.nullcontext(), lambda: setattr(sv, "frame", "Hill" if tag == "to-hill" else "EME2000")
    if tag == "unreachable-centre":
        return isolated_frame(other), lambda: setattr(sv, "frame", "Isolated")
    if tag == "eop-error":
        return eop_error_policy(), lambda: setattr(sv, "frame", eop_target)
    if tag == "eop-error-stale-parent":
        # the state (moved to `via` after its covariance was attached) can be taken to `target` without a new Earth-orientation lookup
        # (polar motion reads the values cached on its Date; EME2000 <-> G50 is a constant matrix); its covariance has to go through
        # the frame it was attached in and cannot: the part of the assignment that works must not stay
        return eop_error_policy(), lambda: setattr(sv, "frame", target)
    if tag == "cov-unknown-frame":
        return contextlib.nullcontext(), lambda: setattr(sv.cov, "frame", "NoSuchFrame")
    if tag == "cov-to-hill":
        return contextlib.nullcontext(), lambda: setattr(sv.cov, "frame", "Hill")
    if tag == "cov-eop-error":
        return eop_error_policy(), lambda: setattr(sv.cov, "frame", eop_target)
    raise ValueError(tag)


def check_failed_change(out, rng, spec):
    """O3: a failing form / frame change — unknown name, untransformable (Hill) frame, a frame whose centre cannot be reached, a date without
    Earth-orientation data under the 'error' policy; on the state and on its covariance; from whatever form the state is held in — leaves
    form, frame, metadata, covariance and the physical state as they were, and the object usable"""
    from beyond.frames.frames import get_frame
    cases = []
    for attr, tag, exact in FAIL_CASES:
        if tag == "eop-error-stale-parent":
            cases += [(attr, tag, exact, r) for r in STALE_ROUTES]
        else:
            cases.append((attr, tag, exact, None))
    for attr, tag, exact, route in cases:
        if tag.startswith("cov-") and not spec.get("cov"):
            continue
        if tag == "eop-error-stale-parent":
            if not spec.get("cov") or spec.get("covframe"):
                continue
            sv = make_state(rng, dict(spec, frame=stale_start(spec, route[0])))
            sv.frame = route[0]
        else:
            sv = make_state(rng, spec)
        if tag == "from-hill":
            sv._data["frame"] = get_frame("Hill")
            if sv._data.get("cov") is not None:
                sv._data["cov"]._data["frame"] = sv._data["frame"]
        before = snap_full(sv)
        ids = (id(sv._data["form"]), id(sv._data["frame"]))
        how0, c0 = attempt(lambda: cart_state(sv))
        cm, thunk = failing_assignment(sv, tag, route and route[1])
        with cm:
            how, err = attempt(thunk)
        out.count(key=(tag, route, spec["form"], spec["frame"], spec["cov"], spec["orbit"]), kind="failed-change", case=tag, form=spec["form"])
        inp = {"spec": spec, "case": tag}
        if route:
            inp["route"] = {"cov_attached_in": stale_start(spec, route[0]), "then_state_moved_to": route[0], "failing_assignment_frame": route[1]}
        if how == "ok":
            if tag in ("cov-eop-error", "eop-error-stale-parent"):
                out.tally(f"{tag}-not-needed")     # e.g. local orientation -> frame of the state: no date-dependent rotation involved
                continue
            out.fail(f"no-error-{tag}", f"{attr} assignment ({tag}) did not raise", inp)
            continue
        if how == "hang":
            out.fail(f"failed-change-hangs-{tag}", f"{attr} assignment ({tag}) does not return", inp, observed=repr(err))
            continue
        if route:
            import traceback
            in_cov = any(fs.filename.endswith("cov.py") for fs in traceback.extract_tb(err.__traceback__))
            out.tally("stale-parent-raised-in-covariance-step" if in_cov else "stale-parent-raised-in-state-step")
        after = snap_full(sv)
        if ids != (id(sv._data["form"]), id(sv._data["frame"])):
            out.fail(f"failed-change-label-{tag}", f"after the failed {attr} change form/frame differ from before", inp,
                     observed=(after[0][1], after[0][2]), expected=(before[0][1], before[0][2]))
        elif exact and after != before:
            out.fail(f"failed-change-state-{tag}", f"after the failed {attr} change the object differs from before ({snap_diff(before, after)})", inp,
                     observed=str(after)[:300], expected=str(before)[:300])
        elif not exact:
            if (after[0][4], after[1]) != (before[0][4], before[1]):
                out.fail(f"failed-change-meta-{tag}", f"after the failed {attr} change metadata / covariance differ ({snap_diff(before, after)})", inp,
                         observed=str(after[0][4])[:300], expected=str(before[0][4])[:300])
            elif how0 != "ok" or not all(math.isfinite(float(v)) for v in c0):
                out.tally("failed-change-degenerate-state-skipped")   # e.g. tle/keplerian elements of a state that is hyperbolic relative to a rotating frame: NaN before the call
            else:
                # the elements now held, read under the (unchanged) form label, must denote the state held before; a library call that
                # raises or does not return on them is the outcome of this case
                how1, c1 = attempt(lambda: cart_state(sv))
                if how1 != "ok" or not same_physical(c0, c1):
                    import numpy as np
                    out.fail(f"failed-change-values-{tag}", f"after the failed {attr} change (state held in form {after[0][1]}) the physical state differs"
                             + ("" if how1 == "ok" else f": reading the elements under the form label {'does not return' if how1 == 'hang' else 'raises'}"), inp,
                             observed=[float(v) for v in np.asarray(sv)], expected=[float.fromhex(v) for v in before[0][3]])
    # copy(...) that fails: receiver bit-identical
    for kw, tag in (({"form": "no_such_form"}, "copy-unknown-form"), ({"frame": "NoSuchFrame"}, "copy-unknown-frame"), ({"frame": "Hill"}, "copy-to-hill"),
                    ({"frame": "Isolated"}, "copy-unreachable-centre"), ({"frame": "EME2000" if spec["frame"] != "EME2000" else "ITRF"}, "copy-eop-error")):
        sv = make_state(rng, spec)
        before = snap_full(sv)
        cm = isolated_frame() if tag == "copy-unreachable-centre" else (eop_error_policy() if tag == "copy-eop-error" else contextlib.nullcontext())
        with cm:
            how, err = attempt(lambda: sv.copy(**kw))
        if how == "ok":
            out.fail(f"no-error-{tag}", f"copy({kw}) did not raise", {"spec": spec, "case": tag})
        out.count(key=(tag, spec["form"], spec["frame"], spec["cov"]), kind="failed-change", case=tag, form=spec["form"])
        if snap_full(sv) != before:
            out.fail(f"receiver-changed-{tag}", f"failing copy({kw}) changed its receiver ({snap_diff(before, snap_full(sv))})", {"spec": spec, "case": tag},
                     observed=str(snap_full(sv))[:300], expected=str(before)[:300])


# ---------------------------------------------------------------- oracle: access

def check_access(out, rng, form):
    """O4: name, alias and index address the same slot of the current form; names of other forms are refused"""
    import numpy as np
    from beyond.orbits.forms import Form, _cache_param_names, get_form
    spec = rand_spec(rng, form=form, cov=False, mans=0, orbit=False, meta=False)
    fobj = get_form(form)
    names = list(fobj.param_names)
    aliases = {}
    for al, tgt in Form.alt.items():
        aliases.setdefault(tgt, []).append(al)
    for i, nm in enumerate(names):
        for label in [nm] + aliases.get(nm, []) + [al for al in Form.alt if al == nm]:
            sv = make_state(rng, spec)
            ref = float(np.asarray(sv)[i]).hex()     # hex strings: NaN elements (degenerate states) compare equal to themselves
            out.count(key=(form, label), kind="access", form=form)
            fam = f"access-{form}-{label}"
            try:
                got = [float(getattr(sv, label)).hex(), float(sv[label]).hex(), float(sv[i]).hex()]
            except Exception as e:
                out.fail(fam, f"reading element '{label}' (slot {i}) of a {form} state raises {type(e).__name__}: {e}",
                         {"form": form, "name": label, "slot": i, "spec": spec}, observed=repr(e), expected=ref)
                continue
            if any(g != ref for g in got):
                out.fail(fam, f"'{label}' does not address slot {i} in form {form}", {"form": form, "name": label, "slot": i, "spec": spec}, observed=got, expected=ref)
                continue
            for how in ("attr", "item"):
                sv = make_state(rng, spec)
                old = [float(v).hex() for v in np.asarray(sv)]
                try:
                    if how == "attr":
                        setattr(sv, label, 0.123)
                    else:
                        sv[label] = 0.123
                except Exception as e:
                    out.fail(fam, f"writing element '{label}' of a {form} state raises {type(e).__name__}", {"form": form, "name": label, "slot": i, "spec": spec}, observed=repr(e))
                    continue
                new = [float(v).hex() for v in np.asarray(sv)]
                exp = old[:i] + [(0.123).hex()] + old[i + 1:]
                if new != exp or label in sv._data:
                    out.fail(fam, f"writing '{label}' does not change exactly slot {i} in form {form}", {"form": form, "name": label, "slot": i, "spec": spec}, observed=new, expected=exp)
    # names belonging only to other forms
    foreign = sorted(x for x in _cache_param_names if x not in names and Form.alt.get(x, x) not in names)
    for nm in foreign + [al for al, t in Form.alt.items() if t not in names and al not in names]:
        sv = make_state(rng, spec)
        before = snap_full(sv)
        out.count(key=(form, "foreign", nm), kind="access-foreign", form=form)
        res = []
        for f in (lambda: getattr(sv, nm), lambda: sv[nm], lambda: setattr(sv, nm, 1.0), lambda: sv.__setitem__(nm, 1.0)):
            try:
                f()
                res.append("ok")
            except AttributeError:
                res.append("AttributeError")
            except KeyError:
                res.append("KeyError")
        if res != ["AttributeError", "KeyError", "AttributeError", "KeyError"] or snap_full(sv) != before:
            out.fail(f"foreign-{form}-{nm}", f"name '{nm}' of another form is not refused in form {form}", {"form": form, "name": nm, "spec": spec}, observed=res)


# ---------------------------------------------------------------- oracle: pickle, StateVector <-> Orbit

def check_pickle(out, rng, spec):
    sv = make_state(rng, spec)
    before = snap_full(sv)
    p = pickle.loads(pickle.dumps(sv))
    out.count(key=("pickle", spec["form"], spec["frame"], spec["orbit"], spec["cov"], spec["mans"], spec["meta"]), kind="pickle", cov=bool(spec["cov"]))
    inp = {"spec": spec}
    if snap_full(sv) != before:
        out.fail("receiver-changed-pickle", "pickling changed the object", inp)
    if type(p) is not type(sv):
        out.fail("pickle-type", "unpickled object has another type", inp, observed=type(p).__name__, expected=type(sv).__name__)
        return
    sp, ss = snap(p), snap(sv)
    if sp[:4] != ss[:4]:
        out.fail("pickle-values", "form/frame/values differ after a pickle round trip", inp, observed=sp[:4], expected=ss[:4])
    dp, ds = dict(sp[4]), dict(ss[4])
    for k in sorted(set(dp) | set(ds)):
        if dp.get(k) != ds.get(k):
            out.fail(f"pickle-loses-{'cov' if k == 'cov' else 'metadata'}", f"metadata entry '{k}' differs after a pickle round trip", dict(inp, key=k),
                     observed=str(dp.get(k))[:200], expected=str(ds.get(k))[:200])
    # the unpickled object must be a working state vector: same conversions as the original
    f = "keplerian" if spec["form"] != "keplerian" else "cartesian"
    fr = "ITRF" if spec["frame"] != "ITRF" else "EME2000"
    for nm, g in (("copy", lambda o: o.copy()), ("copy-form", lambda o: o.copy(form=f)), ("copy-frame", lambda o: o.copy(frame=fr)),
                  ("set-form", lambda o: (setattr(o, "form", f), o)[1]), ("set-frame", lambda o: (setattr(o, "frame", fr), o)[1])):
        q = pickle.loads(pickle.dumps(sv))
        if spec["cov"]:   # judged separately (pickle-loses-cov); drop the covariance to look at the state vector itself
            q._data["cov"] = None
            o = make_state(rng, spec)
            o._data["cov"] = None
        else:
            o = make_state(rng, spec)
        exp = snap(g(o))
        try:
            got = snap(g(q))
        except Exception as e:
            out.fail("pickle-unusable", f"{nm} on an unpickled {type(sv).__name__} raises {type(e).__name__}: {e}", dict(inp, op=nm), observed=repr(e))
            continue
        if got != exp:
            out.fail("pickle-diverges", f"{nm} on an unpickled object gives another result than on the original", dict(inp, op=nm), observed=str(got)[:300], expected=str(exp)[:300])


def check_roundtrip_types(out, rng, spec):
    """O6: StateVector -> Orbit -> StateVector and Orbit -> StateVector -> Orbit preserve values and metadata"""
    from beyond.orbits import StateVector, Orbit
    from beyond.propagators.kepler import Kepler
    sv = make_state(rng, spec)
    out.count(key=("types", spec["form"], spec["frame"], spec["orbit"], spec["cov"], spec["mans"], spec["meta"]), kind="sv-orbit-roundtrip")
    o = sv.as_orbit(Kepler())
    back = o.as_statevector()
    inp = {"spec": spec}
    if type(o) is not Orbit or type(back) is not StateVector:
        out.fail("roundtrip-type", "as_orbit / as_statevector return the wrong type", inp, observed=(type(o).__name__, type(back).__name__))
    if snap_meta(o) != snap_meta(sv) or snap_meta(back) != snap_meta(sv):
        out.fail("roundtrip-values", "as_orbit / as_statevector do not preserve values and metadata", inp, observed=str(snap_meta(back))[:300], expected=str(snap_meta(sv))[:300])
    if "propagator" in back._data:
        out.fail("roundtrip-propagator", "as_statevector keeps the propagator", inp)
    if not isinstance(o._data.get("propagator"), Kepler):
        out.fail("roundtrip-propagator", "as_orbit does not attach the propagator", inp)


# ---------------------------------------------------------------- oracle: pickle x every kind of frame x registry histories

# every way the anchored files (frames.py, stations.py) build a Frame object a state vector can be expressed in
FRAME_KINDS = ["builtin", "alias", "hill-qsw", "hill-tnw", "user", "user-own-centre", "orbit2frame", "orbit2frame-qsw", "orbit2frame-tnw", "station", "station-equatorial"]
# what happens to the REGISTRY (frames.dynamic, the table get_frame reads) after the state was built / after it was dumped:
#   rereg: the name of the frame is registered again, for another frame (the state keeps the first one)
#   unreg: the name is not registered (any more / in the loading process: a worker that never built the frame)
REG_EVENTS = ["none", "rereg", "unreg"]
PICKLE_HOLDERS = ["self", "cov-orb", "ephem", "propagator-orbit", "metadata"]
USER_FRAME_NAME = "C15Lab"


def _drop_node(leaf, name):
    for parent in list(leaf.neighbors):
        leaf.neighbors.pop(parent, None)
        parent.neighbors.pop(leaf, None)
        seen, todo = {parent}, [parent]
        while todo:
            n = todo.pop()
            n.routes.pop(name, None)
            for m in n.neighbors:
                if m not in seen:
                    seen.add(m)
                    todo.append(m)


class frame_world:
    """builds one frame of a given kind and takes every trace of it out of beyond's registries again on exit (frames.dynamic, the two
    conversion graphs, the `<a>_to_<b>` methods hung on Center / Orientation)"""

    def __init__(self, kind, rng_pick=0):
        self.kind = kind
        self.pick = rng_pick

    def __enter__(self):
        from beyond.frames import frames, center, orient
        import logging
        self.saved = dict(frames.dynamic)
        self.log, self.level = logging.getLogger(frames.log.name), logging.getLogger(frames.log.name).level
        self.log.setLevel(logging.ERROR)       # "A frame with the name ... is already registered. Overriding": that is the point
        self.attrs = {cls: set(cls.__dict__) for cls in (center.Center, orient.Orientation)}
        self.made = []
        self.frame = self.build(self.kind, USER_FRAME_NAME) if self.kind else None
        return self

    def build(self, kind, name, pick=None):
        import numpy as np
        if pick is not None:
            self.pick = pick
        from beyond.dates import Date
        from beyond.frames import frames, center, orient, create_station
        from beyond.orbits import StateVector
        from beyond.propagators.kepler import Kepler
        builtin = [k for k in sorted(self.saved) if k not in ("Hill", "WGS84") and not k.startswith("C15")]
        if kind == "builtin":
            return frames.get_frame(builtin[self.pick % len(builtin)])
        if kind == "alias":       # a registry key that is not the name of the frame it gives
            return frames.get_frame("WGS84")
        if kind == "hill-qsw":    # the registered one; in a command sequence (the key may have been dropped): a new object, as ClohessyWiltshire.from_orbit makes
            return frames.get_frame("Hill") if self.kind else frames.HillFrame("QSW")
        if kind == "hill-tnw":    # what ClohessyWiltshire(sma, frame=HillFrame("TNW")) works in
            return frames.HillFrame("TNW")
        if kind == "user":
            fr = frames.Frame(name, [orient.G50, orient.TEME, orient.PEF][self.pick % 3], center.Earth, exists_warning=False)
        elif kind == "user-own-centre":
            c = center.Center(name, body=center.Earth.body)
            c.add_link(center.Earth, orient.EME2000, np.array([2.0e5, -1.0e5, 5.0e4, 0.0, 0.0, 0.0]))
            fr = frames.Frame(name, orient.MOD, c, exists_warning=False)
        elif kind.startswith("orbit2frame"):
            ref = StateVector([7.2e6, 0.01, 0.9, 1.0, 2.0, 3.0], Date(2020, 3, 1), "keplerian", "EME2000").as_orbit(Kepler())
            o = kind.split("-")[1].upper() if "-" in kind else None
            fr = frames.orbit2frame(name, ref, orientation=o, exists_warning=False)
        elif kind.startswith("station"):
            fr = create_station(name, (43.4 + self.pick % 5, 1.5, 178.0), equatorial=kind.endswith("equatorial"))
        else:
            raise ValueError(kind)
        self.made.append(fr)
        return fr

    def event(self, ev):
        """one registry event on the name of the frame"""
        from beyond.frames import frames, center, orient
        fr = self.frame
        if self.kind in ("builtin", "alias"):
            return      # the built-in names are what the library itself looks up (get_frame("EME2000") inside Cov, the propagators, ...): not taken over here
        key = "Hill" if type(fr).__name__ == "HillFrame" else fr.name
        if ev == "rereg":
            if key == "Hill":     # another propagator set up with the other orientation
                frames.HillFrame("TNW" if fr.orientation == "QSW" else "QSW")
            else:
                other = orient.MOD if getattr(fr.orientation, "name", None) != "MOD" else orient.TOD
                frames.Frame(key, other, center.Earth, exists_warning=False)
        elif ev == "unreg":
            frames.dynamic.pop(key, None)

    def __exit__(self, *a):
        from beyond.frames import frames, center, orient
        for fr in self.made:
            for obj in (getattr(fr.center, "node", None), fr.orientation):
                if obj is not None and getattr(obj, "name", None) == fr.name and hasattr(obj, "neighbors"):
                    _drop_node(obj, fr.name)
        for cls, had in self.attrs.items():
            for k in set(cls.__dict__) - had:
                delattr(cls, k)
        frames.dynamic.clear()
        frames.dynamic.update(self.saved)
        self.log.setLevel(self.level)
        return False


def frame_desc(fr):
    """what a frame IS, without its identity: class, name, orientation (class, name, geometry), centre (class, name)"""
    o = fr.orientation
    geo = tuple(float(x).hex() for x in getattr(o, "latlonalt", ())) if hasattr(o, "latlonalt") else getattr(o, "orientation", None)
    return (type(fr).__name__, fr.name, type(o).__name__, o if isinstance(o, str) else getattr(o, "name", None), geo if not hasattr(geo, "name") else geo.name,
            type(fr.center).__name__, getattr(fr.center, "name", None))


def inertial_state(sv):
    """the point of space-time a state vector describes: cartesian coordinates in EME2000 (None for the untransformable Hill frame)"""
    import numpy as np
    if type(sv._data["frame"]).__name__ == "HillFrame":
        return None
    from beyond.frames import frames
    q = sv.copy(frame=frames.EME2000, form="cartesian")
    return np.array(q, dtype=float)


def check_pickle_frames(out, rng, fcase):
    """pickling preserves values and metadata — the frame is metadata, and the six numbers mean nothing without it — for a state expressed in
    EVERY kind of frame the library can build, whatever happens to the frame registry between building the state, dumping and loading it,
    and for every object that holds the state (covariance, ephemeris, propagator, a metadata container)"""
    import numpy as np
    from beyond.dates import Date, timedelta
    from beyond.orbits import StateVector, Ephem
    from beyond.orbits.cov import Cov
    from beyond.propagators.kepler import Kepler
    import copy as _copy
    kind, holder = fcase["kind"], fcase["holder"]
    via = fcase.get("via", "pickle")      # copy.deepcopy walks the same __reduce__-like protocol in one call: both registry events come before it
    inp = {"fcase": fcase}
    fam_kind = kind.split("-")[0]
    out.count(key=("pickle-frame", via, kind, fcase["pick"] % 8, fcase["form"], holder, fcase["before"], fcase["between"]), kind="pickle-frame", frame=kind, holder=holder,
              registry=f"{fcase['before']}/{fcase['between']}")
    with frame_world(kind, fcase["pick"]) as w:
        fr = w.frame
        hill = type(fr).__name__ == "HillFrame"
        date = Date(2020, 3, 1, 12, 0, 0)
        if hill:
            sv = StateVector([10.0, 20.0, 30.0, 0.1, 0.2, 0.3], date, "cartesian", fr, name="chaser", tags=["a"])
        else:
            sv = StateVector(fcase["kep"], date, "keplerian", "EME2000", name="sat", tags=["a"])
            sv.frame = fr
            if fcase["form"] != "keplerian":
                sv.form = fcase["form"] if np.all(np.isfinite(np.asarray(sv.copy(form=fcase["form"])))) else "cartesian"
        if hill and holder in ("ephem", "propagator-orbit") or via == "deepcopy" and holder == "propagator-orbit":
            holder = "self"     # (StateVector.__deepcopy__ is copy(): the propagator of the result has not been given an orbit yet)
        if holder == "cov-orb":
            vals = np.diag([1.0e4, 2.0e4, 3.0e4, 1.0e-2, 2.0e-2, 3.0e-2])
            sv.cov = Cov(sv, vals, fr)
        elif holder == "propagator-orbit":
            sv = sv.as_orbit(Kepler())
            sv.propagator.orbit = sv
        w.event(fcase["before"])
        if holder == "ephem":
            obj = Ephem([sv, sv.copy()])
            obj._orbits[1].date = date + timedelta(seconds=60)
            pick = lambda x: x[0]
        elif holder == "metadata":
            obj = StateVector(fcase["kep"], date, "keplerian", "EME2000", target=sv, targets=[sv])
            pick = lambda x: x.target
        elif holder == "propagator-orbit":
            obj = sv
            pick = lambda x: x.propagator.orbit if x.propagator.orbit is not None else x
        else:
            obj = sv
            pick = lambda x: x
        sv = pick(obj)        # the state whose round trip is judged (for a propagator: the copy it keeps of the orbit it was given)
        desc0, snap0 = frame_desc(sv._data["frame"]), snap_full(sv)
        how, ref = attempt(lambda: inertial_state(sv), 5.0)
        if how != "ok":
            out.tally("pickle-frame-skipped=state-not-expressible-in-EME2000")
            return
        if via == "deepcopy":
            w.event(fcase["between"])
            desc0, snap0 = frame_desc(sv._data["frame"]), snap_full(sv)
        how, blob = attempt(lambda: pickle.dumps(obj) if via == "pickle" else obj, 5.0)
        if how != "ok":
            out.fail(f"pickle-frame-raises-{fam_kind}", f"pickle.dumps of a {type(obj).__name__} holding a state in a {kind} frame raises {type(blob).__name__}: {blob}", inp, observed=repr(blob))
            return
        if via == "pickle":
            w.event(fcase["between"])
        how, back = attempt(lambda: pick(pickle.loads(blob) if via == "pickle" else _copy.deepcopy(blob)), 5.0)
        if how != "ok":
            out.fail(f"{via}-frame-raises-{fam_kind}", f"a pickled {type(obj).__name__} holding a state in frame '{desc0[1]}' ({kind}; registry: {fcase['before']} before / {fcase['between']} after dumping) "
                     f"can not be loaded ({via}): {type(back).__name__}: {back}", inp, observed=repr(back), expected="the state vector, in the frame it was expressed in")
            return
        if snap_full(sv) != snap0 or frame_desc(sv._data["frame"]) != desc0:
            out.fail("receiver-changed-pickle", "pickling changed the object", inp)
            return
        desc1 = frame_desc(back._data["frame"])
        s0, s1 = snap(sv), snap(back)
        if s0[:4] != s1[:4] or type(back) is not type(sv):
            out.fail("pickle-values", "form/frame name/values differ after a pickle round trip", inp, observed=s1[:4], expected=s0[:4])
            return
        d0, d1 = dict(s0[4]), dict(s1[4])
        for k in sorted(set(d0) | set(d1)):
            if d0.get(k) != d1.get(k):
                out.fail(f"pickle-loses-{'cov' if k == 'cov' else 'metadata'}", f"metadata entry '{k}' differs after a pickle round trip", dict(inp, key=k), observed=str(d1.get(k))[:200], expected=str(d0.get(k))[:200])
                return
        if desc1 != desc0:
            out.fail(f"{via}-frame-replaced-{fam_kind}", f"after a {via} round trip the state (same six numbers) is attached to another frame than the one it was expressed in "
                     f"(registry: {fcase['before']} before / {fcase['between']} after dumping)", inp, observed=desc1, expected=desc0)
            return
        if holder == "cov-orb":
            c0, c1 = sv.cov, back.cov
            dd = (frame_desc(c1._data["frame"]) if not isinstance(c1._data["frame"], str) else c1._data["frame"], frame_desc(c1._orb_frame), frame_desc(c1._data["orb"]._data["frame"]))
            de = (frame_desc(c0._data["frame"]) if not isinstance(c0._data["frame"], str) else c0._data["frame"], frame_desc(c0._orb_frame), frame_desc(c0._data["orb"]._data["frame"]))
            if dd != de:
                out.fail(f"{via}-frame-replaced-{fam_kind}", "after a pickle round trip the covariance (or the private state it keeps) is attached to another frame", inp, observed=dd, expected=de)
                return
        if ref is not None:
            how, got = attempt(lambda: inertial_state(back), 5.0)
            if how != "ok":
                out.fail(f"pickle-unusable", f"an unpickled state in frame '{desc0[1]}' ({kind}) can not be expressed in EME2000: {type(got).__name__}: {got}", inp, observed=repr(got))
                return
            if not same_physical(ref, got, rtol=1e-12):
                out.fail(f"{via}-frame-moves-{fam_kind}", f"the unpickled state is another point of space: {float(np.linalg.norm(ref[:3] - got[:3])):.3f} m from the original once both are expressed in EME2000",
                         inp, observed=[float(x) for x in got], expected=[float(x) for x in ref])


def rand_fcase(rng, **force):
    fc = {"kind": rng.choice(FRAME_KINDS), "pick": rng.randrange(1000), "form": rng.choice(["cartesian", "keplerian", "spherical", "cartesian"]), "kep": rand_coord(rng),
          "holder": rng.choice(PICKLE_HOLDERS), "before": rng.choice(REG_EVENTS), "between": rng.choice(REG_EVENTS), "via": rng.choice(["pickle", "pickle", "deepcopy"])}
    fc.update(force)
    return fc


# ---------------------------------------------------------------- oracle: failing FORM changes, on every leg of every route

class nobody_frame:
    """a frame (orientation EME2000) centred on a point that carries no attracting body (a barycentre, a probe): every conversion leg
    that needs mu raises AttributeError, the geometric ones (spherical, cylindrical <-> cartesian) work"""

    def __enter__(self):
        import numpy as np
        from beyond.frames import frames, center, orient
        self.prev = frames.dynamic.get("NoBody")
        c = center.Center("NoBody")
        c.add_link(center.Earth, orient.EME2000, np.array([3e8, 1e8, 0.0, 0.0, 0.0, 0.0]))
        return frames.Frame("NoBody", orient.EME2000, c, exists_warning=False)

    def __exit__(self, *a):
        from beyond.frames import frames, center
        frames.dynamic.pop("NoBody", None)
        if self.prev is not None:
            frames.dynamic["NoBody"] = self.prev
        if hasattr(center.Center, "NoBody_to_Earth"):
            delattr(center.Center, "NoBody_to_Earth")
        return False


def route_legs(src, dst):
    """names of the conversion functions `Form.__call__` walks from form src to form dst"""
    from beyond.orbits.forms import get_form
    if src == dst:
        return []
    return [f"_{a.name.lower()}_to_{b.name.lower()}" for a, b in get_form(src).steps(get_form(dst).name)]


class failing_leg:
    """fault injection: one leg of the conversion graph raises (what a body without mu, a degenerate state under np.errstate(raise), a
    future range check ... do on that leg)"""

    def __init__(self, leg):
        self.leg = leg

    def __enter__(self):
        from unittest import mock
        from beyond.orbits.forms import Form
        self.p = mock.patch.object(Form, self.leg, side_effect=ValueError(f"injected failure in {self.leg}"))
        self.p.start()

    def __exit__(self, *a):
        self.p.stop()
        return False


SPECIAL_STATES = {
    "hyperbolic": [7.0e6, 0.0, 0.0, 0.0, 12.0e3, 1.0e3],
    "circular-equatorial": [7.0e6, 0.0, 0.0, 0.0, 7546.0533, 0.0],
    "rectilinear": [7.0e6, 0.0, 0.0, 3.0e3, 0.0, 0.0],
}


def _judge_failed_form(out, sv, thunk, ctx, fam, what, inp):
    """run one form assignment that is expected to raise; when it does, the object must be bit-identical to what it was"""
    before = snap_full(sv)
    with ctx:
        how, err = attempt(thunk)
    if how == "ok":
        return False
    after = snap_full(sv)
    if how == "hang":
        out.fail(fam.replace("state", "hangs"), f"{what}: the assignment does not return", inp, observed=repr(err))
    elif after != before:
        out.fail(fam, f"{what}: raised {type(err).__name__} and left the object changed ({snap_diff(before, after)}): form {after[0][1]}, expected {before[0][1]}", inp,
                 observed=str(after[0][:4])[:300], expected=str(before[0][:4])[:300])
    return True


def check_failed_form_change(out, rng, spec, thorough=False):
    """O3 for the form setter: a form change that fails on ANY leg of its route — not only the first — leaves form, values and everything
    else bit-identical. Ways to fail: a frame whose centre has no body (mu); hyperbolic / degenerate states with numpy told to raise;
    fault injection on every leg of every route between the ten forms; also through copy(form=) (receiver) """
    import contextlib
    import numpy as np
    from beyond.orbits import StateVector
    # 1. no body
    for src in ("spherical", "cylindrical", "cartesian"):
        for dst in [f for f in FORMS if f not in ("spherical", "cylindrical", "cartesian")]:
            with nobody_frame() as fr:
                base = make_state(rng, dict(spec, form=src, frame="EME2000", cov=False))
                base._data["frame"] = fr
                out.count(key=("form-nobody", src, dst, spec["orbit"], spec.get("meta")), kind="failed-form-change", case="no-body")
                raised = _judge_failed_form(out, base, lambda: setattr(base, "form", dst), contextlib.nullcontext(), "failed-change-state-form-nobody",
                                            f"{src} state in a frame whose centre has no body set to '{dst}'", {"spec": spec, "case": "form-nobody", "src": src, "dst": dst})
                if not raised:
                    out.fail("no-error-form-nobody", f"{src} -> {dst} without a body did not raise", {"spec": spec, "case": "form-nobody", "src": src, "dst": dst})
    # 2. special states, numpy raising
    for label, cart in SPECIAL_STATES.items():
        for src in ("cartesian", "spherical", "cylindrical", "keplerian"):
            for dst in FORMS:
                if dst == src:
                    continue
                d = make_state(rng, dict(spec, form="cartesian", frame="EME2000", cov=False))
                sv = StateVector(cart, d.date, "cartesian", "EME2000", **{k: v for k, v in d._data.items() if k not in ("date", "form", "frame", "cov", "propagator")})
                how, _ = attempt(lambda: setattr(sv, "form", src))
                if how != "ok" or not np.all(np.isfinite(np.asarray(sv))):
                    out.tally(f"special-state-not-representable={label}:{src}")
                    continue
                out.count(key=("form-errstate", label, src, dst), kind="failed-form-change", case="errstate")
                raised = _judge_failed_form(out, sv, lambda: setattr(sv, "form", dst), np.errstate(all="raise"), "failed-change-state-form-errstate",
                                            f"{label} state held in form {src} set to '{dst}' under np.errstate(all='raise')",
                                            {"spec": spec, "case": "form-errstate", "state": label, "src": src, "dst": dst})
                out.tally(f"errstate-{'raised' if raised else 'converted'}")
    # 3. every leg of every route
    pairs = [(a, b) for a in FORMS for b in FORMS if a != b]
    if not thorough:
        pairs = [pr for pr in pairs if len(route_legs(*pr)) >= 2]
        pairs = rng.sample(pairs, 30)
    for src, dst in pairs:
        legs = route_legs(src, dst)
        for k, leg in enumerate(legs):
            for how_set in ("setter", "copy"):
                sv = make_state(rng, dict(spec, form=src))
                if not finite_state(sv):
                    continue
                out.count(key=("form-leg", src, dst, k, how_set), kind="failed-form-change", case=f"leg{k}-{how_set}")
                thunk = (lambda: setattr(sv, "form", dst)) if how_set == "setter" else (lambda: sv.copy(form=dst))
                raised = _judge_failed_form(out, sv, thunk, failing_leg(leg), f"failed-change-state-form-leg-{how_set}",
                                            f"{src} -> {dst} ({how_set}) with leg {k} ({leg}) of {len(legs)} raising", {"spec": spec, "case": "form-leg", "src": src, "dst": dst, "leg": k, "how": how_set})
                if not raised:
                    out.fail("no-error-form-leg", f"{src} -> {dst}: the failing leg {leg} was not walked", {"spec": spec, "case": "form-leg", "src": src, "dst": dst, "leg": k})


# ---------------------------------------------------------------- oracle: every public method that returns a state object

TLE_TEXT = """ISS (ZARYA)
1 25544U 98067A   18124.55610684  .00001524  00000-0  30197-4 0  9997
2 25544  51.6421 236.2139 0003381  47.8509  47.6767 15.54198229111731"""


def producers(rng, sv):
    """(name, kind, thunk -> list of (receiver-or-argument, returned object)) for the public methods that RETURN a state object"""
    from beyond.dates import timedelta
    from beyond.orbits import Orbit
    from beyond.frames.frames import get_frame
    other = get_frame("ITRF" if sv._data["frame"].name != "ITRF" else "EME2000")
    ps = [("Frame.transform", "transform", lambda: [(sv, sv.frame.transform(sv, other))]),
          ("Form.__call__", "form-call", lambda: [(sv, r) for r in [sv.form(sv, "cartesian" if sv.form.name != "cartesian" else "keplerian")] if hasattr(r, "_data")])]
    if isinstance(sv, Orbit):
        step = timedelta(seconds=120)

        def ephem_all():
            eph = sv.ephem(start=sv.date, stop=step * 10, step=step)
            stored = list(eph._orbits)
            res = [eph.interpolate(sv.date + step * 1.5), eph.propagate(sv.date + step * 2.5)]
            res += list(eph.iter(step=step * 1.5))[:2] + list(eph.iter())[:2] + list(eph.ephem()._orbits)[:2] + list(eph.copy()._orbits)[:2]
            return [(x, r) for r in res for x in stored + [sv]]
        ps += [("Orbit.propagate", "propagate", lambda: [(sv, sv.propagate(sv.date + step))]),
               ("Orbit.iter", "iter", lambda: [(sv, r) for r in list(sv.iter(start=sv.date, stop=step * 2, step=step))]),
               ("Orbit.ephem", "ephem", lambda: [(sv, r) for r in sv.ephem(start=sv.date, stop=step * 2, step=step)._orbits]),
               ("Ephem.interpolate/propagate/iter/ephem/copy", "ephem-out", ephem_all)]
    return ps


def check_returned_objects(out, rng, spec):
    """every public method that returns a state object hands out one that has no mutable cell in common with its receiver / argument
    (identity partition, maneuver objects apart) and that no in-place change of one side shows in the other"""
    probe = make_state(rng, spec)
    for pi in range(len(producers(rng, probe))):
        sv = make_state(rng, spec)
        name, kind, thunk = producers(rng, sv)[pi]
        before = snap_full(sv)
        how, pairs = attempt(thunk, seconds=5.0)
        inp = {"spec": spec, "producer": name}
        out.count(key=("returned", name, spec["form"], spec["frame"], spec["orbit"], spec["cov"], spec["mans"], spec.get("meta")), kind="returned-object", op=kind)
        if how != "ok":
            out.fail(f"convert-raises-{kind}", f"{name} {'does not return' if how == 'hang' else 'raised'} {type(pairs).__name__}: {pairs}", inp, observed=repr(pairs))
            continue
        if snap_full(sv) != before:
            out.fail(f"receiver-changed-{kind}", f"{name} changed its receiver / argument ({snap_diff(before, snap_full(sv))})", inp)
            continue
        if not pairs:
            out.tally(f"returned-no-state-object={kind}")
            continue
        bad = False
        for src, res in pairs:
            if res is src:
                out.fail(f"shared-object-after-{kind}", f"{name} returned its receiver / a stored object itself", inp)
                bad = True
                break
            sh = [x for x in shared_cells(src, res) if x[0] != "man-object"]
            if sh:
                report_shared(out, sh, kind, name, inp, src, res)
                bad = True
                break
        if bad:
            continue
        # behaviour: each in-place change of the first returned object / of the receiver, from a fresh production
        n_muts = len(mutations(rng, pairs[0][1]))
        for mi in range(n_muts):
            for direction in ("result", "receiver"):
                sv = make_state(rng, spec)
                name, kind, thunk = producers(rng, sv)[pi]
                how, pairs = attempt(thunk, seconds=5.0)
                if how != "ok" or not pairs:
                    break
                src, res = pairs[0]
                target, other = (res, src) if direction == "result" else (src, res)
                ms = mutations(rng, target)
                if mi >= len(ms):
                    continue
                field, mut = ms[mi]
                if field == "man-object":
                    continue
                ref = snap_full(other)
                how, err = attempt(mut)
                out.count(key=("returned", name, mi, direction, spec["form"], spec["frame"], spec["cov"], spec["mans"], spec.get("meta")), kind="returned-object-separation", op=kind, field=field)
                if snap_full(other) != ref:
                    out.fail(f"shared-{field}-after-{kind}", f"after {name}, changing {field} of the {direction} shows in the other object ({snap_diff(ref, snap_full(other))})",
                             dict(inp, mutation_index=mi, direction=direction), observed=str(snap_full(other))[:300], expected=str(ref)[:300])


def check_tle_orbit(out, rng):
    """Tle.orbit() builds a new Orbit on every call: two of them share nothing but the (value) Tle object they both refer to"""
    import numpy as np
    from beyond.io.tle import Tle
    tle = Tle(TLE_TEXT)
    a, b = tle.orbit(), tle.orbit()
    out.count(key=("tle-orbit",), kind="returned-object", op="tle-orbit")
    ref_list = list(tle.to_list())
    sh = [x for x in shared_cells(a, b) if ".tle" not in x[1] and x[0] != "propagator"]
    if a is b or sh:
        out.fail("shared-object-after-tle-orbit", f"two calls of Tle.orbit() share {sh[0][1] if sh else 'the object itself'}", {"producer": "Tle.orbit"})
        return
    ref = snap_full(b)
    a[0] = 1.0
    a.form = "cartesian"
    a.name = "other"
    if snap_full(b) != ref or list(tle.to_list()) != ref_list:
        out.fail("shared-coord-after-tle-orbit", "changing one Orbit returned by Tle.orbit() shows in another one / in the Tle", {"producer": "Tle.orbit"})


# ---------------------------------------------------------------- oracle: helper objects created by a getter (infos)

def infos_quantities(x):
    """what the helper `x.infos` says about the orbit (hex strings; an exception is part of the answer)"""
    res = []
    for q in ("kep.a", "kep.e", "sphe.r", "period", "pericenter", "apocenter", "energy", "v", "type"):
        def get():
            o = x.infos
            for part in q.split("."):
                o = getattr(o, part)
            return o
        how, val = attempt(get)
        if how != "ok":
            res.append((q, how, type(val).__name__))
        elif hasattr(val, "total_seconds"):
            res.append((q, float(val.total_seconds()).hex()))
        elif isinstance(val, str) or val is None:
            res.append((q, val))
        else:
            res.append((q, float(val).hex()))
    return tuple(res)


def fresh_like(x):
    """a state vector built from scratch with the values x holds now"""
    import numpy as np
    from beyond.orbits import StateVector
    return StateVector([float(v) for v in np.asarray(x)], x._data["date"], x._data["form"], x._data["frame"])


def check_infos(out, rng, spec):
    """the helper a getter creates on read access and keeps in `_data` belongs to the object graph: 'read infos on the original, then
    copy / convert / pickle, then modify one side, then read infos on both' — the helper each object hands out is bound to that object,
    and what it says equals what a fresh object with the same values says"""
    import copy as _copy
    from beyond.frames.frames import get_frame

    def ops(sv):
        other = get_frame("ITRF" if sv._data["frame"].name != "ITRF" else "EME2000")
        return conv_ops(rng, sv) + [("copy.deepcopy", "deepcopy", lambda: _copy.deepcopy(sv)), ("Frame.transform", "transform", lambda: sv.frame.transform(sv, other))]

    def touch(sv):
        infos_quantities(sv)

    def modify(x):
        x.form = "keplerian"
        x[0] = float(x[0]) * 1.3
        x[1] = min(0.9, float(x[1]) + 0.05)

    probe = make_state(rng, spec)
    for oi in range(len(ops(probe))):
        for direction in ("copy", "orig"):
            st = rng.getstate()
            sv = make_state(rng, spec)
            touch(sv)
            name, kind, op = ops(sv)[oi]
            how, new = attempt(op)
            rng.setstate(st)
            rng.random()
            inp = {"spec": spec, "op": name, "op_index": oi, "direction": direction, "check": "infos"}
            if how != "ok":
                out.fail(f"convert-raises-{kind}", f"{name} after a read of infos raised {type(new).__name__}: {new}", inp, observed=repr(new))
                break
            out.count(key=("infos", oi, direction, spec["form"], spec["frame"], spec["orbit"], spec["cov"]), kind="getter-helper", op=kind)
            if oi == 0 and direction == "copy":
                stale = new._data.get("infos")
                if stale is not None and getattr(stale, "orb", None) is sv:
                    ref = snap_full(sv)
                    stale.orb[0] = float(stale.orb[0]) + 1.0       # what `new["infos"].orb[0] += 1` does
                    out.fail("shared-infos-helper-after-copy", "after copy(), the copy's _data holds under 'infos' (reachable as copy['infos']) the helper object of the ORIGINAL, whose `orb` is the original"
                             + (": writing through it changes the original" if snap_full(sv) != ref else ""), inp,
                             observed="copy['infos'].orb is original", expected="no entry, or a helper bound to the copy")
                    continue
            how, h = attempt(lambda: new.infos)
            if how != "ok" or h.orb is not new:
                out.fail(f"infos-not-own-after-{kind}", f"after a read of infos on the original and {name}, the helper `new.infos` hands out is bound to "
                         + ("the original" if how == "ok" and h.orb is sv else "another object"), inp, observed="new.infos.orb is not new", expected="new.infos.orb is new")
                continue
            if direction == "copy":
                modify(new)
                got, want = infos_quantities(new), infos_quantities(fresh_like(new))
                whose = "the modified new object"
            else:
                want = infos_quantities(fresh_like(new))
                modify(sv)
                got = infos_quantities(new)
                whose = "the new object after the original was modified"
            if got != want:
                out.fail(f"infos-describes-other-after-{kind}", f"after a read of infos on the original and {name}: infos of {whose} differs from infos of a fresh object with the same values", inp,
                         observed=str(got)[:300], expected=str(want)[:300])


# ---------------------------------------------------------------- oracle: the standard library's copy protocol

def check_deepcopy(out, rng, spec):
    """copy.deepcopy(sv) is a copy of a state vector: it must not have a mutable cell in common with the original"""
    import copy
    sv = make_state(rng, spec)
    before = snap_full(sv)
    how, new = attempt(lambda: copy.deepcopy(sv))
    out.count(key=("deepcopy", spec["form"], spec["frame"], spec["orbit"], spec["cov"], spec["mans"], spec.get("meta")), kind="deepcopy")
    inp = {"spec": spec, "op": "copy.deepcopy"}
    if how != "ok":
        out.fail("convert-raises-deepcopy", f"copy.deepcopy raised {type(new).__name__}: {new}", inp, observed=repr(new))
        return
    if snap_full(sv) != before:
        out.fail("receiver-changed-deepcopy", "copy.deepcopy changed its argument", inp)
        return
    if snap(new) != snap(sv):
        out.fail("deepcopy-values", "copy.deepcopy does not preserve values and metadata", inp, observed=str(snap(new))[:300], expected=str(snap(sv))[:300])
        return
    sh = shared_cells(sv, new)
    if sh:
        field, pa, pb, obj = sh[0]
        ref = snap_full(sv)
        shows = poke(obj) and snap_full(sv) != ref
        out.fail("shared-data-after-deepcopy", f"after copy.deepcopy, {pb} of the copy and {pa} of the original are the same mutable object ({len(sh)} shared cells: "
                 + ", ".join(sorted({x[0] for x in sh})) + ")" + (": a change made in place through one shows in the other" if shows else ""), inp,
                 observed=f"{type(obj).__name__} {pa} is {pb}", expected="no mutable object reachable from both")


# ---------------------------------------------------------------- oracle: histories

NEW_OBJECT_OPS = {"new", "copy", "copyf", "copyfr", "aso", "assv", "pickle", "ctor", "dcopy", "xform"}
TRANSFORM_OPS = {"setfr", "setfrx"}


def check_sequence(out, ops, kep):
    """the statement over histories: the operation sequences of the correspondence run on real objects, judged by the statement itself —
    after every step (a) an operation that returns a new object left every existing object bit-identical, (b) an in-place operation on one
    object left every OTHER object bit-identical, (c) an operation that raised left its own object as it was (physically, when a transformation
    had started), (d) no two objects have a mutable cell in common except maneuver objects (open finding)"""
    import numpy as np
    real = Real()
    real.kep = kep
    inp = {"ops": ops, "kep": kep}
    for n, op in enumerate(ops):
        nv = len(real.vars)
        before = [snap_full(v) for v in real.vars]
        tgt = int(op[1]) if op[0] != "new" and real.vars else None
        c0 = None
        if op[0] in TRANSFORM_OPS and tgt is not None and tgt < nv:
            how0, c0 = attempt(lambda: cart_state(real.vars[tgt]))
            if how0 != "ok" or not all(math.isfinite(float(v)) for v in c0):
                c0 = None
        status = real.run(op)
        after = [snap_full(v) for v in real.vars[:nv]]
        out.count(key=(n, tuple(tuple(o) for o in ops)), kind="history-step", op=op[0], status=status.split(":")[0])
        where = f"step {n} ({' '.join(op)} -> {status})"
        for j in range(nv):
            if after[j] == before[j]:
                continue
            part = snap_diff(before[j], after[j])
            if op[0] in NEW_OBJECT_OPS:
                out.fail(f"seq-receiver-changed-{op[0]}", f"{where}: an operation that returns a new object changed object {j} ({part})", dict(inp, step=n, object=j),
                         observed=str(after[j])[:300], expected=str(before[j])[:300])
                return
            if j != tgt:
                out.fail(f"seq-other-changed-{op[0]}-{field_of(part) if part not in ('values', 'form', 'frame', 'type') else part}",
                         f"{where}: changing object {tgt} in place shows in object {j} ({part})", dict(inp, step=n, object=j),
                         observed=str(after[j])[:300], expected=str(before[j])[:300])
                return
            if status != "ok":
                # the object the failing assignment was made on
                if op[0] in TRANSFORM_OPS and status not in ("unknown-frame",) and part == "values" and c0 is not None:
                    how1, c1 = attempt(lambda: cart_state(real.vars[j]))
                    if how1 == "ok" and same_physical(c0, c1):
                        continue      # converted to cartesian and back: same state up to rounding
                    out.fail(f"seq-failed-change-values-{op[0]}-{status}", f"{where}: after the failed frame change (state held in form {after[j][0][1]}) the physical state differs", dict(inp, step=n, object=j),
                             observed=[float(v) for v in np.asarray(real.vars[j])], expected=[float.fromhex(v) for v in before[j][0][3]])
                    return
                if op[0] in TRANSFORM_OPS and c0 is None and part == "values":
                    out.tally("failed-change-degenerate-state-skipped")
                    continue
                out.fail(f"seq-failed-change-{op[0]}-{status}", f"{where}: the operation raised and left its object changed ({part})", dict(inp, step=n, object=j),
                         observed=str(after[j])[:300], expected=str(before[j])[:300])
                return
        if status.startswith("hang"):
            out.fail(f"seq-hang-{op[0]}", f"{where}: the operation does not return", dict(inp, step=n))
            return
        vs = real.vars
        for j in range(len(vs)):
            how, hlp = attempt(lambda: vs[j].infos)
            if how != "ok" or hlp.orb is not vs[j]:
                out.fail(f"seq-infos-not-own-after-{op[0]}", f"{where}: the helper `infos` of object {j} is bound to another object", dict(inp, step=n, object=j),
                         observed="obj.infos.orb is not obj", expected="obj.infos.orb is obj")
                return
        for i in range(len(vs)):
            for j in range(i + 1, len(vs)):
                sh = [x for x in shared_cells(vs[i], vs[j]) if x[0] != "man-object"]
                if sh:
                    field, pa, pb, obj = sh[0]
                    ref = snap_full(vs[j])
                    shows = poke(obj) and snap_full(vs[j]) != ref
                    out.fail(f"seq-shared-{field}-after-{op[0]}", f"{where}: {pa} of object {i} and {pb} of object {j} are the same mutable object"
                             + (": a change made in place through one shows in the other" if shows else ""), dict(inp, step=n, objects=[i, j]),
                             observed=f"{type(obj).__name__} {pa} is {pb}", expected="no mutable object reachable from both")
                    return


def oracle(ctx, widened):
    out = Outcome()
    rng = ctx.rng
    big = widened or ctx.thorough
    for form in FORMS:
        check_access(out, rng, form)
    specs = []
    # a covering set first (every optional part present; every container empty or created by a mere read), then random ones
    for orbit in (False, True):
        specs.append(rand_spec(rng, orbit=orbit, cov=True, mans=2, meta=1, covframe=None, lazy=False))
        specs.append(rand_spec(rng, orbit=orbit, cov=False, mans=0, meta=4 if orbit else 2, lazy=True))
    specs.append(rand_spec(rng, cov=True, mans=1, meta=3, lazy=True))
    for _ in range(40 if big else 2):
        specs.append(rand_spec(rng))
    for spec in specs:
        check_separation(out, rng, spec)
    # failing setters: from EVERY form, then random states
    for form in FORMS:
        check_failed_change(out, rng, rand_spec(rng, form=form, cov=True))
    for _ in range(300 if big else 20):
        check_failed_change(out, rng, rand_spec(rng))
    check_failed_form_change(out, rng, rand_spec(rng, frame="EME2000", orbit=False, cov=True, meta=1, mans=1), thorough=big)
    for orbit in (True, False):
        check_returned_objects(out, rng, rand_spec(rng, orbit=orbit, frame="EME2000", cov=True, covframe=None, mans=0, meta=1, lazy=True))
    for _ in range(6 if big else 0):
        check_returned_objects(out, rng, rand_spec(rng, mans=0))
    check_tle_orbit(out, rng)
    for k in range(12 if big else 2):
        check_infos(out, rng, rand_spec(rng, frame="EME2000", orbit=bool(k % 2), cov=True, covframe=None, mans=1, meta=1))
    for k in range(60 if big else 6):
        spec = rand_spec(rng, covframe=[None, "TNW", "QSW", None][k % 4])
        check_cov_constructors(out, rng, spec)
        check_sv_constructors(out, rng, spec)
        check_deepcopy(out, rng, dict(spec, meta=spec["meta"] or 1))
    for k in range(300 if big else 30):
        spec = rand_spec(rng, cov=(k % 2 == 0))
        check_pickle(out, rng, spec)
        check_roundtrip_types(out, rng, spec)
    # pickle x every kind of frame (covering: each kind with the registry untouched, and with the name taken over / absent), then random
    for kind in FRAME_KINDS:
        check_pickle_frames(out, rng, rand_fcase(rng, kind=kind, holder="self", before="none", between="none", via="pickle"))
        check_pickle_frames(out, rng, rand_fcase(rng, kind=kind, before=rng.choice(["rereg", "unreg"]), between="none"))
        check_pickle_frames(out, rng, rand_fcase(rng, kind=kind, before="none", between=rng.choice(["rereg", "unreg"]), via="pickle"))
    for _ in range(400 if big else 25):
        check_pickle_frames(out, rng, rand_fcase(rng))
    for _ in range(3000 if big else 250):
        ops = rand_ops(rng)
        kep = [rand_coord(rng) for _ in range(2)]
        check_sequence(out, resolve_indices(ops, kep), kep)
    out.sample({"checked": "copy()/copy(form)/copy(frame)/copy(same)/as_orbit/as_statevector/pickle then identity partition of the two object graphs and every in-place mutation of one object; deep snapshot of the other must not move"})
    return out


def replay(f):
    import random
    out = Outcome()
    i = f["input"]
    rng = random.Random(0)
    fam = f["family"]
    if "fcase" in i:
        check_pickle_frames(out, rng, i["fcase"])
    elif i.get("check") == "infos":
        check_infos(out, rng, i["spec"])
    elif i.get("case", "").startswith("form-"):
        check_failed_form_change(out, rng, i["spec"], thorough=True)
    elif "producer" in i:
        check_tle_orbit(out, rng) if i["producer"] == "Tle.orbit" else check_returned_objects(out, rng, i["spec"])
    elif fam.startswith("seq-") or fam == "heap-sequence":
        check_sequence(out, i["ops"], i["kep"])
    elif fam.endswith("deepcopy") or fam == "deepcopy-values":
        check_deepcopy(out, rng, i["spec"])
    elif "ctor" in i and fam.startswith(("shared-cov", "convert-raises-cov", "receiver-changed-cov", "cov-ctor")):
        check_cov_constructors(out, rng, i["spec"])
    elif "ctor" in i:
        check_sv_constructors(out, rng, i["spec"])
    elif fam.startswith("shared-") or fam.startswith("receiver-changed-") and "case" not in i or fam.startswith("convert-raises"):
        check_separation(out, rng, i["spec"])
    elif fam.startswith("failed-change") or fam.startswith("no-error") or "case" in i:
        check_failed_change(out, rng, i["spec"])
    elif fam.startswith("access-") or fam.startswith("foreign-"):
        check_access(out, rng, i["form"])
    elif fam.startswith("pickle"):
        check_pickle(out, rng, i["spec"])
    elif fam.startswith("roundtrip"):
        check_roundtrip_types(out, rng, i["spec"])
    out.failures = [x for x in out.failures if x["family"] == fam]
    return out


# ---------------------------------------------------------------- tables regenerated from the live package

def _lstr(s):
    return '"' + s.replace("\\", "\\\\").replace('"', '\\"') + '"'


def live_tables():
    """name / alias tables of beyond.orbits.forms, the frame registry and the property names of the classes, from live objects"""
    from beyond.orbits import forms, StateVector, Orbit
    from beyond.frames import frames
    form_keys = [(k, v.name) for k, v in forms._cache.items()]
    seen = []
    for _, v in forms._cache.items():
        if v.name not in [n for n, _ in seen]:
            seen.append((v.name, list(v.param_names)))
    alt = list(forms.Form.alt.items())
    cache = sorted(forms._cache_param_names)
    props = sorted({n for cls in (StateVector, Orbit) for n in dir(cls) if isinstance(getattr(cls, n, None), property)})
    reg, hill = [], []
    for k, fr in frames.dynamic.items():
        if type(fr) is frames.Frame and fr.center is frames.center.Earth and type(fr.orientation).__name__ != "LocalOrbitalOrientation":
            reg.append((k, fr.name))
        elif isinstance(fr, frames.HillFrame):
            hill.append(k)
    reg = [kv for kv in reg if kv[1] in {n for _, n in reg if _ == n}]   # keys of built-in frames only
    return {"form_keys": form_keys, "param_names": seen, "alt": alt, "cache": cache, "props": props,
            "frame_keys": sorted(kv for kv in reg if kv[0] in frames.__all__ or kv[0] == kv[1] and kv[0] in FRAMES + ["GCRF", "CIRF", "TIRF", "G50", "WGS84"]),
            "hill_keys": sorted(hill),
            "hill_frames": sorted((k, fr.name, str(fr.orientation)) for k, fr in frames.dynamic.items() if isinstance(fr, frames.HillFrame))}


def form_setter_steps():
    """the order of the effects of `StateVector.form.fset`, read from the AST: 'convert' (a call of the current Form object / of a conversion
    function: computes on a copy, may raise), 'store' (writes into the object's own buffer, directly or through an alias of it), 'commit'
    (`self._data['form'] = ...`); the body of a loop is taken twice (a route of at least two legs)"""
    import ast
    src = open(os.path.join(core.REPO, "beyond", "orbits", "statevector.py")).read()
    tree = ast.parse(src)
    fn = None
    for cls in tree.body:
        if isinstance(cls, ast.ClassDef) and cls.name == "StateVector":
            for f in cls.body:
                if isinstance(f, ast.FunctionDef) and f.name == "form" and any(ast.unparse(d) == "form.setter" for d in f.decorator_list):
                    fn = f
    if fn is None:
        raise RuntimeError("StateVector.form setter not found")
    arg = fn.args.args[1].arg
    body = [st for st in fn.body if not (isinstance(st, ast.Expr) and isinstance(getattr(st, "value", None), ast.Constant))]
    if not (body and ast.unparse(body[0]) == f"if isinstance({arg}, str):\n    {arg} = get_form({arg})"):
        raise RuntimeError("form setter: unexpected head")
    aliases, converters, steps = set(), set(), []
    own = {"self.view(np.ndarray)", "self"}

    def is_conversion(node):
        for c in ast.walk(node):
            if isinstance(c, ast.Call):
                f = ast.unparse(c.func)
                if f in ("self._data['form']", "self.form") or f in converters or "_to_" in f:
                    return True
        return False

    def walk(stmts):
        for st in stmts:
            if isinstance(st, (ast.For, ast.While)):
                walk(st.body)
                walk(st.body)
                continue
            if isinstance(st, ast.If) or isinstance(st, ast.Try) or isinstance(st, ast.With):
                raise RuntimeError(f"form setter: `{ast.unparse(st).splitlines()[0]}` is not modelled")
            if not (isinstance(st, ast.Assign) and len(st.targets) == 1):
                raise RuntimeError(f"form setter: `{ast.unparse(st)}` is not modelled")
            tgt, val = st.targets[0], st.value
            t = ast.unparse(tgt)
            if isinstance(tgt, ast.Name):
                if ast.unparse(val) in own:
                    aliases.add(t)
                elif isinstance(val, ast.Call) and ast.unparse(val.func) == "getattr":
                    converters.add(t)
                elif is_conversion(val):
                    steps.append("convert")
                continue
            if isinstance(tgt, ast.Subscript) and (ast.unparse(tgt.value) in own or ast.unparse(tgt.value) in aliases):
                if is_conversion(val):
                    steps.append("convert")
                steps.append("store")
                continue
            if t == "self._data['form']":
                steps.append("commit")
                continue
            raise RuntimeError(f"form setter: `{ast.unparse(st)}` is not modelled")
    walk(body[1:])
    return steps


LAZY_GETTERS = {"cov": "None on first read (immutable)", "maneuvers": "empty list on first read (model: getMans)", "infos": "Infos helper bound to self (model: getInfos)"}


def lazy_getters():
    """census of the property GETTERS of StateVector / Orbit that store something in `_data` on read access, and the cache test of the
    `infos` getter, both read from the AST: 'never' — `not hasattr(self, X)` with X neither an attribute of the class nor the key the
    helper is stored under (always true: a new helper on every access); 'inData' — `K not in self._data` (the stored helper is returned)"""
    import ast
    import re
    found = {}
    test = None
    for fname in ("statevector.py", "orbit.py"):
        tree = ast.parse(open(os.path.join(core.REPO, "beyond", "orbits", fname)).read())
        for cls in tree.body:
            if not (isinstance(cls, ast.ClassDef) and cls.name in ("StateVector", "Orbit")):
                continue
            for f in cls.body:
                if not (isinstance(f, ast.FunctionDef) and any(ast.unparse(d) == "property" for d in f.decorator_list)):
                    continue
                txt = ast.unparse(f)
                if re.search(r"self\._data\[[^\]]+\]\s*=", txt) or ".setdefault(" in txt:
                    found[f.name] = f
    if set(found) != set(LAZY_GETTERS):
        raise RuntimeError(f"getters that store into _data on read access: {sorted(found)}; modelled: {sorted(LAZY_GETTERS)}")
    fn = found["infos"]
    body = [st for st in fn.body if not (isinstance(st, ast.Expr) and isinstance(getattr(st, "value", None), ast.Constant))]
    if not (len(body) == 2 and isinstance(body[0], ast.If) and not body[0].orelse and len(body[0].body) == 1 and isinstance(body[1], ast.Return)):
        raise RuntimeError("infos getter: unexpected shape")
    m = re.fullmatch(r"self\._data\['([^']+)'\] = Infos\(self\)", ast.unparse(body[0].body[0]))
    if not m or ast.unparse(body[1].value) != f"self._data['{m.group(1)}']":
        raise RuntimeError("infos getter: does not store / return an Infos(self) kept in _data")
    key = m.group(1)
    cond = ast.unparse(body[0].test)
    m1 = re.fullmatch(r"not hasattr\(self, '([^']+)'\)", cond)
    m2 = re.fullmatch(rf"'{key}' not in self\._data(?:\.keys\(\))?", cond)
    if m1:
        from beyond.orbits import StateVector, Orbit
        x = m1.group(1)
        if x == key or hasattr(StateVector, x) or hasattr(Orbit, x):
            raise RuntimeError(f"infos getter: the guard `{cond}` tests a name that exists")
        test = "never"
    elif m2:
        test = "inData"
    else:
        raise RuntimeError(f"infos getter: guard `{cond}` is not modelled")
    if key != "infos":
        raise RuntimeError(f"infos getter stores under '{key}'")
    return test


def extract(ctx):
    t = live_tables()
    ctx.tables = t
    t["form_steps"] = form_setter_steps()
    t["infos_test"] = lazy_getters()
    # the same tables read from the source text (AST) as a self-check of the live extraction
    import ast
    src = open(os.path.join(core.REPO, "beyond", "orbits", "forms.py")).read()
    tree = ast.parse(src)
    ast_names = {}
    for node in ast.walk(tree):
        if isinstance(node, ast.Assign) and isinstance(node.value, ast.Call) and getattr(node.value.func, "id", None) == "Form":
            ast_names[ast.literal_eval(node.value.args[0])] = ast.literal_eval(node.value.args[1])
    if ast_names != dict(t["param_names"]):
        raise RuntimeError(f"live Form.param_names differ from the Form(...) literals in forms.py: {ast_names} vs {t['param_names']}")

    def pairs(xs):
        return "[" + ", ".join(f"({_lstr(a)}, {_lstr(b)})" for a, b in xs) + "]"
    out = ["/- GENERATED by harness/props/C15.py from the live objects of beyond.orbits.forms / beyond.frames.frames — do not edit -/",
           "namespace BeyondVerif.Generated.FormTables",
           "/-- `forms._cache`: accepted form name ↦ name of the Form object -/",
           f"def formKeys : List (String × String) := {pairs(t['form_keys'])}",
           "/-- `Form.param_names` of every Form object -/",
           "def paramNames : List (String × List String) := [" + ", ".join(f"({_lstr(n)}, [" + ", ".join(map(_lstr, ps)) + "])" for n, ps in t["param_names"]) + "]",
           "/-- `Form.alt`: alias ↦ element name -/",
           f"def alt : List (String × String) := {pairs(t['alt'])}",
           "/-- `forms._cache_param_names` (sorted) -/",
           "def cacheParamNames : List String := [" + ", ".join(map(_lstr, t["cache"])) + "]",
           "/-- names that are properties of StateVector / Orbit (handled by their setters, not by the name tables) -/",
           "def propertyNames : List String := [" + ", ".join(map(_lstr, t["props"])) + "]",
           "/-- built-in Earth-centred frames: registry key ↦ `Frame.name` -/",
           f"def frameKeys : List (String × String) := {pairs(t['frame_keys'])}",
           "def hillKeys : List String := [" + ", ".join(map(_lstr, t["hill_keys"])) + "]",
           "/-- the Hill frame(s) of the registry: registry key, `Frame.name`, orientation (a plain string for this class) -/",
           "def hillFrames : List (String × String × String) := [" + ", ".join(f"({_lstr(k)}, {_lstr(n)}, {_lstr(o)})" for k, n, o in t["hill_frames"]) + "]",
           "/-- effects of `StateVector.form.fset` in source order, read from the AST of beyond/orbits/statevector.py (convert = the Form object / a conversion function is called: computed on a copy, may raise; "
           "store = written into the object's buffer; commit = `self._data[\"form\"] = …`; a loop body appears twice) -/",
           "def formSetterSteps : List String := [" + ", ".join(map(_lstr, t["form_steps"])) + "]",
           "/-- the cache test of the `infos` getter read from the AST: never = `not hasattr(self, <no attribute>)` (a new helper on every access), inData = `\"infos\" not in self._data` (the stored helper is handed out); "
           "the getters that store into `_data` on read access are exactly cov, maneuvers, infos (checked) -/",
           f"def infosCacheTest : String := {_lstr(t['infos_test'])}",
           "end BeyondVerif.Generated.FormTables"]
    ch = core.write_if_changed(os.path.join(core.LEAN, "BeyondVerif", "Generated", "HeapTables.lean"), "\n".join(out) + "\n")
    return ["Generated/HeapTables.lean"] if ch else []


# ---------------------------------------------------------------- correspondence: real objects vs the heap model

STR_TOK = {"sat": 1, "a": 2, "b": 3, "x": 6}
ERR_KINDS = [("UnknownFormError", "unknown-form"), ("UnknownFrameError", "unknown-frame"), ("EopError", "eop"), ("IndexError", "index"), ("RuntimeError", "runtime"),
             ("ValueError", "value"), ("TypeError", "type"), ("AttributeError", "attr"), ("KeyError", "attr")]


def err_kind(e):
    for cls in type(e).__mro__:
        for name, kind in ERR_KINDS:
            if cls.__name__ == name:
                return kind
    return "other:" + type(e).__name__


class Real:
    """runs the operations of one request line on real objects and dumps them like Drv/C15.lean does"""

    def __init__(self):
        self.vars = []
        self.ext = []       # arrays handed to constructors: nothing built from them may live in their memory
        self.init = {}      # k -> bytes of the initial coordinate / covariance values
        self.dates = {}     # k -> Date
        self.datekey = {}

    def new(self, k, orbit, form, frame, meta, nmans, cov, covframe):
        import numpy as np
        spec = {"kep": self.kep[k], "form": form, "frame": frame, "orbit": orbit, "cov": False, "mans": nmans, "meta": int(meta), "dt": 60 * k}
        sv = make_state(None, spec)
        self.init[k] = np.asarray(sv).tobytes()
        self.dates[k] = sv._data["date"]
        self.datekey[(sv._data["date"]._d, sv._data["date"]._s)] = 100 + k
        self.vars.append(sv)
        if cov:
            self.setcov(len(self.vars) - 1, 1000 + k)
            if covframe != "-":
                sv.cov.frame = covframe

    def setcov(self, i, k):
        import numpy as np
        from beyond.orbits.cov import Cov
        sv = self.vars[i]
        vals = np.diag([1.0e4, 2.0e4, 3.0e4, 1.0e-2, 2.0e-2, 3.0e-2]) * (1 + (k % 7))
        vals[0, 1] = vals[1, 0] = 12.5
        self.init[k] = np.array(vals).tobytes()
        self.ext.append(vals)
        sv.cov = Cov(sv, vals, sv.frame)

    def run(self, op):
        """status of one operation; whatever the library does (raise, not return) is the outcome of this operation"""
        try:
            with guard(1.0):
                return self._run(op)
        except Hang:
            return "hang"
        except Exception as e:
            return err_kind(e)

    def _run(self, op):
        from beyond.propagators.kepler import Kepler
        from beyond.orbits.man import ImpulsiveMan
        from beyond.orbits.cov import Cov
        from beyond.orbits import StateVector, Orbit
        v = self.vars
        name, a = op[0], op[1:]
        if name == "new":
            self.new(int(a[0]), a[1] == "1", a[2], a[3], int(a[4]), int(a[5]), a[6] == "1", a[7])
        elif name == "copy":
            v.append(v[int(a[0])].copy())
        elif name == "copyf":
            v.append(v[int(a[0])].copy(form=a[1]))
        elif name == "copyfr":
            v.append(v[int(a[0])].copy(frame=a[1]))
        elif name == "aso":
            v.append(v[int(a[0])].as_orbit(Kepler()))
        elif name == "assv":
            v.append(v[int(a[0])].as_statevector())
        elif name == "ctor":     # the constructor given an existing state vector as coordinates
            src = v[int(a[0])]
            v.append(Orbit(src, src.date, src.form, src.frame, Kepler()) if a[1] == "1" else StateVector(src, src.date, src.form, src.frame))
        elif name == "setf":
            v[int(a[0])].form = a[1]
        elif name == "setfx":    # a form change one leg of whose route raises
            with failing_leg(a[2]):
                v[int(a[0])].form = a[1]
        elif name == "xform":    # Frame.transform called directly: a method that returns a new state object
            from beyond.frames.frames import get_frame
            sv = v[int(a[0])]
            v.append(sv.frame.transform(sv, get_frame(a[1])))
        elif name == "setfr":
            v[int(a[0])].frame = a[1]
        elif name == "setfrx":   # a frame assignment made to fail by the environment
            if a[2] == "iso":
                with isolated_frame(a[1]) as nm:
                    v[int(a[0])].frame = nm
            else:
                with eop_error_policy():
                    v[int(a[0])].frame = a[1]
        elif name == "seta":
            if int(a[2]) % 2:
                setattr(v[int(a[0])], a[1], int(a[2]))
            else:
                v[int(a[0])][a[1]] = int(a[2])
        elif name == "seti":
            v[int(a[0])][int(a[1])] = int(a[2])
        elif name == "covfr":
            v[int(a[0])].cov.frame = a[1]
        elif name == "readinfos":  # a read of the helper object the `infos` getter creates and keeps in _data
            v[int(a[0])].infos
        elif name == "readman":  # a mere look at the maneuvers: the getter creates the list
            bool(v[int(a[0])].maneuvers)
        elif name == "addman":
            sv = v[int(a[0])]
            sv.maneuvers.append(ImpulsiveMan(sv._data["date"], [1.0, 0.0, 0.0], comment=f"m{a[1]}"))
        elif name == "lappend":  # in-place changes of free metadata containers, through the public attribute access
            getattr(v[int(a[0])], a[1]).append(int(a[2]))
        elif name == "dset":
            getattr(v[int(a[0])], a[1])["w"] = int(a[2])
        elif name == "nappend":
            v[int(a[0])].nested["k"].append(int(a[1]))
        elif name == "aset":
            v[int(a[0])].arr[0] = 0.5
        elif name == "setcov":
            self.setcov(int(a[0]), int(a[1]))
        elif name == "covfrom":  # the constructor branch `values is a Cov`: takes the values and the frame of the source
            sv = v[int(a[0])]
            sv.cov = Cov(sv, v[int(a[1])].cov, None)
        elif name == "pickle":
            v.append(pickle.loads(pickle.dumps(v[int(a[0])])))
        elif name == "dcopy":    # the standard library's deep copy (open finding: falls through to ndarray.__deepcopy__)
            import copy
            v.append(copy.deepcopy(v[int(a[0])]))
        else:
            return "bad-op"
        return "ok"

    def dump(self):
        """(structure string with '$' for buffer contents, list of buffer contents, list of problems)"""
        import numpy as np
        from beyond.orbits import StateVector, Orbit
        from beyond.orbits.cov import Cov
        from beyond.orbits.man import Man
        from beyond.orbits.forms import Form
        from beyond.frames.frames import Frame
        from beyond.dates import Date
        from beyond.propagators.base import Propagator
        from beyond.frames import frames as _frames
        from beyond.orbits.statevector import Infos
        seen, vals, problems, keep = {}, [], [], []
        clones = {}
        helpers = {}

        def mem_root(arr):
            """the object that owns the memory an array lives in (a view, or an array built on the buffer of another, is not its own owner)"""
            while isinstance(arr.base, np.ndarray):
                arr = arr.base
            return arr if arr.base is None else arr.base

        def frame_str(x):
            """registry objects by name; clones (pickle / deepcopy make new Frame objects, compared by identity) numbered by first visit"""
            hill = type(x).__name__ == "HillFrame"
            name = "Hill" if hill else x.name
            if _frames.dynamic.get("Hill" if hill else x.name) is x:
                return name
            keep.append(x)
            return f"{name}'{clones.setdefault(id(x), len(clones) + 1)}"

        ext_roots = {id(mem_root(e)) for e in self.ext}

        def ident(key, obj):
            keep.append(obj)
            if isinstance(key, tuple) and key[0] == "mem" and key[1] in ext_roots:
                problems.append("a buffer lives in the memory of the array handed to the constructor")
            if key in seen:
                return None, f"#{seen[key]}"
            seen[key] = sum(1 for v in seen.values() if v >= 0)
            return seen[key], None

        def ref(x):
            if x is None:
                return "~"
            if isinstance(x, bool):
                return f"t{int(x)}"
            if isinstance(x, int):
                return f"t{x}"
            if isinstance(x, str):
                return f"t{STR_TOK.get(x, 999)}"
            if isinstance(x, Date):
                return f"t{self.datekey.get((x._d, x._s), 998)}"
            if isinstance(x, Form):
                return f"f:{x.name}"
            if isinstance(x, Frame):
                return f"F:{frame_str(x)}"
            if isinstance(x, StateVector):
                i, back = ident(id(x), x)
                if back:
                    return back
                root = mem_root(x)
                bi, bback = ident(("mem", id(root)), root)
                if bback:
                    sb = bback
                else:
                    sb = f"B{bi}=<$>"
                    vals.append(np.asarray(x).tobytes())
                return f"S{i}({'O' if isinstance(x, Orbit) else 'V'},{sb},{ref(x._data)})"
            if isinstance(x, Cov):
                i, back = ident(id(x), x)
                if back:
                    return back
                dd = x.__dict__.get("_data")
                if dd is None:
                    vals.append(np.asarray(x).tobytes())
                    return f"C{i}(!,<$>)"
                root = mem_root(x)
                bi, bback = ident(("mem", id(root)), root)      # the 6x6 buffer: a cell of its own, numbered like every other
                if bback:
                    sb = bback
                else:
                    sb = f"B{bi}=<$>"
                    vals.append(np.asarray(x).tobytes())
                for key, part in ((("covpart", id(dd)), dd), (("covpart", id(x.__dict__)), x.__dict__)):
                    if key in seen or id(part) in seen:
                        problems.append("a covariance shares its _data / __dict__ with another object")
                    seen[key] = -1
                    keep.append(part)
                fr = dd["frame"]
                of = x.__dict__.get("_orb_frame")
                frs = fr if isinstance(fr, str) else frame_str(fr)
                ofs = frame_str(of)
                return f"C{i}({sb},{frs},{ofs},{ref(dd['orb'])})"
            if isinstance(x, Infos):
                keep.append(x)
                return f"I{helpers.setdefault(id(x), len(helpers) + 1)}@{ref(x.orb)}"
            if isinstance(x, Man):
                i, back = ident(id(x), x)
                return back or f"M{i}={x.comment[1:]}"
            if isinstance(x, Propagator):
                i, back = ident(id(x), x)
                return back or f"P{i}"
            if isinstance(x, np.ndarray):
                i, back = ident(("mem", id(mem_root(x))), x)
                return back or f"A{i}={7 if x.tobytes() == np.arange(3.0).tobytes() else 0}"
            if isinstance(x, list):
                i, back = ident(id(x), x)
                return back or f"L{i}[" + ",".join(ref(y) for y in x) + "]"
            if isinstance(x, dict):
                i, back = ident(id(x), x)
                if back:
                    return back
                items = [(k, y) for k, y in sorted(x.items()) if not (k == "cov" and y is None)]
                return f"D{i}{{" + ",".join(f"{k}={ref(y)}" for k, y in items) + "}"
            return f"?{type(x).__name__}"
        s = " ".join(ref(x) for x in self.vars)
        return s, vals, problems


def parse_val(s):
    """'c(f,g,i0)' -> ('c', 'f', 'g', ('i', 0))"""
    pos = 0

    def term():
        nonlocal pos
        j = pos
        while pos < len(s) and s[pos] not in "(),":
            pos += 1
        head = s[j:pos]
        if pos < len(s) and s[pos] == "(":
            args = []
            pos += 1
            while True:
                args.append(term())
                if s[pos] == ",":
                    pos += 1
                else:
                    pos += 1   # ')'
                    break
            return (head,) + tuple(args)
        return head
    return term()


class Evaluator:
    """evaluates a symbolic value of the model with the pure conversion functions of the library"""

    def __init__(self, real):
        self.real = real
        self.cache = {}

    def date_of(self, t):
        if isinstance(t, str):
            return self.real.dates.get(int(t[1:])) if t.startswith("i") else None
        return self.date_of(t[-1])

    def ev(self, t):
        import numpy as np
        from beyond.orbits import StateVector
        from beyond.orbits.forms import get_form
        from beyond.frames.frames import get_frame
        key = repr(t)
        if key in self.cache:
            return self.cache[key]
        res = None
        if isinstance(t, str):
            if t.startswith("i"):
                res = self.real.init.get(int(t[1:]))
        elif t[0] == "c":
            v = self.ev(t[3])
            if v is not None:
                tmp = StateVector(np.frombuffer(v), self.date_of(t), t[1], "EME2000")
                res = np.array(get_form(t[1])(tmp, t[2]), dtype=float).tobytes()
        elif t[0] == "x":
            v = self.ev(t[3])
            if v is not None:
                tmp = StateVector(np.frombuffer(v), self.date_of(t), "cartesian", t[1])
                res = np.array(get_frame(t[1]).transform(tmp, get_frame(t[2])), dtype=float).tobytes()
        elif t[0] == "s":
            v = self.ev(t[4])
            if v is not None:
                arr = np.frombuffer(v).copy()
                arr[int(t[2])] = float(int(t[3]))
                res = arr.tobytes()
        self.cache[key] = res
        return res


import re
_VAL = re.compile(r"<([^<>]*)>")


def run_case(ops, kep):
    """returns (list of per-op (status, struct, vals, problems)) from the real code"""
    real = Real()
    real.kep = kep
    res = []
    for op in ops:
        status = real.run(op)
        s, vals, problems = real.dump()
        res.append((status, s, vals, problems))
    return real, res


def compare_case(ops, kep, reply):
    """None when model and implementation agree, else (what, observed, expected)"""
    real, res = run_case(ops, kep)
    parts = reply.split(" || ")
    if len(parts) != len(ops):
        return ("model refused the request", reply[:200], None)
    evl = Evaluator(real)
    bits = {}
    import numpy as np
    if any(not np.all(np.isfinite(np.frombuffer(b))) for _, _, vals, _ in res for b in vals):
        return "degenerate"   # NaN elements (state hyperbolic relative to a rotating frame in tle form, ...): conversions of NaN are not compared
    for n, (op, (status, s, vals, problems), part) in enumerate(zip(ops, res, parts)):
        mstatus, _, mdump = part.partition(" ")
        if problems:
            return (f"op {n} {' '.join(op)}: {problems[0]}", problems, None)
        if mstatus != status:
            return (f"op {n} {' '.join(op)}: outcome differs", status, mstatus)
        mvals = _VAL.findall(mdump)
        mstruct = _VAL.sub("<$>", mdump)
        if mstruct != s:
            return (f"op {n} {' '.join(op)}: object graph (structure / sharing / labels) differs", s, mstruct)
        if len(mvals) != len(vals):
            return (f"op {n}: number of buffers differs", len(vals), len(mvals))
        for expr, b in zip(mvals, vals):
            if bits.setdefault(expr, b) != b:
                return (f"op {n} {' '.join(op)}: two buffers with the same model value {expr} hold different numbers", None, expr)
            want = evl.ev(parse_val(expr))
            if want is not None and want != b:
                import numpy as np
                return (f"op {n} {' '.join(op)}: buffer content differs from the pure evaluation of {expr}",
                        list(map(float, np.frombuffer(b))), list(map(float, np.frombuffer(want))))
    return None


SET_NAMES = ["x", "vz", "a", "e", "i", "raan", "Omega", "Ω", "omega", "nu", "ν", "theta", "θ", "r", "M", "ex", "aol", "alpha", "l", "n",
             "label", "note", "r_dot", "theta_dot", "phi"]


META_KEYS = ["tags", "nested", "name", "arr", "zz"]
OP_WEIGHTS = [("copy", 12), ("copyf", 9), ("copyfr", 10), ("aso", 7), ("assv", 5), ("ctor", 3), ("setf", 7), ("setfx", 5), ("xform", 6), ("setfr", 11), ("setfrx", 4), ("seta", 5), ("seti", 3),
              ("covfr", 5), ("readman", 5), ("readinfos", 7), ("addman", 5), ("lappend", 4), ("dset", 3), ("nappend", 3), ("aset", 2), ("setcov", 3), ("covfrom", 5), ("pickle", 5)]


def rand_ops(rng, maxlen=6, dcopy=True):
    """dcopy: also draw `copy.deepcopy(sv)` (since /repo fd4f2bf a full copy: judged by the history oracle like every other one)"""
    ops = []
    nvars = 0
    nnew = rng.choice([1, 1, 2])
    for k in range(nnew):
        ops.append(["new", str(k), str(int(rng.random() < 0.4)), rng.choice(FORMS), rng.choice(FRAMES + ["Hill"] * (rng.random() < 0.1)),
                    str(rng.choice([0, 1, 1, 2, 3])), str(rng.choice([0, 0, 1, 2])), str(int(rng.random() < 0.5)), rng.choice(["-", "-", "TNW", "QSW", "ITRF"])])
        nvars += 1
    est = nvars   # upper bound of the number of variables; the model and the code agree on failures, so indices stay valid on both sides
    names, weights = zip(*OP_WEIGHTS)
    for _ in range(rng.randint(1, maxlen)):
        i = str(rng.randrange(est))
        form = rng.choice(FORMS + ["circular", "mean", "no_such_form"] if rng.random() < 0.2 else FORMS)
        frame = rng.choice(FRAMES + ["WGS84", "NoSuchFrame", "Hill"] if rng.random() < 0.3 else FRAMES)
        name = rng.choices(names, weights)[0]
        if dcopy and rng.random() < 0.04:
            name = "dcopy"
        if name in ("copy", "aso", "assv", "readman", "readinfos", "pickle", "dcopy"):
            op = [name, i]
        elif name in ("copyf", "setf"):
            op = [name, i, form]
        elif name in ("copyfr", "setfr"):
            op = [name, i, frame]
        elif name == "setfx":
            op = [name, i, rng.choice(FORMS), "?", str(rng.randrange(6))]     # the failing leg is fixed by the dry run (resolve_indices)
        elif name == "xform":
            op = [name, i, rng.choice(FRAMES + ["Hill"] * (rng.random() < 0.1))]
        elif name == "ctor":
            op = [name, i, str(int(rng.random() < 0.4))]
        elif name == "setfrx":
            # under the 'error' policy only the rotations that need the time-scale offsets of the date raise; every path to
            # (or from) EME2000 does, so the EOP failure is asked for with that target (from EME2000 itself: nothing to do)
            # `eopc`: any target; what raises then is decided rotation by rotation (only PEF <-> ITRF, the polar motion read from the
            # values cached on the Date, works), so that the covariance of a state moved since it was attached fails AFTER the state
            mode = rng.choice(["iso", "eop", "eopc"])
            op = [name, i, rng.choice(FRAMES) if mode == "iso" else ("EME2000" if mode == "eop" else rng.choice(FRAMES + ["ITRF", "PEF"] * 3)), mode]
        elif name == "seta":
            op = [name, i, rng.choice(SET_NAMES), str(rng.randrange(10, 90))]
        elif name == "seti":
            op = [name, i, str(rng.randrange(6)), str(rng.randrange(10, 90))]
        elif name == "covfr":
            op = [name, i, rng.choice(FRAMES + ["TNW", "QSW", "NoSuchFrame"])]
        elif name in ("addman", "nappend", "aset"):
            op = [name, i, str(rng.randrange(10, 90))]
        elif name == "lappend":
            op = [name, i, rng.choice(META_KEYS), str(rng.randrange(10, 90))]
        elif name == "dset":
            op = [name, i, rng.choice([k for k in META_KEYS if k != "arr"]), str(rng.randrange(10, 90))]
        elif name == "setcov":
            op = [name, i, str(rng.randrange(2000, 2100))]
        elif name == "covfrom":
            op = [name, i, str(rng.randrange(est))]
        ops.append(op)
        est += 1
    return ops


def correspondence(ctx):
    out = Outcome()
    rng = ctx.rng
    # 1. name resolution, exhaustive: every form x every name / alias / a free key
    t = getattr(ctx, "tables", None) or live_tables()
    names = sorted(set(t["cache"]) | {a for a, _ in t["alt"]} | {"label", "foo"})
    lines, keys = [], []
    for form, _ in t["param_names"]:
        for nm in names:
            lines.append(f"access {form} {nm}")
            keys.append((form, nm))
    replies = core.Driver().run(lines)
    for (form, nm), m in zip(keys, replies):
        real = real_access(form, nm)
        out.count(key=("access", form, nm), kind="access", nontrivial=real != "free")
        if real != m:
            out.fail("access-table", "name resolution differs between the model and StateVector.__getattr__/__setattr__", {"form": form, "name": nm}, observed=real, expected=m)
    out.sample({"line": lines[0], "reply": replies[0]})
    # 2. operation sequences
    cases = []
    for _ in range(ctx.n(1200, 20000)):
        ops = rand_ops(rng, dcopy=True)
        kep = [rand_coord(rng) for _ in range(2)]
        cases.append((ops, kep))
    # directed: a covariance attached in one frame, the state moved (covariance following), then under the EOP 'error' policy an assignment
    # whose state step works and whose covariance step cannot (PEF <-> ITRF), and what the object is worth afterwards
    for _ in range(ctx.n(40, 400)):
        via, tgt = rng.choice([("PEF", "ITRF"), ("ITRF", "PEF")])
        ops = [["new", "0", str(int(rng.random() < 0.4)), rng.choice(FORMS), rng.choice([f for f in FRAMES if f != via]), str(rng.choice([0, 1, 3])), str(rng.choice([0, 1])), "1", "-"],
               ["setfr", "0", via], ["setfrx", "0", tgt, "eopc"]]
        ops += rng.choice([[], [["setfr", "0", rng.choice(FRAMES)]], [["copy", "0"], ["setfr", "1", rng.choice(FRAMES)]], [["covfr", "0", rng.choice(FRAMES)]]])
        cases.append((ops, [rand_coord(rng) for _ in range(2)]))
    cases = [(resolve_indices(ops, kep), kep) for ops, kep in cases]
    replies = core.Driver().run(["heap " + " ; ".join(" ".join(op) for op in ops) for ops, _ in cases])
    for (ops, kep), m in zip(cases, replies):
        d = compare_case(ops, kep, m)
        kinds = sorted({op[0] for op in ops})
        out.count(key=tuple(tuple(o) for o in ops), nontrivial=len(ops) >= 2, kind="sequence", length=len(ops))
        for kd in kinds:
            out.tally(f"op={kd}")
        for part in m.split(" || "):
            out.tally("status=" + part.split(" ")[0])
        if d == "degenerate":
            out.tally("skipped=non-finite-values")
            continue
        if d is not None:
            out.fail("heap-sequence", d[0], {"ops": ops, "kep": kep}, observed=str(d[1])[:600], expected=str(d[2])[:600])
        out.sample({"line": "heap " + " ; ".join(" ".join(op) for op in ops), "reply": m[:200]}, limit=3)
    # 3. the frame registry: events, dumps, loads and look-ups interleaved, real registry / real state vectors vs PickleReg.St.step
    fcases = [rand_freg(rng) for _ in range(ctx.n(150, 3000))]
    runs = [run_freg(c) for c in fcases]
    replies = core.Driver().run([ln for ln, _ in runs])
    for cmds, (ln, outs), m in zip(fcases, runs, replies):
        out.count(key=tuple(tuple(c) for c in cmds), kind="registry-sequence", length=len(cmds), nontrivial=any(c[0] == "load" for c in cmds))
        for c in cmds:
            out.tally(f"freg={c[0]}" + (f":{c[1]}" if c[0] == "build" else ""))
        exp = [x for x in m.split(" | ") if x] if m else []
        if exp != outs:
            k = next((i for i, (a, b) in enumerate(zip(outs, exp)) if a != b), min(len(outs), len(exp)))
            asked = [c for c in cmds if c[0] in ("load", "get")]
            out.fail("frame-registry", f"reply {k} ({' '.join(asked[k]) if k < len(asked) else '?'}) differs between the real registry / pickle and the model", {"freg": cmds},
                     observed=" | ".join(outs)[:600], expected=m[:600])
        out.sample({"line": ln, "reply": m[:200]}, limit=2)
    return out


FREG_NAMES = ["C15LabA", "C15LabB"]
FREG_KEYS = FREG_NAMES + ["Hill", "HillQSW", "HillTNW", "WGS84", "ITRF", "EME2000", "G50"]


def rand_freg(rng, maxlen=9):
    """registry events interleaved with dumps / loads of a state vector and with get_frame: every kind of frame, two user names (so that
    a name is taken over again and again), the Hill key, names dropped"""
    cmds, nbuilt, nblobs = [], 0, 0
    for _ in range(rng.randint(3, maxlen)):
        c = rng.choices(["build", "drop", "dump", "load", "get"], [5, 2, 4, 5, 3])[0]
        if c == "build" or (c in ("dump", "load") and not nbuilt):
            cmds.append(["build", rng.choice(FRAME_KINDS), rng.choice(FREG_NAMES), str(rng.randrange(1000))])
            nbuilt += 1
        elif c == "drop":
            cmds.append(["drop", rng.choice(FREG_NAMES + ["Hill"])])
        elif c == "dump" or not nblobs and c == "load":
            cmds.append(["dump", str(rng.randrange(nbuilt))])
            nblobs += 1
        elif c == "load":
            cmds.append(["load", str(rng.randrange(nblobs))])
        else:
            cmds.append(["get", rng.choice(FREG_KEYS)])
    return cmds


def frame_tokens(fr):
    d = frame_desc(fr)
    return [str(d[0]), str(d[1]), str(d[3]), str(d[6])]


def run_freg(cmds):
    """the commands on the real registry and real state vectors -> (request line for the model, list of replies)"""
    from beyond.dates import Date
    from beyond.frames import frames
    from beyond.orbits import StateVector
    line, outs, built, blobs = [], [], [], []
    with frame_world(None) as w:
        for c in cmds:
            if c[0] == "build":
                fr = w.build(c[1], c[2], int(c[3]))
                built.append(fr)
                line.append("build " + " ".join(frame_tokens(fr)))     # the model is told what was built, not what becomes of it
                continue
            line.append(" ".join(c))
            if c[0] == "drop":
                frames.dynamic.pop(c[1], None)
            elif c[0] == "dump":
                sv = StateVector([7.0e6, 1.0e5, -2.0e5, 10.0, 7.5e3, 3.0e2], Date(2020, 3, 1), "cartesian", built[int(c[1])], name="sat")
                blobs.append(pickle.dumps(sv))
            elif c[0] == "load":
                how, back = attempt(lambda: pickle.loads(blobs[int(c[1])]), 5.0)
                outs.append(",".join(frame_tokens(back._data["frame"])) if how == "ok" else err_kind(back))
            elif c[0] == "get":
                how, fr = attempt(lambda: frames.get_frame(c[1]), 5.0)
                outs.append(",".join(frame_tokens(fr)) if how == "ok" else err_kind(fr))
    return "freg " + " ; ".join(line), outs


def resolve_indices(ops, kep):
    """dry run on the real code: reduce every variable index modulo the number of live variables at that point"""
    real = Real()
    real.kep = kep
    fixed = []
    for op in ops:
        op = list(op)
        if op[0] != "new":
            op[1] = str(int(op[1]) % max(1, len(real.vars))) if real.vars else "0"
            if op[0] == "covfrom":
                op[2] = str(int(op[2]) % max(1, len(real.vars))) if real.vars else "0"
            if op[0] == "setfx":
                # leg k (mod the number of legs) of the route from the form the object is in at that point; no leg: a plain assignment
                legs = route_legs(real.vars[int(op[1])]._data["form"].name, op[2]) if real.vars else []
                if legs:
                    k = int(op[4]) % len(legs)
                    op = [op[0], op[1], op[2], legs[k], str(k)]
                else:
                    op = ["setf", op[1], op[2]]
        real.run(op)
        fixed.append(op)
    return fixed


def real_access(form, name):
    """what the real object does with `name` in form `form`: 'slot i' | 'foreign' | 'free'"""
    import numpy as np
    from beyond.dates import Date
    from beyond.orbits import StateVector
    sv = StateVector([1.0, 2.0, 3.0, 4.0, 5.0, 6.0], Date(2020, 1, 1), form, "EME2000")
    try:
        setattr(sv, name, 77.0)
    except AttributeError:
        try:
            sv[name]
        except KeyError:
            return "foreign"
        return "inconsistent"
    hit = [i for i in range(6) if float(np.asarray(sv)[i]) == 77.0]
    if name in sv._data:
        return "free" if not hit else "inconsistent"
    if len(hit) == 1 and float(getattr(sv, name)) == 77.0 and float(sv[name]) == 77.0:
        return f"slot {hit[0]}"
    return "inconsistent"
