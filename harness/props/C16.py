"""C16 — Clohessy-Wiltshire propagation solves Hill's equations."""
import ast
import math
import os

from harness import core, py2lean, instantiate
from harness.core import Outcome, f2b, b2f

ID = "C16"
LEAN_TARGETS = ["BeyondVerif.Props.C16", "BeyondVerif.Props.C16Helpers", "BeyondVerif.Props.C16Seq", "BeyondVerif.Props.C16HelperSrc", "BeyondVerif.Props.C16Lin", "BeyondVerif.Props.C16Src", "BeyondVerif.Props.C16Frames", "BeyondVerif.Witness.C16"]
THEOREMS = [
    "BeyondVerif.C16.cw_zero",
    "BeyondVerif.C16.cw_solves_hill",
    "BeyondVerif.C16.cw_compose",
    "BeyondVerif.C16.cw_inverse",
    "BeyondVerif.C16.tnw_is_permuted_qsw",
    "BeyondVerif.C16.later_maneuvers_ignored",
    "BeyondVerif.C16.impulse_once",
    "BeyondVerif.C16.impulse_jump",
    "BeyondVerif.C16.impulse_already_passed",
    "BeyondVerif.C16.repropagate_composes",
    "BeyondVerif.C16.continuous_during",
    "BeyondVerif.C16.continuous_resumed",
    "BeyondVerif.C16.continuous_already_passed",
    "BeyondVerif.C16.continuous_after",
    "BeyondVerif.C16.state_solves_hill_piecewise_thrust",
    "BeyondVerif.C16.hillSol_initial",
    "BeyondVerif.C16.impulse_term_jump",
    "BeyondVerif.C16.burn_term_joins",
    "BeyondVerif.C16.cwPropagateFixed_eq_hillSol",
    "BeyondVerif.C16.propagate_eq_hillSol_partial",
    "BeyondVerif.C16.noCut_of_outsideBurns",
    "BeyondVerif.C16.noCut_of_chronoDisjoint",
    "BeyondVerif.C16.propagate_backward_eq_hillSol_partial",
    "BeyondVerif.C16.propagate_backward_within_burn",
    "BeyondVerif.C16.propagate_tnw_is_permuted_qsw",
    "BeyondVerif.C16W.impulse_inside_burn_violates",
    "BeyondVerif.C16W.impulse_inside_burn_not_noCut",
    "BeyondVerif.C16W.overlapping_burn_violates",
    "BeyondVerif.C16W.backward_violates",
    "BeyondVerif.C16W.fixed_sequencing_on_the_witnesses",
    "BeyondVerif.C16.coelliptic_drift",
    "BeyondVerif.C16.hohmann_moves",
    "BeyondVerif.C16.hohmann_continuous_moves",
    "BeyondVerif.C16.eccentric_boost_moves",
    "BeyondVerif.C16.tangential_boost_moves",
    "BeyondVerif.C16.vbar_linear_moves",
    "BeyondVerif.C16.eccentric_boost_continuous_moves",
    "BeyondVerif.C16.period_formula",
    "BeyondVerif.C16.hohmann_distance_formula",
    "BeyondVerif.C16.coelliptic_formula",
    "BeyondVerif.C16.coelliptic_tnw",
    "BeyondVerif.C16.hohmann_formula",
    "BeyondVerif.C16.hohmann_continuous_formula",
    "BeyondVerif.C16.hohmann_tnw",
    "BeyondVerif.C16.eccentric_boost_formula",
    "BeyondVerif.C16.eccentric_boost_continuous_formula",
    "BeyondVerif.C16.eccentric_boost_tnw",
    "BeyondVerif.C16.tangential_boost_formula",
    "BeyondVerif.C16.tangential_boost_tnw",
    "BeyondVerif.C16.vbar_linear_formula",
    "BeyondVerif.C16.vbar_linear_tnw",
    "BeyondVerif.C16.hohmann_end_to_end",
    "BeyondVerif.C16.hohmann_continuous_end_to_end",
    "BeyondVerif.C16.eccentric_boost_end_to_end",
    "BeyondVerif.C16.eccentric_boost_continuous_end_to_end",
    "BeyondVerif.C16.tangential_boost_end_to_end",
    "BeyondVerif.C16.vbar_linear_end_to_end",
    "BeyondVerif.C16.hohmann_end_to_end_tnw",
    "BeyondVerif.C16.eccentric_boost_end_to_end_tnw",
    "BeyondVerif.C16.tangential_boost_end_to_end_tnw",
    "BeyondVerif.C16.vbar_linear_end_to_end_tnw",
    "BeyondVerif.C16.relAcc_zero",
    "BeyondVerif.C16.relAcc_linearisation",
    "BeyondVerif.C16.hillRhs_position_block",
    "BeyondVerif.C16.imp_test_from_source",
    "BeyondVerif.C16.cont_test_from_source",
    "BeyondVerif.C16.cont_coast_from_source",
    "BeyondVerif.C16.cont_check_from_source",
    "BeyondVerif.C16.man_window_from_source",
    "BeyondVerif.C16.window_independent_of_date_pos",
    "BeyondVerif.C16.meanMotion_kepler3",
    "BeyondVerif.C16.n_stable_run",
    "BeyondVerif.C16.tnw_stable_run",
    "BeyondVerif.C16.propagate_stable_run",
    "BeyondVerif.C16.n_newProp",
    "BeyondVerif.C16.n_copy",
    "BeyondVerif.C16.readMemo_eq_current_partial",
    "BeyondVerif.C16.readMemo_idempotent",
    "BeyondVerif.C16.copy_read_current",
    "BeyondVerif.C16.readFixed_after_write",
    "BeyondVerif.C16W.memo_stale_after_write",
]
LEVEL_TEXT = ("Lean theorems over R about the evolution and acceleration matrices translated from cw.py on every run: the propagated state has, "
              "component by component, the derivative prescribed by Hill's equations with constant thrust (HasDerivAt, all t, all n != 0), "
              "composition and inverse hold exactly, TNW is the axis permutation of QSW (single step and the whole of propagate with any maneuver list), "
              "an impulse adds exactly dv once at its date. Maneuver sequencing: the reference solution hillSol (one term per maneuver, order-independent, "
              "defined before and after the orbit's date) is proved to solve Hill's equations forced by the SUM of the active thrusts with the jumps at the "
              "impulse dates, for every list (any order, overlapping or not) and every date (state_solves_hill_piecewise_thrust, hillSol_initial, "
              "impulse_term_jump, burn_term_joins); the sequencing of the current code equals it exactly under NoCut (forwards) / Clear (backwards), "
              "kernel-checked counter-witnesses outside; the sequencing of the proposed fix equals it unconditionally. The sequencing model is hand-written and "
              "tied by a differential correspondence run against ClohessyWiltshire.propagate (first and second leg). The rendezvous helper is translated from "
              "cwhelper.py on every run: its maneuvers are proved to be the ones the outcome theorems start from, its TNW results the permutation of the QSW ones, "
              "and each helper's own list is run end to end through the model of propagate. Mean motion: `meanMotionSrc` is translated from ClohessyWiltshire.n on every run "
              "(n^2 a^3 = mu, n > 0: meanMotion_kepler3); the object model World (Hill frames and propagators of one process, memo-free) proves that mean motion, orientation and every "
              "propagated state of a propagator are functions of its own frame's centre and its own semi major axis, unchanged by any later creation of frames / propagators, copy or read "
              "(n_stable_run, tnw_stable_run, propagate_stable_run, n_newProp, n_copy); tied by the correspondence run `world` (random histories on the real classes).")
LEVEL_NOTE = ("R -> double gap covered only by tolerance-bounded correspondence; uniqueness of the solution of the linear ODE is not formalised (hillSol is shown to BE a "
              "piecewise solution with the right initial value, jumps and joins; that there is no other is the classical Picard-Lindelof fact); second-order agreement with "
              "nonlinear relative motion is not covered by any theorem; Lean kernel + propext/Classical.choice/Quot.sound; py2lean translator, the cwhelper translator of "
              "this module and the harness are trusted")
TECHNIQUE = "Lean 4 proof (HasDerivAt / ring identities / induction over maneuver lists) over matrices and helper formulas regenerated from the Python AST; differential correspondence for sequencing; independent numerical integration of Hill's equations as oracle"
TRUSTED = [
    "harness/py2lean.py: translates the evol_mat / accel_mat literals of ClohessyWiltshire._propagate into Generated/CWMat{F,R}.lean on every run",
    "harness/props/C16.py HelperTr: translates the method bodies of beyond/utils/cwhelper.py into Generated/CWHelper{F,R}.lean on every run (ImpulsiveMan / ContinuousMan constructor semantics quoted from man.py: start = date, stop = start + duration, accel = dv / duration); tied by the correspondence run helper-translated",
    "lean/templates/CW.tpl (hand-written maneuver sequencing cwPropagate, TNW rotation, reference solution hillSol), tied by the correspondence run (cw, cw0 second leg; cwref / cwfix against the independent integration)",
    "harness/props/C16.py translate_sequencing_source: reads the tests of the maneuver loop of ClohessyWiltshire.propagate (which of man.date / man.start / man.stop is compared, guards `if ...: continue` included), "
    "the coast target, ContinuousMan.check and the (date, duration, date_pos) -> (start, stop) window of ContinuousMan.__init__ into Generated/CWSeqSrc{F,R}.lean on every run; Props/C16Src.lean proves them equal to what cwPropagate uses",
    "lean/templates/CWFrames.tpl (hand-written object model of HillFrame / ClohessyWiltshire construction, frame=\"Hill\" resolution to the frame created last, copy), tied by the correspondence run `world`; "
    "harness/props/C16.py translate_mean_motion: ClohessyWiltshire.n -> Generated/CWMean{F,R}.lean and the AST checks of ClohessyWiltshire.__init__ / copy and HillFrame.__init__ (store what they are given)",
    "numpy / libm double arithmetic vs R: tolerance 1e-9 relative",
]
ASSUMPTIONS = ["the gravitational parameter of a centre (Center.body.mu) does not change during a process",
               "maneuvers are given in the frame of the orbit (frame=None); QSW/TNW-tagged maneuvers belong to C17",
               "theorems are over R; the implementation computes in IEEE doubles",
               "maneuver vectors have three components (WF), states six"]
NOT_COVERED = ["second-order agreement with the difference of two Keplerian orbits: the theorem relAcc_linearisation shows that Hill's right-hand side is the directional derivative, in every "
               "direction, of the exact relative two-body acceleration at the target (the target being an equilibrium, relAcc_zero); the Frechet form with an explicit O(sep^2) remainder and the passage "
               "from the vector field to its solutions are not formalised - oracle second-order-agreement (real propagator vs RK4 integration of the exact relative dynamics, fitted exponent >= 1.8)"]
OPEN = ["current code: the mean motion is memoised and not invalidated by writes of sma / frame (open finding C16-mean-motion-memo-stale-after-write): the memoised read is the current mean motion only "
        "when the memo is empty or was filled with the current values (readMemo_eq_current_partial; counter-witness memo_stale_after_write); the World theorems are about propagators whose sma / frame are not reassigned",
        "uniqueness of the piecewise solution of Hill's equations (so that hillSol is THE solution) is not formalised",
        "current code: state_solves_hill_piecewise_thrust holds only under NoCut / Clear (open findings C16-return-inside-burn-drops-later-maneuvers, C16-backward-ignores-past-maneuvers); "
        "the unconditional theorem is proved for the sequencing of proposed_fixes/C16-maneuver-superposition.diff (cwPropagateFixed)"]
RULE = ("correspondence: random (n from radii LEO..GEO, |t| <= 2 periods, relative states up to km and m/s, 0-5 maneuvers, both orientations) through "
        "ClohessyWiltshire._propagate/propagate vs the compiled Lean model; maneuver lists of every shape (overlapping / nested / back-to-back burns, impulses inside and at the ends "
        "of burns, non-chronological, dated before the orbit; burns declared with date_pos start / median / stop, their window computed by the model from (date, duration, date_pos)), dates before / at / 1 ms beside / inside / after every maneuver and before the orbit's date, second leg from the returned "
        "orbit; hillSol and the fixed sequencing vs an independent matrix-exponential integration; CWHelper vs its translation; non-trivial = t != 0; distinct = distinct request line. "
        "world: random histories (HillFrame of both orientations about Earth / Moon / Sun / a user-defined centre in every constructor form, ClohessyWiltshire on a frame object or on frame='Hill', copy, reads of n, "
        "propagation of fresh orbits and further propagation of returned points, interleaved) on the real classes vs World.run. "
        "oracle: own-target (targets about every centre, another Hill frame of the same / other orientation and centre created before the frame / the propagator / its first use / between two legs: state vs the independent "
        "integration with n from the inputs, n, helper period), finite-difference Hill residual, composition, impulse jump, TNW permutation, propagate vs the independent integration of Hill's equations with the piecewise-constant sum "
        "of the active thrusts (one leg, second leg forwards and backwards, superposition), discrepancy with the exact relative two-body motion at three separations (exponent), helper outcomes on the real API")

CW_PY = os.path.join(core.REPO, "beyond", "propagators", "cw.py")


CWH_PY = os.path.join(core.REPO, "beyond", "utils", "cwhelper.py")


class HelperTr:
    """The method bodies of beyond/utils/cwhelper.py -> Lean.  Scalars go through py2lean.Tr (`self.n` -> `n`, `self.period` and
    `timedelta(seconds=e)` -> seconds, `np.sign` -> `signR`); 3-vectors are lists: `self._mat3 @ [..]` -> `matVec m3 [..]`, numpy
    broadcasting `v * s` / `s * v` / `v / s` -> `vmuls` / `smulv` / `vdivs`, `-v` -> `vneg`; `ImpulsiveMan(date, dv)` -> `Man.imp`,
    `ContinuousMan(date, duration, dv= | accel=)` -> `Man.cont date (date + duration) …` (man.py: start = date, stop = start + duration,
    accel = dv / duration.total_seconds()); `Orbit(vec, …)` -> the vector.  Anything else raises Untranslatable."""

    def __init__(self):
        self.vec = set()
        self.tr = py2lean.Tr(consts={"self.n": "n", "self.period": "(helperPeriod n)"},
                             funcs={"sign": "signR", "self.coelliptic_velocity": "helperCoellipticVelocity n"})

    def scalar(self, e):
        class Strip(ast.NodeTransformer):
            def visit_Call(self, node):
                self.generic_visit(node)
                if isinstance(node.func, ast.Name) and node.func.id == "timedelta" and not node.args and len(node.keywords) == 1 \
                        and node.keywords[0].arg == "seconds":
                    return node.keywords[0].value
                return node
        import copy
        return self.tr.expr(Strip().visit(copy.deepcopy(e)))

    def vector(self, e):
        """Lean text of a vector-valued expression, or None when the expression is a scalar"""
        if isinstance(e, ast.Name):
            return py2lean.lname(e.id) if e.id in self.vec else None
        if isinstance(e, ast.BinOp) and isinstance(e.op, ast.MatMult):
            m = self.tr.dotted(e.left)
            if m not in ("self._mat3", "self._mat6") or not isinstance(e.right, (ast.List, ast.Tuple)):
                raise py2lean.Untranslatable("matrix product " + ast.unparse(e))
            return f"(matVec {'m3' if m.endswith('3') else 'm6'} [" + ", ".join(self.scalar(x) for x in e.right.elts) + "])"
        if isinstance(e, ast.UnaryOp) and isinstance(e.op, ast.USub):
            v = self.vector(e.operand)
            return None if v is None else f"(vneg {v})"
        if isinstance(e, ast.BinOp) and isinstance(e.op, (ast.Mult, ast.Div)):
            l, r = self.vector(e.left), self.vector(e.right)
            if l is not None and r is None:
                return f"({'vmuls' if isinstance(e.op, ast.Mult) else 'vdivs'} {l} {self.scalar(e.right)})"
            if l is None and r is not None and isinstance(e.op, ast.Mult):
                return f"(smulv {self.scalar(e.left)} {r})"
            if l is not None or r is not None:
                raise py2lean.Untranslatable("vector operation " + ast.unparse(e))
        return None

    def value(self, e):
        """maneuver constructors, tuples / lists of them, an Orbit, a vector or a scalar"""
        if isinstance(e, (ast.Tuple, ast.List)) and e.elts and all(isinstance(x, ast.Call) for x in e.elts):
            return "[" + ", ".join(self.value(x)[0] for x in e.elts) + "]", "mans"
        if isinstance(e, ast.Call) and isinstance(e.func, ast.Name) and e.func.id == "ImpulsiveMan":
            if len(e.args) != 2 or e.keywords:
                raise py2lean.Untranslatable("ImpulsiveMan arguments")
            return f"Man.imp {self.scalar(e.args[0])} {self.need_vec(e.args[1])}", "man"
        if isinstance(e, ast.Call) and isinstance(e.func, ast.Name) and e.func.id == "ContinuousMan":
            if len(e.args) != 2 or len(e.keywords) != 1 or e.keywords[0].arg not in ("dv", "accel"):
                raise py2lean.Untranslatable("ContinuousMan arguments")
            d, dur, v = self.scalar(e.args[0]), self.scalar(e.args[1]), self.need_vec(e.keywords[0].value)
            acc = v if e.keywords[0].arg == "accel" else f"(vdivs {v} {dur})"
            return f"Man.cont {d} ({d} + {dur}) {acc}", "man"
        if isinstance(e, ast.Call) and isinstance(e.func, ast.Name) and e.func.id == "Orbit":
            return self.need_vec(e.args[0]), "vec"
        if isinstance(e, ast.IfExp):
            a, ta = self.value(e.body)
            b, tb = self.value(e.orelse)
            if ta != tb:
                raise py2lean.Untranslatable("conditional of two kinds")
            return f"(if {self.scalar(e.test)} then {a} else {b})", ta
        v = self.vector(e)
        if v is not None:
            return v, "vec"
        return self.scalar(e), "scalar"

    def need_vec(self, e):
        v = self.vector(e)
        if v is None:
            raise py2lean.Untranslatable("vector expected: " + ast.unparse(e))
        return v

    def body(self, stmts):
        lines = []
        kinds = {}
        for s in stmts:
            if isinstance(s, ast.Expr) and isinstance(s.value, ast.Constant):
                continue
            if isinstance(s, ast.Assign) and len(s.targets) == 1 and isinstance(s.targets[0], ast.Name):
                txt, kind = self.value(s.value)
                name = s.targets[0].id
                (self.vec.add if kind == "vec" else self.vec.discard)(name)
                kinds[name] = kind
                lines.append(f"let {py2lean.lname(name)} := {txt}")
            elif isinstance(s, ast.If) and len(s.body) == 1 and len(s.orelse) == 1 and all(
                    isinstance(b, ast.Assign) and len(b.targets) == 1 and isinstance(b.targets[0], ast.Name) for b in (s.body[0], s.orelse[0])) \
                    and s.body[0].targets[0].id == s.orelse[0].targets[0].id:
                name = s.body[0].targets[0].id
                a, ka = self.value(s.body[0].value)
                b, kb = self.value(s.orelse[0].value)
                if ka != kb:
                    raise py2lean.Untranslatable("branches of two kinds")
                kinds[name] = ka
                lines.append(f"let {py2lean.lname(name)} := if {self.scalar(s.test)} then {a} else {b}")
            elif isinstance(s, ast.Return) and s.value is not None:
                if isinstance(s.value, ast.Name) and s.value.id in kinds:
                    lines.append(py2lean.lname(s.value.id))
                else:
                    lines.append(self.value(s.value)[0])
                return "\n".join("  " + l for l in lines)
            else:
                raise py2lean.Untranslatable(f"cwhelper statement {ast.unparse(s)[:60]}")
        raise py2lean.Untranslatable("no return")


# lean name, python method, binders (Lean), result type
HELPERS = [
    ("helperPeriod", "period", "(n : R)", "R"),
    ("helperCoellipticVelocity", "coelliptic_velocity", "(n radial : R)", "R"),
    ("helperCoelliptic", "coelliptic", "(m6 : List (List R)) (n date radial tangential : R)", "List R"),
    ("helperHohmannDistance", "hohmann_distance", "(radial : R) (continuous : Bool)", "R"),
    ("helperHohmann", "hohmann", "(m3 : List (List R)) (n radial date : R) (continuous : Bool)", "List Man"),
    ("helperEccentricBoost", "eccentric_boost", "(m3 : List (List R)) (n tangential date : R) (continuous : Bool)", "List Man"),
    ("helperTangentialBoost", "tangential_boost", "(m3 : List (List R)) (n tangential date : R)", "List Man"),
    ("helperVbarLinear", "vbar_linear", "(m3 : List (List R)) (n tangential date dv : R)", "List Man"),
]


def translate_helpers():
    tree = ast.parse(open(CWH_PY).read())
    out = []
    for lean, meth, binders, ty in HELPERS:
        fn = py2lean.find_function(tree, "CWHelper." + meth)
        params = [a.arg for a in fn.args.args[1:]]
        declared = binders.replace("(", " ").replace(")", " ").replace(":", " ").split()
        if not all(p in declared for p in params):
            raise py2lean.Untranslatable(f"CWHelper.{meth}: parameters {params} changed")
        out.append(f"/-- `CWHelper.{meth}` -/\ndef {lean} {binders} : {ty} :=\n{HelperTr().body(fn.body)}\n")
    return "\n".join(out)


MAN_PY = os.path.join(core.REPO, "beyond", "orbits", "man.py")
DATE_POS = {"start": 0, "median": 1, "stop": 2}


def translate_sequencing_source():
    """What the hand-written sequencing model rests on, read from the AST on every run:
    * the tests of the maneuver loop of ClohessyWiltshire.propagate — which attribute of the maneuver (`.date`, `.start`, `.stop`) is compared
      with the requested date and with the orbit's date, including guards of the form `if …: continue` placed before the branches —
      as `impActiveSrc tm t0 t`, `contActiveSrc ts te md t0 t` (md = ContinuousMan.date, the constructor's reference date);
    * the target of the coast leg before a burn, `contCoastSrc ts te md t0 tc` (tc = date of the running state `orb`);
    * `ContinuousMan.check` as `contCheckSrc ts te t`;
    * the burn window of `ContinuousMan.__init__` from (date, duration, date_pos) as `manStartSrc pos date duration`, `manStopSrc …`
      (pos: 0 start, 1 median, 2 stop).
    Props/C16Src.lean proves that these are the conditions / window the model `cwPropagate` uses."""
    U = py2lean.Untranslatable
    tree = ast.parse(open(CW_PY).read())
    fn = py2lean.find_function(tree, "ClohessyWiltshire.propagate")
    loop = next((x for x in fn.body if isinstance(x, ast.For)), None)
    if loop is None or ast.unparse(loop.iter) != "self.orbit.maneuvers" or not isinstance(loop.target, ast.Name):
        raise U("propagate: maneuver loop not found")
    mv = loop.target.id

    def tr(kind):
        c = {"date": "t", "self.orbit.date": "t0", "orb.date": "tc", f"{mv}.start": "ts", f"{mv}.stop": "te",
             f"{mv}.date": "tm" if kind == "imp" else "md"}
        return py2lean.Tr(consts=c, funcs={"max": "maxSrc", "min": "minSrc"})
    guards = []
    found = {}
    for st in loop.body:
        if isinstance(st, ast.If) and len(st.body) == 1 and isinstance(st.body[0], ast.Continue) and not st.orelse:
            guards.append(st.test)
            continue
        node = st
        while isinstance(node, ast.If):
            vals = node.test.values if isinstance(node.test, ast.BoolOp) and isinstance(node.test.op, ast.And) else [node.test]
            v0 = vals[0]
            if not (isinstance(v0, ast.Call) and ast.unparse(v0.func) == "isinstance" and ast.unparse(v0.args[0]) == mv):
                raise U("propagate: branch test does not start with isinstance(man, …): " + ast.unparse(node.test)[:60])
            cls = ast.unparse(v0.args[1])
            kind = {"ImpulsiveMan": "imp", "ContinuousMan": "cont"}.get(cls)
            if kind is None or kind in found:
                raise U("propagate: unexpected maneuver branch " + cls)
            t = tr(kind)
            parts = [f"(¬ {t.expr(g)})" for g in guards] + [t.expr(v) for v in vals[1:]]
            found[kind] = ("(" + " ∧ ".join(parts) + ")" if parts else "True", node.body)
            node = node.orelse[0] if len(node.orelse) == 1 else None
        if node is not None and not isinstance(st, ast.If):
            raise U("propagate: unexpected statement in the maneuver loop: " + ast.unparse(st)[:60])
    if set(found) != {"imp", "cont"}:
        raise U("propagate: impulsive / continuous branches not found")
    first = found["cont"][1][0]
    if not (isinstance(first, ast.Assign) and isinstance(first.value, ast.Call) and ast.unparse(first.value.func) == "self._propagate"
            and len(first.value.args) == 2):
        raise U("propagate: coast leg of the continuous branch not found")
    coast = tr("cont").expr(first.value.args[0])
    # ContinuousMan.check and the window
    mtree = ast.parse(open(MAN_PY).read())
    chk = py2lean.find_function(mtree, "ContinuousMan.check")
    body = [x for x in chk.body if not (isinstance(x, ast.Expr) and isinstance(x.value, ast.Constant))]
    if len(body) != 1 or not isinstance(body[0], ast.Return):
        raise U("ContinuousMan.check: not a single return")
    check = py2lean.Tr(consts={"self.start": "ts", "self.stop": "te", "date": "t"}).expr(body[0].value)
    init = py2lean.find_function(mtree, "ContinuousMan.__init__")
    wt = py2lean.Tr(consts={"self.start": "start"})
    chain = next((x for x in init.body if isinstance(x, ast.If) and "self.date_pos ==" in ast.unparse(x.test)), None)
    if chain is None:
        raise U("ContinuousMan.__init__: date_pos chain not found")
    cases, node, seen = [], chain, set()
    while True:
        if not (isinstance(node.test, ast.Compare) and ast.unparse(node.test.left) == "self.date_pos" and isinstance(node.test.ops[0], ast.Eq)
                and isinstance(node.test.comparators[0], ast.Constant) and node.test.comparators[0].value in DATE_POS):
            raise U("ContinuousMan.__init__: date_pos test " + ast.unparse(node.test))
        name = node.test.comparators[0].value

        def start_of(stmts):
            if len(stmts) != 1 or not isinstance(stmts[0], ast.Assign) or ast.unparse(stmts[0].targets[0]) != "self.start":
                raise U("ContinuousMan.__init__: date_pos branch does not assign self.start")
            return wt.expr(stmts[0].value)
        cases.append((DATE_POS[name], start_of(node.body)))
        seen.add(name)
        if len(node.orelse) == 1 and isinstance(node.orelse[0], ast.If):
            node = node.orelse[0]
            continue
        rest = [k for k in DATE_POS if k not in seen]
        if len(rest) != 1:
            raise U("ContinuousMan.__init__: date_pos chain does not cover start / median / stop")
        default = start_of(node.orelse)
        break
    stop = next((x for x in init.body if isinstance(x, ast.Assign) and ast.unparse(x.targets[0]) == "self.stop"), None)
    if stop is None:
        raise U("ContinuousMan.__init__: self.stop not assigned")
    start_txt = " else ".join(f"if pos = {c} then {e}" for c, e in cases) + f" else {default}"
    return f"""/-- Python `max(a, b)` / `min(a, b)` -/
def maxSrc (a b : R) : R := if a ≥ b then a else b
def minSrc (a b : R) : R := if a ≤ b then a else b

/-- test of the ImpulsiveMan branch of the loop of `ClohessyWiltshire.propagate` (guards `if …: continue` included) -/
def impActiveSrc (tm t0 t : R) : Prop :=
  {found['imp'][0]}

/-- test of the ContinuousMan branch; `md` is `man.date`, the reference date given to the constructor -/
def contActiveSrc (ts te md t0 t : R) : Prop :=
  {found['cont'][0]}

/-- target of the coast leg that precedes the thrust leg; `tc` is the date of the running state -/
def contCoastSrc (ts te md t0 tc : R) : R :=
  {coast}

/-- `ContinuousMan.check` -/
def contCheckSrc (ts te t : R) : Prop :=
  {check}

/-- `ContinuousMan.__init__`: `self.start` from (date, duration, date_pos); pos: 0 start, 1 median, 2 stop -/
def manStartSrc (pos : Nat) (date duration : R) : R :=
  {start_txt}

/-- `self.stop` -/
def manStopSrc (pos : Nat) (date duration : R) : R :=
  let start := manStartSrc pos date duration
  {wt.expr(stop.value)}
"""


FRAMES_PY = os.path.join(core.REPO, "beyond", "frames", "frames.py")


def translate_mean_motion():
    """`ClohessyWiltshire.n` -> `meanMotionSrc mu sma` (the expression assigned to the memo `_n`; the model is memo-free: the mean motion
    is a function of the CURRENT gravitational parameter of the frame's centre and of the semi major axis), plus the structural facts the
    object model of templates/CWFrames.tpl rests on, checked on the AST on every run: `__init__` stores `sma` and `frame` as given
    (a str goes through `get_frame`), `copy()` builds a new propagator from `self.sma` and `self.frame`, `HillFrame.__init__` stores
    `orientation` and `center` as given and registers itself as `dynamic["Hill"]`."""
    U = py2lean.Untranslatable
    tree = ast.parse(open(CW_PY).read())
    fn = py2lean.find_function(tree, "ClohessyWiltshire.n")
    assigns = [x for x in ast.walk(fn) if isinstance(x, ast.Assign) and len(x.targets) == 1 and ast.unparse(x.targets[0]) == "self._n"]
    rets = [x for x in ast.walk(fn) if isinstance(x, ast.Return)]
    if len(rets) != 1:
        raise U("ClohessyWiltshire.n: not a single return")
    if len(assigns) == 1 and ast.unparse(rets[0].value) == "self._n":
        value = assigns[0].value            # memoised form
        memoised = True
    elif not assigns and not any(isinstance(x, ast.Assign) for x in ast.walk(fn)):
        value = rets[0].value               # memo-free form (proposed_fixes/C16-mean-motion-memo.diff)
        memoised = False
    else:
        raise U("ClohessyWiltshire.n: neither `self._n = <expr>; return self._n` nor `return <expr>`")
    mu_names = {"self.frame.center.body." + a: "mu" for a in ("mu", "\u00b5", "\u03bc")}
    expr = py2lean.Tr(consts=dict(mu_names, **{"self.sma": "sma"})).expr(value)
    init = py2lean.find_function(tree, "ClohessyWiltshire.__init__")
    if [a.arg for a in init.args.args] != ["self", "sma", "frame"] or ast.unparse(init.args.defaults[0]) != "'Hill'":
        raise U("ClohessyWiltshire.__init__: signature changed")
    lines = [ast.unparse(x) for x in init.body if not (isinstance(x, ast.Expr) and isinstance(x.value, ast.Constant))]
    stores = [l for l in lines if l.startswith("self.")]
    if sorted(stores) != ["self.frame = frame", "self.sma = sma"] or not any(l.startswith("if isinstance(frame, str):\n    frame = get_frame(frame)") for l in lines):
        raise U("ClohessyWiltshire.__init__: does not store sma / frame as given")
    cp = py2lean.find_function(tree, "ClohessyWiltshire.copy")
    if [ast.unparse(x) for x in cp.body] != ["return self.__class__(self.sma, frame=self.frame)"]:
        raise U("ClohessyWiltshire.copy: changed")
    ftree = ast.parse(open(FRAMES_PY).read())
    hf = py2lean.find_function(ftree, "HillFrame.__init__")
    if [a.arg for a in hf.args.args] != ["self", "orientation", "center"] or [ast.unparse(d) for d in hf.args.defaults] != ["DEFAULT_ORIENTATION", "center.Earth"]:
        raise U("HillFrame.__init__: signature changed")
    hl = [ast.unparse(x) for x in hf.body if not (isinstance(x, ast.Expr) and isinstance(x.value, ast.Constant))]
    if not {"self.orientation = orientation", "self.center = center", "dynamic['Hill'] = self"} <= set(hl):
        raise U("HillFrame.__init__: does not store orientation / center as given")
    return f"""/-- `ClohessyWiltshire.n`: the value the memo `_n` is filled with; `mu` = `self.frame.center.body.mu`, `sma` = `self.sma` -/
def meanMotionSrc (mu sma : R) : R :=
  {expr}

/-- does `ClohessyWiltshire.n` keep its first value in `self._n` (`if not hasattr(self, "_n"): self._n = …; return self._n`) -/
def nMemoised : Bool := {'true' if memoised else 'false'}
"""


def extract(ctx):
    body = py2lean.translate_slice(CW_PY, "ClohessyWiltshire._propagate", ["n", "t"], ["evol_mat", "accel_mat"], "cwMats",
                                   stop_before=lambda s: isinstance(s, ast.If) and "orientation" in ast.dump(s.test))
    ch = py2lean.instantiate(core.LEAN, "CWMat", body, "beyond/propagators/cw.py")
    ch += instantiate.main()
    ch += py2lean.instantiate(core.LEAN, "CWHelper", translate_helpers(), "beyond/utils/cwhelper.py", imports=["Model.CW"])
    ch += py2lean.instantiate(core.LEAN, "CWSeqSrc", translate_sequencing_source(), "beyond/propagators/cw.py, beyond/orbits/man.py")
    ch += py2lean.instantiate(core.LEAN, "CWMean", translate_mean_motion(), "beyond/propagators/cw.py, beyond/frames/frames.py")
    return ch


# ---------------------------------------------------------------- real code adapters

def make(ori, sma, x, mans=(), t0=0.0):
    from beyond.orbits import Orbit
    from beyond.dates import Date, timedelta
    from beyond.propagators.cw import ClohessyWiltshire
    from beyond.orbits.man import ImpulsiveMan, ContinuousMan
    from beyond.frames.frames import HillFrame
    hill = HillFrame(orientation=ori)
    prop = ClohessyWiltshire(sma, frame=hill)
    d0 = Date(2020, 5, 24)
    orb = Orbit(list(x), d0 + timedelta(seconds=t0), "cartesian", "Hill", prop)
    ms = []
    for m in mans:
        if m[0] == "i":
            ms.append(ImpulsiveMan(d0 + timedelta(seconds=m[1]), m[2]))
        else:
            pos = m[4] if len(m) > 4 else "start"
            ref = {"start": m[1], "median": (m[1] + m[2]) / 2, "stop": m[2]}[pos]
            ms.append(ContinuousMan(d0 + timedelta(seconds=ref), timedelta(seconds=m[2] - m[1]), accel=m[3], date_pos=pos))
    orb.maneuvers = ms
    return orb, prop, d0


def q(x, step=1e-3):
    """quantise a time to a multiple of 1 ms so that timedelta (µs) represents it exactly"""
    return round(x / step) * step


def gen_case(rng):
    sma = rng.choice([6.6e6, 6.8e6, 7.2e6, 1.2e7, 2.66e7, 4.2164e7]) * rng.uniform(0.98, 1.02)
    mu = 3.986004418e14
    n = math.sqrt(mu / sma ** 3)
    period = 2 * math.pi / n
    scale = rng.choice([1.0, 100.0, 3000.0])
    x = [rng.uniform(-1, 1) * scale for _ in range(3)] + [rng.uniform(-1, 1) * scale * n * 2 for _ in range(3)]
    t = q(rng.uniform(-2, 2) * period) if rng.random() < 0.8 else q(rng.uniform(0, 2) * period)
    return sma, period, x, t


def gen_mans(rng, period, chrono=True):
    k = rng.choice([0, 1, 1, 2, 3, 4])
    times = sorted(q(rng.uniform(0.01, 1.8) * period) for _ in range(k))
    if not chrono:
        rng.shuffle(times)
    mans = []
    for tm in times:
        if rng.random() < 0.6:
            mans.append(("i", tm, [rng.uniform(-0.5, 0.5) for _ in range(3)]))
        else:
            dur = q(rng.uniform(0.01, 0.3) * period)
            mans.append(("c", tm, q(tm + dur), [rng.uniform(-1e-3, 1e-3) for _ in range(3)]))
    return with_date_pos(rng, mans)


def man_tokens(mans):
    out = []
    for m in mans:
        if m[0] == "i":
            out += ["i", f2b(m[1])] + [f2b(v) for v in m[2]]
        elif len(m) > 4:
            # declared by (reference date, duration, date_pos): the model computes the window as ContinuousMan.__init__ does
            ref = {"start": m[1], "median": (m[1] + m[2]) / 2, "stop": m[2]}[m[4]]
            out += ["d", f2b(float(DATE_POS[m[4]])), f2b(ref), f2b(m[2] - m[1])] + [f2b(v) for v in m[3]]
        else:
            out += ["c", f2b(m[1]), f2b(m[2])] + [f2b(v) for v in m[3]]
    return out


def with_date_pos(rng, mans):
    """declare some burns by their median / stop date (ContinuousMan date_pos). All the dates of such a list are snapped to multiples of
    0.5 s (dyadic: reference date, duration and window are then exact in doubles and in timedelta), coincidences are preserved"""
    if not any(m[0] == "c" for m in mans) or rng.random() < 0.4:
        return mans
    snap = lambda v: q(v, 0.5)
    out = []
    for m in mans:
        if m[0] == "i":
            out.append(("i", snap(m[1]), m[2]))
        else:
            out.append(("c", snap(m[1]), snap(m[2]), m[3], rng.choice(["start", "median", "stop", "median", "stop"])))
    return out


def compare(out, kind, req, real, model_line, scale_pos, scale_vel, inp):
    if model_line in ("bad-op", "fuel"):
        out.fail("cw-" + kind, "model rejected the request", inp, observed=list(real), expected=model_line)
        return
    model = [b2f(s) for s in model_line.split()]
    for i, (a, b) in enumerate(zip(real, model)):
        sc = scale_pos if i < 3 else scale_vel
        if not core.close(float(a), b, rtol=1e-9, atol=1e-9 * sc + 1e-12, scale=max(abs(a), abs(b))):
            out.fail("cw-" + kind, f"component {i} differs between ClohessyWiltshire and the Lean model", inp,
                     observed=[float(v) for v in real], expected=model)
            return


def correspondence(ctx):
    import numpy as np
    from beyond.dates import timedelta
    out = Outcome()
    rng = ctx.rng
    reqs = []
    meta = []
    for _ in range(ctx.n(600, 20000)):
        sma, period, x, t = gen_case(rng)
        ori = rng.choice(["QSW", "TNW"])
        orb, prop, d0 = make(ori, sma, x)
        n = float(prop.n)
        acc = [rng.uniform(-1e-3, 1e-3) for _ in range(3)] if rng.random() < 0.7 else [0.0, 0.0, 0.0]
        real = prop._propagate(d0 + timedelta(seconds=t), orb.copy(form="cartesian"), np.array(acc))
        reqs.append(" ".join(["cwstep", "1" if ori == "TNW" else "0", f2b(n), f2b(t)] + [f2b(v) for v in x] + [f2b(v) for v in acc]))
        sp = max(abs(v) for v in x[:3]) + abs(t) * max(abs(v) for v in x[3:]) + 1e-3 * t * t
        meta.append(("step", list(map(float, real)), sp, sp * n + 1e-3 * abs(t), {"ori": ori, "sma": sma, "t": t, "x": x, "acc": acc}))
        out.count(key=reqs[-1], nontrivial=t != 0, kind="step-" + ori, thrust=any(acc), sign="t<0" if t < 0 else "t>=0")
    for _ in range(ctx.n(600, 20000)):
        sma, period, x, t = gen_case(rng)
        ori = rng.choice(["QSW", "TNW"])
        chrono = rng.random() < 0.85
        mans = gen_mans(rng, period, chrono)
        edge = "none"
        if mans and rng.random() < 0.35:
            # boundary dates: exactly at an impulse, at the start / stop of a thrust, and a second maneuver dated exactly there
            m = rng.choice(mans)
            edge = rng.choice(["at-date", "at-stop", "coincident"])
            if m[0] == "i":
                t = m[1]
            else:
                t = m[1] if edge == "at-date" else m[2]
            if edge == "coincident":
                mans = sorted(mans + [("i", t, [rng.uniform(-0.5, 0.5) for _ in range(3)])], key=lambda mm: mm[1]) if chrono else mans + [("i", t, [0.1, -0.2, 0.05])]
        orb, prop, d0 = make(ori, sma, x, mans)
        n = float(prop.n)
        real = orb.propagate(timedelta(seconds=t))
        reqs.append(" ".join(["cw", "1" if ori == "TNW" else "0", f2b(n), f2b(t)] + [f2b(v) for v in x] + man_tokens(mans)))
        sp = max(abs(v) for v in x[:3]) + abs(t) * (max(abs(v) for v in x[3:]) + 2.0) + 1e-3 * t * t
        meta.append(("propagate", list(map(float, real)), sp, sp * n + 2.0, {"ori": ori, "sma": sma, "t": t, "x": x, "mans": mans}))
        napplied = sum(1 for m in mans if t >= m[1] > 0)
        out.count(key=reqs[-1], nontrivial=t != 0, kind="propagate-" + ori, mans=len(mans), applied=napplied, chrono=chrono, edge=edge)
    # maneuver lists of every shape (overlapping burns, impulses inside burns, non-chronological, dated before the orbit), dates at /
    # beside / inside / after every maneuver and before the orbit's date; a second leg from the returned orbit (orbit date t0 != 0);
    # and the Lean reference solution `hillSol` (what the sequencing theorems compare `cwPropagate` with) against the independent integration
    for _ in range(ctx.n(250, 6000)):
        sma, period, x, _t = gen_case(rng)
        ori = rng.choice(["QSW", "TNW"])
        kind, mans = gen_sequence(rng, period)
        orb, prop, d0 = make(ori, sma, x, mans)
        n = float(prop.n)
        dates = interesting_dates(rng, mans, period)
        t = rng.choice(dates)
        real = orb.propagate(timedelta(seconds=t))
        reqs.append(" ".join(["cw", "1" if ori == "TNW" else "0", f2b(n), f2b(t)] + [f2b(v) for v in x] + man_tokens(mans)))
        sp, sv = seq_scale(x, mans, 0.0, t)
        meta.append(("propagate", list(map(float, real)), sp, sp * n + sv, {"ori": ori, "sma": sma, "t": t, "x": x, "mans": mans}))
        out.count(key=reqs[-1], nontrivial=t != 0, kind="propagate-seq-" + ori, branch=classify(mans, 0.0, t), shape=shape(mans), scenario=kind)
        t1, t2 = rng.sample(dates, 2)
        if t1 < 0:
            t1, t2 = t2, t1
        if t1 > 0:
            mid = orb.propagate(timedelta(seconds=t1))
            xm = [float(v) for v in mid]
            real2 = mid.propagate(timedelta(seconds=q(t2 - t1)))
            reqs.append(" ".join(["cw0", "1" if ori == "TNW" else "0", f2b(n), f2b(t2), f2b(t1)] + [f2b(v) for v in xm] + man_tokens(mans)))
            sp, sv = seq_scale(xm, mans, t1, t2)
            meta.append(("propagate-second-leg", list(map(float, real2)), sp, sp * n + sv, {"ori": ori, "sma": sma, "t0": t1, "t": t2, "x": xm, "mans": mans}))
            out.count(key=reqs[-1], kind="second-leg-" + ori, branch=classify(mans, t1, t2), shape=shape(mans), scenario=kind)
        t0r = rng.choice([0.0, 0.0, rng.choice(dates)])
        tr = rng.choice(dates)
        ref = hill_reference(n, x, mans, t0r, tr)
        reqs.append(" ".join(["cwref", f2b(n), f2b(tr), f2b(t0r)] + [f2b(v) for v in x] + man_tokens(mans)))
        sp, sv = seq_scale(x, mans, t0r, tr)
        meta.append(("spec-reference", list(map(float, ref)), 10 * sp, 10 * (sp * n + sv), {"sma": sma, "t0": t0r, "t": tr, "x": x, "mans": mans}))
        out.count(key=reqs[-1], kind="spec-reference", direction="backward" if tr < t0r else "forward", shape=shape(mans))
        reqs.append(" ".join(["cwfix", f2b(n), f2b(tr), f2b(t0r)] + [f2b(v) for v in x] + man_tokens(mans)))
        meta.append(("fixed-sequencing-reference", list(map(float, ref)), 10 * sp, 10 * (sp * n + sv), {"sma": sma, "t0": t0r, "t": tr, "x": x, "mans": mans}))
        out.count(key=reqs[-1], kind="fixed-sequencing-reference", direction="backward" if tr < t0r else "forward", shape=shape(mans))
    world_histories(out, rng, ctx.n(150, 3000))
    memo_histories(out, rng, ctx.n(100, 2000))
    helper_formulas(out, rng, ctx.n(40, 400))
    helper_translated(out, rng, ctx.n(40, 400))
    replies = core.Driver().run(reqs)
    for req, (kind, real, sp, sv, inp), rep in zip(reqs, meta, replies):
        compare(out, kind, req, real, rep, sp, sv, inp)
        out.sample({"request": req[:120] + "…", "impl": real, "model": [b2f(s) for s in rep.split()] if rep[0].isdigit() else rep}, limit=2)
    return out


# ---------------------------------------------------------------- several Hill frames / propagators in one process

_CENTRES = None
CENTRE_NAMES = ["Earth", "Moon", "Mars", "Sun"]


def centres():
    """centres a relative-motion frame can be attached to: the built-in ones and a user-defined one (Center + constants.Body)"""
    global _CENTRES
    if _CENTRES is None:
        from beyond.frames import center as cmod
        from beyond.frames.center import Center
        from beyond.env import solarsystem
        from beyond import constants
        _CENTRES = {"Earth": cmod.Earth, "Moon": solarsystem.get_frame("Moon").center, "Sun": solarsystem.get_frame("Sun").center,
                    "Mars": Center("Mars", body=constants.Mars)}
    return _CENTRES


def centre_mu(name):
    """gravitational parameter of the centre the CALLER passes (input of the model)"""
    return float(centres()[name].body.mu)


def centre_name(c):
    return next((k for k, v in centres().items() if v is c), None)


def gen_sma(rng, cname):
    if cname == "Earth":
        return rng.choice([6.6e6, 6.8e6, 7.2e6, 1.2e7, 2.66e7, 4.2164e7]) * rng.uniform(0.98, 1.02)
    r = float(centres()[cname].body.equatorial_radius)
    return r * rng.uniform(1.03, 6.6)


def gen_state(rng, n):
    scale = rng.choice([1.0, 100.0, 3000.0])
    return [rng.uniform(-1, 1) * scale for _ in range(3)] + [rng.uniform(-1, 1) * scale * n * 2 for _ in range(3)]


def gen_history(rng, frame0):
    """a random history of one process: frames of both orientations about several centres (every constructor form), propagators on a
    frame object / on frame="Hill" (every constructor form), copies, reads of n, propagations of fresh orbits and further propagation
    of returned points — interleaved in any order.  frame0 = (orientation, centre name) of dynamic["Hill"] at the start."""
    frames = [frame0]
    props = []          # (frame index, sma)
    pts = []            # prop index
    ops = []
    k = rng.choice([4, 6, 8, 10, 12])
    for step in range(k):
        kinds = ["F", "F", "P", "H"]
        if props:
            kinds += ["C", "N", "N", "R", "R", "R"]
        if pts:
            kinds += ["L", "L", "L"]
        kind = rng.choice(kinds) if step > 1 else ("F" if step == 0 and rng.random() < 0.6 else rng.choice(["P", "H"]))
        if kind == "F":
            ori = rng.choice(["QSW", "TNW"])
            cname = rng.choice(CENTRE_NAMES + ["Earth"])
            forms = ["kw", "pos"] + (["default-ori"] if ori == "QSW" else []) + (["default-center"] if cname == "Earth" else [])
            ops.append(("F", ori, cname, rng.choice(forms)))
            frames.append((ori, cname))
        elif kind == "P":
            f = rng.randrange(len(frames))
            sma = gen_sma(rng, frames[f][1])
            ops.append(("P", f, sma, rng.choice(["kw", "pos"])))
            props.append((f, sma))
        elif kind == "H":
            f = len(frames) - 1
            sma = gen_sma(rng, frames[f][1])
            ops.append(("H", sma, rng.choice(["default", "kw", "pos"])))
            props.append((f, sma))
        elif kind == "C":
            pi = rng.randrange(len(props))
            ops.append(("C", pi))
            props.append(props[pi])
        elif kind == "N":
            ops.append(("N", rng.randrange(len(props))))
        elif kind == "R":
            pi = rng.randrange(len(props))
            f, sma = props[pi]
            n = math.sqrt(centre_mu(frames[f][1]) / sma ** 3)
            t = q(rng.uniform(-1, 1) * 2 * math.pi / n)
            ops.append(("R", pi, t, gen_state(rng, n)))
            pts.append(pi)
        else:
            qi = rng.randrange(len(pts))
            f, sma = props[pts[qi]]
            n = math.sqrt(centre_mu(frames[f][1]) / sma ** 3)
            ops.append(("L", qi, q(rng.uniform(-1, 1) * 2 * math.pi / n)))
            pts.append(pts[qi])
    if not any(o[0] in "NRL" for o in ops):
        ops.append(("N", 0))
    return ops


def run_history(ops):
    """the history on the real classes; returns (frame0, flat list of what the reads returned, per-read scales)"""
    from beyond.orbits import Orbit
    from beyond.dates import Date, timedelta
    from beyond.propagators.cw import ClohessyWiltshire
    from beyond.frames.frames import HillFrame, get_frame
    cs = centres()
    d0 = Date(2020, 5, 24)
    frames = [get_frame("Hill")]
    props, pts, res = [], [], []
    for op in ops:
        if op[0] == "F":
            _, ori, cname, form = op
            c = cs[cname]
            f = {"kw": lambda: HillFrame(orientation=ori, center=c), "pos": lambda: HillFrame(ori, c),
                 "default-ori": lambda: HillFrame(center=c), "default-center": lambda: HillFrame(ori)}[form]()
            frames.append(f)
        elif op[0] == "P":
            props.append(ClohessyWiltshire(op[2], frame=frames[op[1]]) if op[3] == "kw" else ClohessyWiltshire(op[2], frames[op[1]]))
        elif op[0] == "H":
            props.append({"default": lambda: ClohessyWiltshire(op[1]), "kw": lambda: ClohessyWiltshire(op[1], frame="Hill"),
                          "pos": lambda: ClohessyWiltshire(op[1], "Hill")}[op[2]]())
        elif op[0] == "C":
            props.append(props[op[1]].copy())
        elif op[0] == "N":
            pr = props[op[1]]
            res.append(("n", [float(pr.n), 0.0 if pr.frame.orientation == "QSW" else 1.0]))
        elif op[0] == "R":
            pr = props[op[1]]
            orb = Orbit(list(op[3]), d0, "cartesian", pr.frame, pr)
            pt = orb.propagate(timedelta(seconds=op[2]))
            pts.append(pt)
            res.append(("state", [float(v) for v in pt]))
        else:
            pt = pts[op[1]].propagate(timedelta(seconds=op[2]))
            pts.append(pt)
            res.append(("state", [float(v) for v in pt]))
    return res


def history_request(frame0, ops):
    toks = ["world", f2b(0.0 if frame0[0] == "QSW" else 1.0), f2b(centre_mu(frame0[1]))]
    for op in ops:
        if op[0] == "F":
            toks += ["F", f2b(0.0 if op[1] == "QSW" else 1.0), f2b(centre_mu(op[2]))]
        elif op[0] == "P":
            toks += ["P", f2b(float(op[1])), f2b(op[2])]
        elif op[0] == "H":
            toks += ["H", f2b(op[1])]
        elif op[0] in ("C", "N"):
            toks += [op[0], f2b(float(op[1]))]
        elif op[0] == "R":
            toks += ["R", f2b(float(op[1])), f2b(op[2])] + [f2b(v) for v in op[3]]
        else:
            toks += ["L", f2b(float(op[1])), f2b(op[2])]
    return " ".join(toks)


def current_frame0():
    from beyond.frames.frames import get_frame
    f = get_frame("Hill")
    return (f.orientation, centre_name(f.center))


def history_shape(frame0, ops):
    """does the history contain two frames of the same orientation about different centres / of different orientations"""
    fr = [frame0] + [(o[1], o[2]) for o in ops if o[0] == "F"]
    same = any(a[0] == b[0] and a[1] != b[1] for a in fr for b in fr)
    return ("same-ori-other-centre" if same else "one-centre-per-ori") + ("+both-ori" if len({a[0] for a in fr}) > 1 else "")


def world_histories(out, rng, N):
    """random histories on the real HillFrame / ClohessyWiltshire objects against the object model `World` (Model/CWFrames): every read of
    n, every propagated state (fresh orbit, further propagation of a returned point) must be what the model — memo-free, frames
    immutable, n = meanMotionSrc(mu of the propagator's own frame centre, its own sma) — returns"""
    reqs, meta = [], []
    for _ in range(N):
        frame0 = current_frame0()
        if frame0[1] is None:
            from beyond.frames.frames import HillFrame
            HillFrame()
            frame0 = current_frame0()
        ops = gen_history(rng, frame0)
        real = run_history(ops)
        reqs.append(history_request(frame0, ops))
        meta.append((frame0, ops, real))
        out.count(key=reqs[-1], kind="world-history", shape=history_shape(frame0, ops), length=min(len(ops), 12),
                  reads="+".join(sorted({o[0] for o in ops if o[0] in "NRL"})))
    for req, (frame0, ops, real), rep in zip(reqs, meta, core.Driver().run(reqs)):
        inp = {"frame0": list(frame0), "history": [list(o) for o in ops]}
        flat = [v for _, vs in real for v in vs]
        if not rep or not rep[0].isdigit():
            out.fail("cw-world", "model rejected the history", inp, observed=flat, expected=rep)
            continue
        model = [b2f(t) for t in rep.split()]
        if len(model) != len(flat):
            out.fail("cw-world", "model returns another number of reads", inp, observed=flat, expected=model)
            continue
        i = 0
        reads = [o for o in ops if o[0] in "NRL"]
        for (kind, vs), o in zip(real, reads):
            mv = model[i:i + len(vs)]
            i += len(vs)
            if kind == "n":
                ok = abs(vs[0] - mv[0]) <= 1e-12 * abs(mv[0]) and vs[1] == mv[1]
            else:
                sp = max(abs(v) for v in mv[:3]) + 1.0
                sv = max(abs(v) for v in mv[3:]) + 1e-6
                # both sides evaluate the same closed form; the only difference is the last bits of n (pow vs repeated product) times n t <= 4 pi
                ok = all(abs(a - b) <= 1e-8 * (sp if j < 3 else sv) * 50 for j, (a, b) in enumerate(zip(vs, mv)))
            if not ok:
                out.fail("cw-world-" + ("mean-motion" if kind == "n" else "state"),
                         "after this history of frame / propagator creations the real objects return something else than the object model "
                         "(mean motion = meanMotionSrc of the propagator's OWN centre and semi major axis, whatever else exists in the process)",
                         dict(inp, read=list(o)), observed=vs, expected=mv)
                break


def memo_histories(out, rng, N):
    """one real propagator through random sequences of reads of n, in-place writes of sma / frame (a frame about another centre) and
    copy(), against the model of the memo `_n` (Model/CWFrames `Memo`: filled at the first read, untouched by the writes, absent from a
    copy — or no memo at all when the source computes n at every read)"""
    from beyond.propagators.cw import ClohessyWiltshire
    from beyond.frames.frames import HillFrame
    reqs, meta = [], []
    for _ in range(N):
        cname = rng.choice(CENTRE_NAMES)
        ori = rng.choice(["QSW", "TNW"])
        sma = gen_sma(rng, cname)
        prop = ClohessyWiltshire(sma, frame=HillFrame(ori, centres()[cname]))
        toks = ["memo", f2b(centre_mu(cname)), f2b(sma)]
        hist, real = [], []
        for _k in range(rng.choice([2, 3, 5, 8])):
            op = rng.choice(["r", "r", "w-sma", "w-frame", "c"])
            if op == "r":
                real.append(float(prop.n))
                toks.append("r")
                hist.append(["read"])
            elif op == "c":
                prop = prop.copy()
                toks.append("c")
                hist.append(["copy"])
            else:
                if op == "w-frame":
                    cname = rng.choice(CENTRE_NAMES)
                    prop.frame = HillFrame(ori, centres()[cname])
                sma = gen_sma(rng, cname)
                prop.sma = sma
                toks += ["w", f2b(centre_mu(cname)), f2b(sma)]
                hist.append([op, cname, sma])
        real.append(float(prop.n))
        toks.append("r")
        hist.append(["read"])
        reqs.append(" ".join(toks))
        meta.append((hist, real))
        out.count(key=reqs[-1], kind="memo-history", writes=min(3, sum(1 for h in hist if h[0].startswith("w"))), copies=min(2, sum(1 for h in hist if h[0] == "copy")))
    for req, (hist, real), rep in zip(reqs, meta, core.Driver().run(reqs)):
        model = [b2f(t) for t in rep.split()] if rep and rep[0].isdigit() else None
        if model is None or len(model) != len(real) or not all(abs(a - b) <= 1e-12 * abs(b) for a, b in zip(real, model)):
            out.fail("cw-memo", "reads of ClohessyWiltshire.n along this history of writes / copies differ from the model of the memo", {"history": hist},
                     observed=real, expected=model if model is not None else rep)


def flat_mans(mans, d0):
    from beyond.orbits.man import ImpulsiveMan
    r = []
    for m in mans:
        if isinstance(m, ImpulsiveMan):
            r += [0.0, (m.date - d0).total_seconds()] + [float(v) for v in m._dv]
        else:
            r += [1.0, (m.start - d0).total_seconds(), (m.stop - d0).total_seconds()] + [float(v) for v in m._accel]
    return r


def helper_translated(out, rng, N):
    """the maneuvers / states returned by the real CWHelper against the compiled translation of cwhelper.py (Generated/CWHelperF.lean,
    the definitions the helper theorems of Props/C16HelperSrc.lean are about), both orientations, both signs of every distance"""
    from beyond.dates import timedelta
    from beyond.utils.cwhelper import CWHelper
    reqs, meta = [], []
    for _ in range(N):
        ori = rng.choice(["QSW", "TNW"])
        sma = rng.choice([6.7e6, 7.0e6, 2.66e7, 4.2164e7]) * rng.uniform(0.99, 1.01)
        orb0, prop, d0 = make(ori, sma, [0] * 6)
        hp = CWHelper(prop)
        n = float(prop.n)
        r = rng.uniform(-3000, 3000)
        tg = rng.choice([-1, 1]) * rng.uniform(1, 3000)
        v = rng.uniform(0.01, 1.0)
        ds = q(rng.uniform(0, 5000))
        date = d0 + timedelta(seconds=ds)
        tnw = "1" if ori == "TNW" else "0"
        cases = [
            ("coelliptic", [n, ds, r, tg], [float(x) for x in hp.coelliptic(date, r, tg)] + [hp.period.total_seconds(), float(hp.hohmann_distance(r)), float(hp.hohmann_distance(r, continuous=True))]),
            ("hohmann", [n, r, ds, 0.0], flat_mans(hp.hohmann(r, date), d0)),
            ("hohmann", [n, r, ds, 1.0], flat_mans(hp.hohmann(r, date, continuous=True), d0)),
            ("eccentric", [n, tg, ds, 0.0], flat_mans(hp.eccentric_boost(tg, date), d0)),
            ("eccentric", [n, tg, ds, 1.0], flat_mans(hp.eccentric_boost(tg, date, continuous=True), d0)),
            ("tangential", [n, tg, ds, 0.0], flat_mans(hp.tangential_boost(tg, date), d0)),
            ("vbar", [n, tg, ds, v], flat_mans(hp.vbar_linear(tg, date, v), d0)),
        ]
        for which, args, real in cases:
            reqs.append(" ".join(["helper", tnw, which] + [f2b(a) for a in args]))
            meta.append((which, ori, args, real))
            out.count(key=reqs[-1], kind=f"helper-translated-{which}-{ori}", sign="neg" if args[1] < 0 else "pos")
    for req, (which, ori, args, real), rep in zip(reqs, meta, core.Driver().run(reqs)):
        model = [b2f(t) for t in rep.split()] if rep and rep[0].isdigit() else None
        # dates and durations go through timedelta (rounded to the microsecond): 2e-6 s absolute on every entry is below any physical meaning
        if model is None or len(model) != len(real) or not all(abs(a - b) <= 1e-9 * max(abs(a), abs(b)) + 2e-6 * (1.0 if abs(b) > 1.0 else 1e-6) for a, b in zip(real, model)):
            out.fail("helper-translated-" + which, "CWHelper returns something else than the translation of cwhelper.py the helper theorems are proved about",
                     {"helper": which, "ori": ori, "args": args}, observed=real, expected=model if model is not None else rep)


def helper_formulas(out, rng, N):
    """the maneuvers returned by CWHelper are exactly those the helper theorems of Props/C16Helpers.lean start from"""
    import numpy as np
    from beyond.dates import timedelta
    from beyond.utils.cwhelper import CWHelper
    for _ in range(N):
        sma = rng.choice([6.7e6, 7.0e6, 2.66e7, 4.2164e7]) * rng.uniform(0.99, 1.01)
        orb0, prop, d0 = make("QSW", sma, [0] * 6)
        hp = CWHelper(prop)
        n = float(prop.n)
        r = rng.uniform(-3000, 3000)
        d = rng.uniform(-3000, 3000)
        v = rng.uniform(0.01, 1.0)
        period = 2 * math.pi / n
        exp = []
        got = []
        co = hp.coelliptic(d0, r, d)
        got.append(list(map(float, co))); exp.append([r, d, 0, 0, -1.5 * n * r, 0])
        m = hp.hohmann(r, d0)
        got.append(list(m[0]._dv) + list(m[1]._dv) + [(m[1].date - m[0].date).total_seconds()]); exp.append([0, r * n / 4, 0] * 2 + [period / 2])
        m = hp.hohmann(r, d0, continuous=True)
        got.append(list(m[0]._accel) + [m[0].duration.total_seconds()]); exp.append([0, 2 * (r * n / 4) / period, 0, period])
        m = hp.eccentric_boost(d, d0)
        got.append(list(m[0]._dv) + list(m[1]._dv) + [(m[1].date - m[0].date).total_seconds()]); exp.append([-(d * n / 4), 0, 0] * 2 + [period / 2])
        m = hp.tangential_boost(d, d0)
        got.append(list(m[0]._dv) + list(m[1]._dv) + [(m[1].date - m[0].date).total_seconds()]); exp.append([0, -(d * n / (6 * math.pi)), 0, 0, d * n / (6 * math.pi), 0, period])
        m = hp.vbar_linear(d, d0, v)
        sv = math.copysign(v, d)
        got.append(list(m[0]._dv) + list(m[1]._accel) + list(m[2]._dv) + [m[1].duration.total_seconds()]); exp.append([0, sv, 0, -(2 * n * sv), 0, 0, 0, -sv, 0, abs(d / v)])
        out.count(key=("helper-formulas", sma, r, d, v), kind="helper-formulas")
        for g, e in zip(got, exp):
            # the last entry of each tuple is a duration: timedelta rounds it to the microsecond
            if not all(abs(float(a) - b) <= 1e-9 * max(abs(b), 1e-12) + (1e-6 if i == len(e) - 1 else 0.0) for i, (a, b) in enumerate(zip(g, e))):
                out.fail("helper-formulas", "CWHelper returns maneuvers different from the formulas the helper theorems start from",
                         {"sma": sma, "radial": r, "tangential": d, "v": v}, observed=[float(x) for x in g], expected=e)
                break


# ---------------------------------------------------------------- oracle on the real API

def hill_rhs(n, s, a):
    x, y, z, vx, vy, vz = s
    return [vx, vy, vz, 3 * n * n * x + 2 * n * vy + a[0], -2 * n * vx + a[1], -n * n * z + a[2]]


P6 = lambda s: [s[1], -s[0], s[2], s[4], -s[3], s[5]]


def oracle(ctx, widened):
    import numpy as np
    from beyond.dates import timedelta
    out = Outcome()
    rng = ctx.rng
    N = 2500 if (widened or ctx.thorough) else 250
    for _ in range(N):
        sma, period, x, t = gen_case(rng)
        orb, prop, d0 = make("QSW", sma, x)
        n = float(prop.n)
        scale = max(abs(v) for v in x[:3]) + 1.0
        # 1. Hill residual by central differences (free motion)
        h = 0.5
        t = q(t, 0.5)
        sm, s0, sp = (np.array(orb.propagate(timedelta(seconds=t + d))) for d in (-h, 0.0, h))
        d = (sp - sm) / (2 * h)
        rhs = np.array(hill_rhs(n, s0, [0, 0, 0]))
        tol = 1e-6 * scale * n + 1e-4 * scale * n ** 3 * h * h * 10 + 1e-9
        out.count(key=("hill", sma, t, tuple(x)), kind="hill-residual")
        if not np.all(np.abs(d - rhs) <= tol * np.array([1, 1, 1, n, n, n]) * 10 + 1e-9):
            out.fail("hill-residual", "finite-difference derivative of the propagated state violates Hill's equations",
                     {"sma": sma, "t": t, "x": x}, observed=list(map(float, d)), expected=list(map(float, rhs)))
        # 2. composition / inverse without maneuvers
        t1, t2 = q(rng.uniform(-1, 1) * period), q(rng.uniform(-1, 1) * period)
        a = orb.propagate(timedelta(seconds=t1)).propagate(timedelta(seconds=t2))
        b = orb.propagate(timedelta(seconds=q(t1 + t2)))
        out.count(key=("compose", sma, t1, t2), kind="compose")
        if not np.allclose(np.array(a), np.array(b), rtol=1e-7, atol=1e-7 * scale):
            out.fail("compose-free", "propagate(t1) then propagate(t2) differs from propagate(t1+t2)", {"sma": sma, "t1": t1, "t2": t2, "x": x},
                     observed=list(map(float, a)), expected=list(map(float, b)))
        # 3. TNW = permutation
        orbT, propT, _ = make("TNW", sma, P6(x))
        r = np.array(orbT.propagate(timedelta(seconds=t)))
        out.count(key=("tnw", sma, t), kind="tnw")
        if not np.allclose(r, np.array(P6(list(s0))), rtol=1e-9, atol=1e-9 * scale):
            out.fail("tnw-permutation", "TNW result is not the axis permutation of the QSW result", {"sma": sma, "t": t, "x": x},
                     observed=list(map(float, r)), expected=P6(list(map(float, s0))))
        # 3b. two-leg propagation must not depend on which Hill frames were created in between
        first, second = rng.choice([("TNW", "QSW"), ("QSW", "TNW")])
        xa = P6(x) if first == "TNW" else x
        orbA, propA, _ = make(first, sma, xa)
        direct = np.array(orbA.propagate(timedelta(seconds=q(t1 + t2))))
        if rng.random() < 0.5:
            make(second, sma, x)                  # another Hill frame of the other orientation comes into existence …
            leg1 = orbA.propagate(timedelta(seconds=t1))
        else:
            leg1 = orbA.propagate(timedelta(seconds=t1))
            make(second, sma, x)                  # … before or after the first leg
        two = np.array(leg1.propagate(timedelta(seconds=t2)))
        out.count(key=("compose-interleaved", first, sma, t1, t2), kind="compose-interleaved-" + first)
        if not np.allclose(two, direct, rtol=1e-7, atol=1e-7 * scale):
            out.fail("compose-interleaved-frames", f"two-leg propagation in {first} changes when a {second} Hill frame is created between the legs",
                     {"sma": sma, "t1": t1, "t2": t2, "x": xa, "first": first}, observed=list(map(float, two)), expected=list(map(float, direct)))
        # 4. an impulse applies exactly once: jump at its date, and composition across it
        tm = q(rng.uniform(0.05, 0.9) * period)
        dv = [rng.uniform(-0.5, 0.5) for _ in range(3)]
        orbM, propM, _ = make("QSW", sma, x, [("i", tm, dv)])
        before = np.array(orb.propagate(timedelta(seconds=tm)))
        at = np.array(orbM.propagate(timedelta(seconds=tm)))
        out.count(key=("jump", sma, tm), kind="impulse-jump")
        if not np.allclose(at - before, [0, 0, 0] + dv, rtol=0, atol=1e-9 * (scale + 1)):
            out.fail("impulse-jump", "state at the maneuver date is not the coasted state plus dv", {"sma": sma, "tm": tm, "dv": dv, "x": x},
                     observed=list(map(float, at - before)), expected=[0, 0, 0] + dv)
        t_after = q(tm + rng.uniform(0.05, 0.5) * period)
        t_more = q(rng.uniform(0.05, 0.5) * period)
        mid = orbM.propagate(timedelta(seconds=t_after))
        two = np.array(mid.propagate(timedelta(seconds=t_more)))
        one = np.array(orbM.propagate(timedelta(seconds=q(t_after + t_more))))
        out.count(key=("compose-man", sma, tm, t_after), kind="compose-across-impulse")
        if not np.allclose(two, one, rtol=1e-7, atol=1e-6 * (scale + 1)):
            out.fail("compose-across-maneuver", "re-propagating a propagated orbit applies an already passed impulse again",
                     {"sma": sma, "tm": tm, "dv": dv, "t_after": t_after, "t_more": t_more, "x": x},
                     observed=list(map(float, two)), expected=list(map(float, one)))
        # 5. continuous thrust: Hill residual with the thrust term during the burn
        ts = q(rng.uniform(0.05, 0.5) * period, 0.5)
        te = q(ts + rng.uniform(0.2, 0.5) * period, 0.5)
        acc = [rng.uniform(-1e-3, 1e-3) for _ in range(3)]
        pos = rng.choice(["start", "median", "stop"])
        orbC, propC, _ = make("QSW", sma, x, [("c", ts, te, acc, pos)])
        tq = q(rng.uniform(ts + 2, te - 2), 0.5) if rng.random() < 0.5 else q(rng.uniform(ts + 2, (ts + te) / 2), 0.5)
        sm, s0c, sp = (np.array(orbC.propagate(timedelta(seconds=tq + dd))) for dd in (-h, 0.0, h))
        d = (sp - sm) / (2 * h)
        rhs = np.array(hill_rhs(n, s0c, acc))
        out.count(key=("hill-thrust", sma, tq), kind="hill-residual-thrust", date_pos=pos)
        sc2 = scale + 1e-3 * tq * tq
        if not np.all(np.abs(d - rhs) <= (1e-5 * sc2 * n + 1e-9) * np.array([1, 1, 1, n, n, n]) * 10 + 1e-8):
            out.fail("hill-residual-thrust", "state during a continuous maneuver violates the forced Hill equations",
                     {"sma": sma, "t": tq, "x": x, "man": ["c", ts, te, acc, pos]}, observed=list(map(float, d)), expected=list(map(float, rhs)))
    piecewise(out, rng, 600 if (widened or ctx.thorough) else 90)
    foreign_frames(out, rng, 1500 if (widened or ctx.thorough) else 150)
    write_then_read(out, rng, 600 if (widened or ctx.thorough) else 90)
    second_order(out, rng, 40 if (widened or ctx.thorough) else 6)
    helpers(out, rng, 60 if (widened or ctx.thorough) else 12)
    vbar(out, rng, 40 if (widened or ctx.thorough) else 8)
    out.sample({"checks": "hill residual (free, thrust), compose, tnw permutation, impulse jump, compose across impulse, CWHelper outcomes"})
    return out


# ---------------------------------------------------------------- independent reference: Hill's equations, piecewise-constant thrust

def _expm(M):
    """matrix exponential by scaling and squaring of the Taylor series (no closed form, no scipy)"""
    import numpy as np
    nrm = float(np.abs(M).sum(axis=1).max())
    k = max(0, int(math.ceil(math.log2(nrm / 0.25)))) if nrm > 0.25 else 0
    A = M / (2.0 ** k)
    E = np.eye(len(M))
    T = np.eye(len(M))
    for j in range(1, 22):
        T = T @ A / j
        E = E + T
    for _ in range(k):
        E = E @ E
    return E


def hill_flow(n, dt, s, acc):
    """exact flow of Hill's equations with the constant acceleration `acc` over `dt` seconds (dt < 0: backwards), integrated as
    exp of the augmented system matrix in the dimensionless variables (tau = n t, v/n, a/n^2) — shares nothing with cw.py"""
    import numpy as np
    if dt == 0:
        return np.array(s, dtype=float)
    M = np.zeros((7, 7))
    M[0, 3] = M[1, 4] = M[2, 5] = 1.0
    M[3, 0] = 3.0
    M[5, 2] = -1.0
    M[3, 4] = 2.0
    M[4, 3] = -2.0
    M[3:6, 6] = np.array(acc, dtype=float) / (n * n)
    y = np.concatenate([np.array(s[:3], dtype=float), np.array(s[3:], dtype=float) / n, [1.0]])
    y = _expm(M * (n * dt)) @ y
    return np.concatenate([y[:3], y[3:6] * n])


def hill_reference(n, x0, mans, t0, t):
    """state at date t of THE solution of Hill's equations through (t0, x0): thrust = sum of the burns active at each instant
    (a burn is active on [ts, te)), velocity jump dv at every impulse date (the state AT tm contains the jump); t < t0: the
    maneuvers between t and t0 are undone"""
    import numpy as np
    s = np.array(x0, dtype=float)
    if t == t0:
        return s
    lo, hi = min(t0, t), max(t0, t)
    cuts = {t0, t}
    for m in mans:
        for c in ((m[1],) if m[0] == "i" else (m[1], m[2])):
            if lo < c < hi:
                cuts.add(c)
    fwd = t > t0
    cuts = sorted(cuts, reverse=not fwd)

    def dv_at(c):
        return sum((np.array(m[2], dtype=float) for m in mans if m[0] == "i" and m[1] == c), np.zeros(3))
    if not fwd:
        s[3:] -= dv_at(t0)              # an impulse dated exactly t0 is part of x0: going back, it is undone first
    for a, b in zip(cuts[:-1], cuts[1:]):
        mid = 0.5 * (a + b)
        acc = sum((np.array(m[3], dtype=float) for m in mans if m[0] == "c" and m[1] <= mid < m[2]), np.zeros(3))
        s = hill_flow(n, b - a, s, acc)
        if fwd:
            s[3:] += dv_at(b)           # includes b == t (tm <= t)
        elif b != t:
            s[3:] -= dv_at(b)           # t < tm: undone; an impulse dated exactly t stays
    return s


def man_active(m, t0, t):
    """does propagate(t) of an orbit dated t0 have to account for maneuver m (true solution)"""
    if m[0] == "i":
        return (t0 < m[1] <= t) or (t < m[1] <= t0)
    return (m[2] > t0 and t > m[1]) if t >= t0 else (m[1] < t0 and m[2] > t)


def classify(mans, t0, t):
    """call-site description of a (list, orbit date, target date) triple: which branch sequence of propagate() it takes.
    The two open findings are exactly the first two classes."""
    if t >= t0:
        for i, m in enumerate(mans):
            if m[0] == "c" and m[2] > t0 and t >= m[1] and m[1] <= t < m[2]:
                # propagate() returns from inside the loop here
                if any(man_active(mm, t0, t) for mm in mans[i + 1:]):
                    return "date-inside-burn-skips-later-listed-maneuver"
                return "date-inside-burn"
        return "forward-outside-burns"
    if any(man_active(m, t0, t) and not (m[0] == "c" and m[1] <= t and m[2] > t0) for m in mans) or \
            sum(1 for m in mans if m[0] == "c" and m[1] <= t and m[2] > t0) > 1:
        return "backward-across-maneuver"
    return "backward-clear"


def shape(mans):
    """structure of a maneuver list: overlapping burns / impulse inside a burn / non-chronological"""
    tags = []
    burns = [m for m in mans if m[0] == "c"]
    if any(a is not b and a[1] < b[2] and b[1] < a[2] for a in burns for b in burns):
        tags.append("overlap")
    if any(m[0] == "i" and b[1] <= m[1] <= b[2] for m in mans for b in burns):
        tags.append("imp-in-burn")
    st = [m[1] for m in mans]
    if st != sorted(st):
        tags.append("nonchrono")
    pos = sorted({m[4] for m in burns if len(m) > 4 and m[4] != "start"})
    if pos:
        tags.append("datepos-" + "-".join(pos))
    return "+".join(tags) or "plain"


def gen_sequence(rng, period):
    """maneuver lists of every shape: overlapping / nested burns, impulses inside and at the ends of burns, back-to-back burns,
    non-chronological order, maneuvers dated before the orbit (already part of its state)"""
    u = lambda a, b: q(rng.uniform(a, b) * period)
    acc = lambda: [rng.uniform(-1e-3, 1e-3) for _ in range(3)]
    dv = lambda: [rng.uniform(-0.5, 0.5) for _ in range(3)]
    kind = rng.choice(["overlap2", "overlap3", "nested", "imp-in-burn", "back-to-back", "coincident", "disjoint", "mixed", "past"])
    a = u(0.02, 0.5)
    d = u(0.1, 0.5)
    if kind == "overlap2":
        mans = [("c", a, q(a + d), acc()), ("c", q(a + rng.uniform(0.1, 0.9) * d), q(a + d + u(0.05, 0.4)), acc())]
    elif kind == "overlap3":
        b = q(a + rng.uniform(0.2, 0.6) * d)
        c = q(a + rng.uniform(0.6, 0.95) * d)
        mans = [("c", a, q(a + d), acc()), ("c", b, q(b + d), acc()), ("c", c, q(c + d), acc())]
    elif kind == "nested":
        b = q(a + rng.uniform(0.1, 0.4) * d)
        mans = [("c", a, q(a + d), acc()), ("c", b, q(b + rng.uniform(0.1, 0.5) * d), acc())]
    elif kind == "imp-in-burn":
        mans = [("c", a, q(a + d), acc()), ("i", q(a + rng.uniform(0.1, 0.9) * d), dv())]
        if rng.random() < 0.5:
            mans = [("i", q(a * rng.uniform(0.2, 0.9)), dv())] + mans + [("i", q(a + d + u(0.02, 0.3)), dv())]
    elif kind == "back-to-back":
        b = q(a + d)
        mans = [("c", a, b, acc()), ("c", b, q(b + u(0.05, 0.4)), acc())]
        if rng.random() < 0.5:
            mans.insert(1, ("i", b, dv()))
    elif kind == "coincident":
        # vbar_linear pattern: impulse, burn starting at the same date, impulse at its end — and the other listing orders
        b = q(a + d)
        mans = [("i", a, dv()), ("c", a, b, acc()), ("i", b, dv())]
        if rng.random() < 0.4:
            mans = [mans[1], mans[0], mans[2]]
    elif kind == "disjoint":
        mans, c = [], a
        for _ in range(rng.choice([1, 2, 3, 4])):
            if rng.random() < 0.5:
                mans.append(("i", c, dv()))
                c = q(c + u(0.01, 0.3))
            else:
                e = q(c + u(0.02, 0.3))
                mans.append(("c", c, e, acc()))
                c = q(e + (u(0.01, 0.3) if rng.random() < 0.7 else 0.0))
    elif kind == "mixed":
        mans = []
        for _ in range(rng.choice([2, 3, 4, 5])):
            c = u(0.02, 1.2)
            mans.append(("i", c, dv()) if rng.random() < 0.4 else ("c", c, q(c + u(0.02, 0.6)), acc()))
        mans.sort(key=lambda m: m[1])
    else:  # past: maneuvers dated before the orbit, a burn under way at the orbit's date
        mans = [("i", -u(0.05, 0.5), dv()), ("c", -u(0.3, 0.6), -u(0.05, 0.2), acc()), ("c", -u(0.01, 0.2), u(0.05, 0.4), acc()), ("i", u(0.5, 0.9), dv())]
        if rng.random() < 0.5:
            mans.append(("i", 0.0, dv()))
    if rng.random() < 0.25:
        rng.shuffle(mans)
    return kind, with_date_pos(rng, mans)


def interesting_dates(rng, mans, period):
    """dates before / inside / exactly at the ends of / just beside / after every maneuver, and before the orbit's date"""
    c = [0.0, q(-rng.uniform(0.05, 1.0) * period)]
    last = 0.0
    for m in mans:
        ends = (m[1],) if m[0] == "i" else (m[1], m[2])
        for e in ends:
            c += [e, q(e + 0.001), q(e - 0.001)]
            last = max(last, e)
        if m[0] == "c":
            mid = q((m[1] + m[2]) / 2)
            # inside the burn: anywhere, in its first half (before the reference date of a median- / stop-dated burn), exactly at its median
            c += [q(rng.uniform(m[1], m[2])), q(rng.uniform(m[1], mid)), mid]
    ev = sorted({e for m in mans for e in ((m[1],) if m[0] == "i" else (m[1], m[2]))})
    for a, b in zip(ev[:-1], ev[1:]):
        c.append(q(rng.uniform(a, b)))
    c += [q(last + rng.uniform(0.01, 1.0) * period), q(rng.uniform(0.0, 2.0) * period)]
    return c


def perm_mans(mans):
    p3 = lambda v: [v[1], -v[0], v[2]]
    return [(m[0], m[1], p3(m[2])) if m[0] == "i" else (m[0], m[1], m[2], p3(m[3])) + tuple(m[4:]) for m in mans]


def seq_scale(x, mans, t0, t):
    span = abs(t - t0) + 1.0
    sv = max(abs(v) for v in x[3:]) + sum(max(abs(v) for v in m[2]) if m[0] == "i" else max(abs(v) for v in m[3]) * (m[2] - m[1]) for m in mans)
    return max(abs(v) for v in x[:3]) + span * sv + 1.0, sv + 1e-3


def check_seq(out, tag, ori, sma, x, mans, t0, t, got, n, kind):
    """`got` = what the library returned (in orientation `ori`) for an orbit dated t0 with state x propagated to t"""
    import numpy as np
    xq = x if ori == "QSW" else [-x[1], x[0], x[2], -x[4], x[3], x[5]]
    mq = mans if ori == "QSW" else [(m[0], m[1], [-m[2][1], m[2][0], m[2][2]]) if m[0] == "i" else (m[0], m[1], m[2], [-m[3][1], m[3][0], m[3][2]]) for m in mans]
    ref = hill_reference(n, xq, mq, t0, t)
    if ori == "TNW":
        ref = np.array(P6(list(ref)))
    sp, sv = seq_scale(x, mans, t0, t)
    cls = classify(mans, t0, t)
    out.count(key=(tag, ori, sma, t0, t, len(mans)), kind=f"{tag}-{cls}", shape=shape(mans), scenario=kind)
    tol = np.array([1e-8 * sp + 1e-7] * 3 + [1e-8 * (sp * n + sv) + 1e-10] * 3)
    if not np.all(np.abs(np.array(got) - ref) <= tol):
        if cls in ("date-inside-burn-skips-later-listed-maneuver", "backward-across-maneuver"):
            fam = "piecewise-" + cls
        else:
            fam = f"piecewise-{cls}-{shape(mans)}"
        out.fail(fam, "the propagated state is not the solution of Hill's equations forced by the sum of the active thrusts and the impulses at their dates",
                 {"check": tag, "ori": ori, "sma": sma, "x": x, "mans": mans, "t0": t0, "t": t}, observed=[float(v) for v in got], expected=[float(v) for v in ref])
        return False
    return True


def piecewise(out, rng, N):
    """propagate() against the independent integration of Hill's equations: every list shape, every kind of date, one leg from the
    initial orbit and a second leg from the returned orbit (which still carries the list) forwards and backwards; superposition"""
    import numpy as np
    from beyond.dates import timedelta
    for _ in range(N):
        sma, period, x, _t = gen_case(rng)
        ori = rng.choice(["QSW", "TNW"])
        kind, mans = gen_sequence(rng, period)
        orb, prop, d0 = make(ori, sma, x, mans)
        n = float(prop.n)
        dates = interesting_dates(rng, mans, period)
        for t in rng.sample(dates, min(4, len(dates))):
            got = np.array(orb.propagate(timedelta(seconds=t)))
            ok = check_seq(out, "one-leg", ori, sma, x, mans, 0.0, t, got, n, kind)
            if ok and len(mans) >= 2 and rng.random() < 0.3:
                # superposition: the effect of the list is the sum of the effects of its members
                free = np.array(make(ori, sma, x)[0].propagate(timedelta(seconds=t)))
                parts = sum(np.array(make(ori, sma, x, [m])[0].propagate(timedelta(seconds=t))) - free for m in mans)
                sp, sv = seq_scale(x, mans, 0.0, t)
                cls = classify(mans, 0.0, t)
                out.count(key=("superposition", ori, sma, t), kind="superposition-" + cls)
                if not np.allclose(got - free, parts, rtol=0, atol=1e-8 * sp + 1e-7):
                    out.fail(f"superposition-{cls}-{shape(mans)}", "state with all maneuvers differs from the sum of the single-maneuver effects",
                             {"ori": ori, "sma": sma, "x": x, "mans": mans, "t": t}, observed=list(map(float, got - free)), expected=list(map(float, parts)))
        # second leg from a returned orbit: its date may lie inside / after any maneuver; target before or after it
        t1, t2 = rng.sample(dates, 2)
        if t1 < 0:
            t1, t2 = t2, t1
        if t1 > 0:
            mid = orb.propagate(timedelta(seconds=t1))
            xm = [float(v) for v in mid]
            got = np.array(mid.propagate(timedelta(seconds=q(t2 - t1))))
            check_seq(out, "second-leg", ori, sma, xm, mans, t1, t2, got, n, kind)


def foreign_frames(out, rng, N):
    """the propagated state solves Hill's equations with the mean motion of the propagator's OWN target (n^2 a^3 = mu of the centre its frame
    was built about — Earth, Moon, Sun, a user-defined centre), whatever other Hill frames (same / other orientation, same / other centre)
    come into existence before the frame, before the propagator, before its first use or between two legs.  Reference: the independent
    matrix-exponential integration of Hill's equations with n computed from the inputs; also n itself and the helper's period."""
    import numpy as np
    from beyond.orbits import Orbit
    from beyond.dates import Date, timedelta
    from beyond.propagators.cw import ClohessyWiltshire
    from beyond.frames.frames import HillFrame
    from beyond.utils.cwhelper import CWHelper
    for _ in range(N):
        cname = rng.choice(CENTRE_NAMES)
        ori = rng.choice(["QSW", "TNW"])
        sma = gen_sma(rng, cname)
        n = math.sqrt(centre_mu(cname) / sma ** 3)
        period = 2 * math.pi / n
        xq = gen_state(rng, n)
        x = P6(xq) if ori == "TNW" else xq
        where = rng.choice(["before-frame", "before-propagator", "before-first-use", "between-legs", "after-n-read", "none"])
        by = (rng.choice(["QSW", "TNW"]), rng.choice(CENTRE_NAMES))
        t1, t2 = q(rng.uniform(-1, 1) * period), q(rng.uniform(-1, 1) * period)
        own_target_one(out, cname, ori, sma, x, t1, t2, by, where)


def own_target_one(out, cname, ori, sma, x, t1, t2, by, where):
    import numpy as np
    from beyond.orbits import Orbit
    from beyond.dates import Date, timedelta
    from beyond.propagators.cw import ClohessyWiltshire
    from beyond.frames.frames import HillFrame
    from beyond.utils.cwhelper import CWHelper
    d0 = Date(2020, 5, 24)
    if True:
        n = math.sqrt(centre_mu(cname) / sma ** 3)
        period = 2 * math.pi / n
        xq = [-x[1], x[0], x[2], -x[4], x[3], x[5]] if ori == "TNW" else list(x)
        rel = ("same-ori" if by[0] == ori else "other-ori") + ("-same-centre" if by[1] == cname else "-other-centre")

        def bystander(at):
            if where == at:
                HillFrame(orientation=by[0], center=centres()[by[1]])
        bystander("before-frame")
        hill = HillFrame(orientation=ori, center=centres()[cname])
        bystander("before-propagator")
        prop = ClohessyWiltshire(sma, frame=hill)
        if where == "after-n-read":
            float(prop.n)
        bystander("after-n-read")
        orb = Orbit(list(x), d0, "cartesian", hill, prop)
        bystander("before-first-use")
        leg1 = orb.propagate(timedelta(seconds=t1))
        bystander("between-legs")
        leg2 = leg1.propagate(timedelta(seconds=t2))
        inp = {"centre": cname, "ori": ori, "sma": sma, "x": x, "t1": t1, "t2": t2, "other_frame": list(by), "created": where}
        out.count(key=("own-target", cname, ori, sma, t1, t2), kind="own-target-" + cname, other=rel if where != "none" else "none", created=where)
        sv = max(abs(v) for v in xq[3:]) + 1e-9
        sp = max(abs(v) for v in xq[:3]) + (abs(t1) + abs(t2)) * sv + 1.0
        tol = np.array([1e-8 * sp + 1e-7] * 3 + [1e-8 * (sp * n + sv) + 1e-10] * 3)
        ok = True
        for name, got, t in (("first leg", leg1, t1), ("second leg", leg2, q(t1 + t2))):
            ref = hill_flow(n, t, xq, [0.0, 0.0, 0.0])
            if ori == "TNW":
                ref = np.array(P6(list(ref)))
            if not np.all(np.abs(np.array(got, dtype=float) - ref) <= tol):
                out.fail("own-target-mean-motion", f"{name}: the propagated state is not the solution of Hill's equations for the mean motion of its own target "
                         "(n^2 a^3 = mu of the centre its Hill frame was built about)", inp, observed=[float(v) for v in got], expected=[float(v) for v in ref])
                ok = False
                break
        if ok:
            per = CWHelper(prop).period.total_seconds()
            if abs(float(prop.n) - n) > 1e-12 * n or abs(per - period) > 1e-9 * period + 2e-6:
                out.fail("own-target-mean-motion", "mean motion / helper period of the propagator is not the one of its own target", inp,
                         observed={"n": float(prop.n), "period": per}, expected={"n": n, "period": period})


def write_then_read(out, rng, N):
    """a read after an in-place write returns what a fresh object returns: `prop.sma` / `prop.frame` (plain public attributes) are
    reassigned before or after the propagator was first used (n read / a propagation); the next propagation must be the solution of
    Hill's equations for the CURRENT target (reference: independent integration with n from the current values)"""
    for _ in range(N):
        cname = rng.choice(CENTRE_NAMES)
        ori = rng.choice(["QSW", "TNW"])
        sma = gen_sma(rng, cname)
        attr = rng.choice(["sma", "frame"])
        used = rng.choice(["n-read", "propagated", "unused"])
        cname2 = cname if attr == "sma" else rng.choice([c for c in CENTRE_NAMES if c != cname])
        sma2 = gen_sma(rng, cname2)
        n2 = math.sqrt(centre_mu(cname2) / sma2 ** 3)
        xq = gen_state(rng, n2)
        x = P6(xq) if ori == "TNW" else xq
        t0 = q(rng.uniform(-1, 1) * 3000.0)
        t = q(rng.uniform(-1, 1) * 2 * math.pi / n2)
        write_then_read_one(out, cname, ori, sma, attr, used, cname2, sma2, x, t0, t)


def write_then_read_one(out, cname, ori, sma, attr, used, cname2, sma2, x, t0, t):
    import numpy as np
    from beyond.orbits import Orbit
    from beyond.dates import Date, timedelta
    from beyond.propagators.cw import ClohessyWiltshire
    from beyond.frames.frames import HillFrame
    d0 = Date(2020, 5, 24)
    hill = HillFrame(orientation=ori, center=centres()[cname])
    prop = ClohessyWiltshire(sma, frame=hill)
    orb = Orbit(list(x), d0, "cartesian", hill, prop)
    if used == "n-read":
        float(prop.n)
    elif used == "propagated":
        orb.propagate(timedelta(seconds=t0))
    if attr == "sma":
        prop.sma = sma2
    else:
        prop.sma = sma2
        prop.frame = HillFrame(orientation=ori, center=centres()[cname2])
    got = np.array(orb.propagate(timedelta(seconds=t)), dtype=float)
    n2 = math.sqrt(centre_mu(cname2) / sma2 ** 3)
    xq = [-x[1], x[0], x[2], -x[4], x[3], x[5]] if ori == "TNW" else list(x)
    ref = hill_flow(n2, t, xq, [0.0, 0.0, 0.0])
    if ori == "TNW":
        ref = np.array(P6(list(ref)))
    sv = max(abs(v) for v in xq[3:]) + 1e-9
    sp = max(abs(v) for v in xq[:3]) + abs(t) * sv + 1.0
    tol = np.array([1e-8 * sp + 1e-7] * 3 + [1e-8 * (sp * n2 + sv) + 1e-10] * 3)
    out.count(key=("write", cname, ori, sma, sma2, t), kind=f"write-{attr}-{used}")
    if t != 0 and not np.all(np.abs(got - ref) <= tol):
        fam = "in-place-write-after-first-use" if used != "unused" else "in-place-write-before-first-use"
        out.fail(fam, f"after `prop.{attr} = ...` the propagation is not the solution of Hill's equations for the current target (what a fresh propagator built with the current values returns)",
                 {"centre": cname, "ori": ori, "sma": sma, "written": attr, "used": used, "new_centre": cname2, "new_sma": sma2, "x": list(x), "t_first_use": t0, "t": t},
                 observed=[float(v) for v in got], expected=[float(v) for v in ref])


def exact_relative(n, R, s0, T, steps=1500):
    """RK4 integration of the EXACT two-body relative dynamics in the target's rotating QSW frame (target on a circular orbit of radius R,
    mu = n^2 R^3): acceleration = Coriolis (2 n vy, -2 n vx, 0) + relAcc (centrifugal - gravity) — the field whose linearisation at the
    target is proved to be Hill's right-hand side in Props/C16Lin.lean (relAcc_linearisation)"""
    import numpy as np
    mu = n * n * R ** 3

    def f(s):
        x, y, z, vx, vy, vz = s
        r3 = ((R + x) ** 2 + y * y + z * z) ** 1.5
        return np.array([vx, vy, vz,
                         2 * n * vy + n * n * (R + x) - mu * (R + x) / r3,
                         -2 * n * vx + n * n * y - mu * y / r3,
                         -mu * z / r3])
    s = np.array(s0, dtype=float)
    h = T / steps
    for _ in range(steps):
        k1 = f(s); k2 = f(s + h / 2 * k1); k3 = f(s + h / 2 * k2); k4 = f(s + h * k3)
        s = s + h / 6 * (k1 + 2 * k2 + 2 * k3 + k4)
    return s


def second_order(out, rng, N):
    """for small separations the Clohessy-Wiltshire state agrees with the true relative motion of two Keplerian orbits to second order in
    the separation: halving the separation divides the discrepancy by ~4 (fitted exponent >= 1.8), and the discrepancy is O(sep^2 / R)"""
    import numpy as np
    from beyond.dates import timedelta
    for _ in range(N):
        sma = rng.choice([6.7e6, 7.2e6, 2.66e7, 4.2164e7])
        prop = make("QSW", sma, [0] * 6)[1]
        n = float(prop.n)
        period = 2 * math.pi / n
        T = q(rng.uniform(0.1, 0.5) * period)
        u = np.array([rng.uniform(-1, 1) for _ in range(3)]); u /= np.linalg.norm(u)
        w = np.array([rng.uniform(-1, 1) for _ in range(3)]); w /= np.linalg.norm(w)
        seps = [sma * 3e-4, sma * 1.5e-4, sma * 0.75e-4]       # 2 km, 1 km, 0.5 km in LEO
        errs = []
        for d in seps:
            x0 = list(d * u) + list(d * n * w)
            cw = np.array(make("QSW", sma, x0)[0].propagate(timedelta(seconds=T)))
            ex = exact_relative(n, sma, x0, T)
            errs.append(float(np.linalg.norm(cw[:3] - ex[:3])))
        expo = [math.log2(errs[i] / errs[i + 1]) if errs[i + 1] > 0 else 2.0 for i in range(2)]
        out.count(key=("second-order", sma, T), kind="second-order-agreement")
        if min(expo) < 1.8 or errs[0] > 300 * seps[0] ** 2 / sma:
            out.fail("second-order-agreement", "discrepancy with the exact relative two-body motion does not shrink as separation squared",
                     {"sma": sma, "T": T, "direction": list(map(float, u)), "velocity_direction": list(map(float, w)), "separations": seps},
                     observed={"errors_m": errs, "exponents": expo}, expected={"exponents": ">= 1.8", "errors_m": f"<= {300 * seps[0] ** 2 / sma:.3g}"})


def helpers(out, rng, N):
    """the rendezvous helper's maneuvers move the chaser by exactly the announced distances"""
    import numpy as np
    from beyond.dates import timedelta
    from beyond.utils.cwhelper import CWHelper
    for _ in range(N):
        for ori in ("QSW", "TNW"):
            sma = rng.choice([6.7e6, 7.0e6, 2.66e7, 4.2164e7])
            radial = rng.uniform(-3000, 3000)
            tang = rng.uniform(-5000, 5000)
            orb0, prop, d0 = make(ori, sma, [0] * 6)
            hp = CWHelper(prop)
            ri, ti = (0, 1) if ori == "QSW" else (1, 0)
            sgn_r = 1 if ori == "QSW" else -1  # TNW: N = -radial? (perm6: [y, -x]) radial component index 1 carries -x
            period = hp.period.total_seconds()
            # coelliptic drift: radial offset stays, tangential drifts at -1.5 n radial
            orb = hp.coelliptic(d0, radial, tang)
            T = q(rng.uniform(0.1, 1.5) * period)
            r = np.array(orb.propagate(timedelta(seconds=T)))
            m6 = np.array(prop._mat6)
            rq = m6.T @ r
            out.count(key=("coelliptic", ori, sma, radial, T), kind="helper-coelliptic")
            if not (abs(rq[0] - radial) < 1e-6 * (abs(radial) + 1) and abs(rq[1] - (tang - 1.5 * prop.n * radial * T)) < 1e-6 * (abs(tang) + abs(radial) * 10 + 1)
                    and abs(rq[3]) < 1e-9 * (abs(radial) + 1)):
                out.fail("helper-coelliptic", "coelliptic orbit does not keep its radial distance / drift rate", {"ori": ori, "sma": sma, "radial": radial, "tang": tang, "T": T},
                         observed=list(map(float, rq)))
            # hohmann: from a coelliptic orbit `radial` below, impulsive and continuous
            for cont in (False, True):
                orb = hp.coelliptic(d0, -radial, tang)
                start = d0 + timedelta(seconds=60)
                orb.maneuvers = list(hp.hohmann(radial, start, continuous=cont))
                dur = period if cont else period / 2
                end = orb.propagate(start + timedelta(seconds=dur) + timedelta(seconds=1e-3))
                rq = m6.T @ np.array(end)
                at_start = m6.T @ np.array(hp.coelliptic(d0, -radial, tang).propagate(start))
                moved = rq[1] - at_start[1]
                out.count(key=("hohmann", ori, cont, sma, radial), kind=f"helper-hohmann-{'cont' if cont else 'imp'}")
                exp = hp.hohmann_distance(radial, continuous=cont)
                if not (abs(rq[0]) < 2e-5 * (abs(radial) + 1) and abs(moved - exp) < 2e-5 * (abs(exp) + 1) and np.all(np.abs(rq[3:]) < 2e-5 * prop.n * (abs(radial) + 1) + 1e-9)):
                    out.fail("helper-hohmann", "Hohmann helper does not arrive at radial 0 / announced along-track distance / at rest",
                             {"ori": ori, "continuous": cont, "sma": sma, "radial": radial}, observed={"end": list(map(float, rq)), "moved": float(moved)}, expected={"moved": float(exp)})
            # eccentric boost & tangential boost from rest on the V-bar
            for name in ("eccentric", "tangential"):
                for cont in ((False, True) if name == "eccentric" else (False,)):
                    from beyond.orbits import Orbit
                    orb = Orbit(m6 @ [0, tang, 0, 0, 0, 0], d0, "cartesian", "Hill", prop)
                    start = d0 + timedelta(seconds=30)
                    dist = rng.uniform(-800, 800)
                    if name == "eccentric":
                        orb.maneuvers = list(hp.eccentric_boost(dist, start, continuous=cont))
                        dur = period if cont else period / 2
                    else:
                        orb.maneuvers = list(hp.tangential_boost(dist, start))
                        dur = period
                    end = orb.propagate(start + timedelta(seconds=dur) + timedelta(seconds=1e-3))
                    rq = m6.T @ np.array(end)
                    out.count(key=(name, ori, cont, sma, dist), kind=f"helper-{name}")
                    if not (abs(rq[0]) < 2e-5 * (abs(dist) + 1) and abs(rq[1] - tang - dist) < 2e-5 * (abs(dist) + 1) and np.all(np.abs(rq[3:]) < 2e-5 * prop.n * (abs(dist) + 1) + 1e-9)):
                        out.fail("helper-" + name, f"{name} boost does not move the chaser by the announced along-track distance and leave it at rest",
                                 {"ori": ori, "continuous": cont, "sma": sma, "tangential": dist}, observed=list(map(float, rq)), expected=[0, tang + dist, 0, 0, 0, 0])


def vbar(out, rng, N):
    import numpy as np
    from beyond.dates import timedelta
    from beyond.orbits import Orbit
    from beyond.utils.cwhelper import CWHelper
    for _ in range(N):
        for ori in ("QSW", "TNW"):
            sma = rng.choice([6.7e6, 7.0e6, 4.2164e7])
            orb0, prop, d0 = make(ori, sma, [0] * 6)
            hp = CWHelper(prop)
            m6 = np.array(prop._mat6)
            tang0 = rng.uniform(-500, 500)
            dist = rng.choice([-1, 1]) * rng.uniform(20, 400)
            v = rng.uniform(0.05, 0.8)
            orb = Orbit(m6 @ [0, tang0, 0, 0, 0, 0], d0, "cartesian", "Hill", prop)
            start = d0 + timedelta(seconds=30)
            orb.maneuvers = list(hp.vbar_linear(dist, start, v))
            dur = orb.maneuvers[1].duration.total_seconds()
            for when, exp_v in ((dur + 1e-3, 0.0), (dur, 0.0), (dur / 2, math.copysign(v, dist))):
                end = orb.propagate(start + timedelta(seconds=when))
                rq = m6.T @ np.array(end)
                frac = min(when, dur) / dur
                out.count(key=("vbar", ori, sma, dist, v, when), kind="helper-vbar")
                if not (abs(rq[0]) < 1e-4 and abs(rq[1] - tang0 - dist * frac) < 1e-4 * (abs(dist) + 1) and abs(rq[4] - exp_v) < 1e-7 and abs(rq[3]) < 1e-6):
                    out.fail("helper-vbar", "V-bar linear approach does not stay on the V-bar / cover the announced distance / end at rest",
                             {"ori": ori, "sma": sma, "tangential": dist, "dv": v, "at": when, "duration": dur}, observed=list(map(float, rq)), expected=[0, tang0 + dist * frac, 0, 0, exp_v, 0])


def replay(f):
    import numpy as np
    from beyond.dates import timedelta
    fam, inp = f["family"], f["input"]
    if fam.startswith("in-place-write-") and isinstance(inp, dict) and "written" in inp:
        out = Outcome()
        write_then_read_one(out, inp["centre"], inp["ori"], inp["sma"], inp["written"], inp["used"], inp["new_centre"], inp["new_sma"], inp["x"], inp["t_first_use"], inp["t"])
        return out
    if fam == "own-target-mean-motion" and isinstance(inp, dict) and "other_frame" in inp:
        out = Outcome()
        own_target_one(out, inp["centre"], inp["ori"], inp["sma"], inp["x"], inp["t1"], inp["t2"], tuple(inp["other_frame"]), inp["created"])
        return out
    if fam.startswith("piecewise-") and isinstance(inp, dict) and "mans" in inp:
        # re-run the recorded (list, orbit date, target date) on the real propagator against the independent integration
        out = Outcome()
        mans = [tuple(m) for m in inp["mans"]]
        orb, prop, d0 = make(inp["ori"], inp["sma"], inp["x"], mans, t0=inp["t0"])
        got = np.array(orb.propagate(timedelta(seconds=q(inp["t"] - inp["t0"]))))
        check_seq(out, inp.get("check", "one-leg"), inp["ori"], inp["sma"], inp["x"], mans, inp["t0"], inp["t"], got, float(prop.n), "replay")
        return out
    # other families: a short oracle sweep (failing inputs that belong to an open known finding do not count as a reproduction)
    ctx = core.Ctx(ID, "quick", 0)
    out = oracle(ctx, False)
    known = core.load_known()
    out.failures = [x for x in out.failures if core.match_known(ID, x, known) is None]
    return out
