"""C18 — Solar-system body positions: analytical Sun/Moon series and JPL SPK kernels."""
import json
import math
import os
import subprocess
import sys

from harness import core, py2lean, instantiate
from harness.core import Outcome, f2b, b2f

ID = "C18"
LEAN_TARGETS = ["BeyondVerif.Props.C18", "BeyondVerif.Props.C18Hist", "BeyondVerif.Props.C18Arg", "BeyondVerif.Props.C18Series", "BeyondVerif.Props.C18Tab", "BeyondVerif.Witness.C18"]
THEOREMS = [
    "BeyondVerif.C18.spk_chain",
    "BeyondVerif.C18.spk_offset",
    "BeyondVerif.C18.spk_path_sum",
    "BeyondVerif.C18.spk_antisymm",
    "BeyondVerif.C18.growth_consistent",
    "BeyondVerif.C18.growth_uniqueCenter",
    "BeyondVerif.C18.perm_growth_consistent",
    "BeyondVerif.C18.de403_growth",
    "BeyondVerif.C18.de403_routes",
    "BeyondVerif.C18.de403_spk_chain",
    "BeyondVerif.C18.pck_independent",
    "BeyondVerif.C18.spk_propagator_reverse",
    "BeyondVerif.C18.spk_propagator_either_direction",
    "BeyondVerif.C18.spk_attached_frames",
    "BeyondVerif.C18.spk_as_frame",
    "BeyondVerif.C18.attach_potential_all",
    "BeyondVerif.C18.history_independent",
    "BeyondVerif.C18.inplace_is_copy",
    "BeyondVerif.C18.object_tracks_body",
    "BeyondVerif.C18.kernel_arg_is_tdb_jd",
    "BeyondVerif.C18.kernel_arg_label_free",
    "BeyondVerif.C18.kernel_arg_of_instant",
    "BeyondVerif.C18.sun_distance_range",
    "BeyondVerif.C18.moon_distance_range",
    "BeyondVerif.C18.sun_state_entries",
    "BeyondVerif.C18.moon_state_entries",
    "BeyondVerif.C18.velocity_error_at_steps",
    "BeyondVerif.C18.table_length",
    "BeyondVerif.C18.table_point",
    "BeyondVerif.C18.table_point_function_of_date",
    "BeyondVerif.C18.sun_table_entries",
    "BeyondVerif.C18.moon_table_entries",
    "BeyondVerif.C18.tabulation_is_modelled",
    "BeyondVerif.CentralDiff.central_difference_error",
    "BeyondVerif.CentralDiff.central_difference_exact_quadratic",
    "BeyondVerif.C18W.two_centres_consistent",
    "BeyondVerif.C18W.two_centres_wrong",
    "BeyondVerif.C18W.asframe_reframed_consistent",
    "BeyondVerif.C18W.asframe_reframed_fixed",
]
LEVEL_TEXT = ("Lean theorems about a model of create_frames / JplPropagator.propagate / Center.convert_to / Frame.transform (routing = the Node model of C20; "
              "jplephem segment values are a parameter): for EVERY kernel in which no body is the target of two centres, all segment values deriving from one "
              "position per body (proved to exist for every kernel grown segment by segment, in any order of the segments: perm_growth_consistent), every ordered pair of bodies and every fuel, the vector returned by "
              "get_orbit(a).copy(frame=b) and by re-framing a zero state vector is the position/velocity of a relative to b in m, m/s, equals the signed sum of the "
              "file's segments along a chain of kernel links, and a->b = -(b->a); for the DE403 kernel of the test data (pairs regenerated from the file each run) all "
              "256 ordered pairs are routed (kernel decide) and return exactly that vector; independence of the PCK constants. Every public route and histories: a JplPropagator "
              "built by hand for the reverse of a segment returns minus the direct one in all six components (spk_propagator_reverse) and, either way, position and velocity of the "
              "first body relative to the second (spk_propagator_either_direction); conversions between any frames, kernel bodies or frames made with Orbit.as_frame/orbit2frame, add "
              "the difference of the centres' positions, the frame made from the orbit of a body as seen from either end of its segment (a non-Earth centre), whatever frame the orbit had been re-framed to, being centred on that body "
              "(spk_attached_frames, spk_as_frame); in EVERY world - whatever objects the caller holds, however he modified them in place, whatever admissible frames he attached - a "
              "request returns the vector the property states, a function of the kernel and the segment values at its date only (history_independent: the model, like the code, keeps no "
              "memory between requests); orb.frame = b leaves in orb what orb.copy(frame=b) returns, still the position of its body (inplace_is_copy, object_tracks_body). The TDB argument: the "
              "expression JplPropagator.propagate hands to jplephem is read from the ASTs of propagate / Date.jd / Date.mjd on every run (Generated/JplArg); it is the Julian date of the TDB "
              "conversion and reads nothing of the caller's date (kernel_arg_is_tdb_jd, kernel_arg_label_free - a mixed expression breaks the build), and on C03's model of Date two "
              "caller dates of any scales whose TDB conversions denote one instant ask the kernel at one argument (kernel_arg_of_instant). Sun/Moon: the two series are translated "
              "from solarsystem.py on every run; for every T the position is distance x unit vector with the distance inside the range of its series, the velocity "
              "entries are the symmetric difference quotient of the positions, whose distance from the derivative is bounded by h^2/6 sup|f3| (general theorem, "
              "instantiated to the two steps read from the classes); the same at every point of every tabulation (Orbit.iter / ephemeris / ephem / propagator.iter, start-stop-step or dates=): "
              "a tabulated state is the single propagation at its date, a function of that date only - not of the step of the table, its neighbours, its place or the number of points "
              "(table_point, table_point_function_of_date, sun/moon_table_entries), the shape of the inherited _iter (yields self.propagate(date) for each date, nothing else) and the method "
              "resolution of the two classes being regenerated from the live classes on every run (tabulation_is_modelled). The model is tied to the code by a differential correspondence on all ordered pairs of the real "
              "kernel with and without PCK files, on synthetic kernels installed in place of the file, on the two propagators, and on histories of requests driven through the real objects "
              "(get_orbit / get_propagator / Body.propagate / hand-made propagators in both directions of every segment, in-place frame, form and value changes of the answers, copies, "
              "as_frame of the answers incl. QSW/TNW orientations and Ephem.as_frame at the nodes, synthetic SPK type 3 segments, Center.convert_to, repeated and interleaved dates and bodies) against the Lean state machine `run` fed with the same segment values.")
LEVEL_NOTE = ("proof (partial): the first sentence of the property - agreement of the analytical series with the JPL DE ephemeris to 0.02 deg / 1e-4 (Sun), 0.7 deg / 0.5 % (Moon) - "
              "relates a formula to the contents of a binary data file; no theorem expresses it, it is exercised by the oracle only (DE403, 2000-2020 grid). "
              "R -> double gap covered only by tolerance-bounded correspondence (1e-12 SPK, 1e-10 series). Kernels where a body is the target of two centres are "
              "excluded by hypothesis (open finding C18-two-centres, kernel-checked counter-witness). Frames made with as_frame from an orbit that was re-framed before are covered since "
              "commit 261fb0a (Center.offset_frame; finding C18-asframe-reframed fixed, regression witness asframe_reframed_fixed): the only condition left on attached frames is the "
              "naming convention AttPos (the new centre is given the position of the orbit's body), which attach_potential_all shows can always be met for fresh distinct names. Totality (a vector IS returned) is proved for the DE403 kernel only; "
              "for arbitrary trees it rests on C20's open forest-routing obligation.")
TECHNIQUE = ("Lean 4 proof: induction over the routed path (telescoping of potentials) on top of C20's path_valid_chain; decide on the regenerated kernel; "
             "ring/linear_combination identities on series translated from the Python AST; Mathlib calculus for the difference-quotient bound; differential correspondence")
TRUSTED = [
    "jplephem (SPK parsing, Segment.compute_and_differentiate: km and km/day at a TDB Julian date) - segment values are a parameter of the model",
    "lean/templates/Jpl.tpl (hand-written model of create_frames / propagate / convert_to / transform), tied by the correspondence run; Model/Node.lean (C20)",
    "harness/py2lean.py: translates SunPropagator._propagate / MoonPropagator._propagate (incl. the local degree-cos/sin) into Generated/SunMoon{F,R}.lean on every run",
    "beyond.dates (UTC -> TDB / UT1, julian_century): the three time arguments of the difference quotient are taken from the real Date objects (C03/C04)",
    "numpy / libm double arithmetic vs R: tolerance 1e-12 (SPK chaining, same operations in the same order) and 1e-10 (series)",
    "harness/props/C18.py extract_kernel_arg: the reader of the kernel-argument expression (straight-line assignments of JplPropagator.propagate; anything it does not understand is refused and the check fails); own_tdb_jd: the TDB Julian date of an instant from the definitions of the scales and the IERS tables as parsed independently by C03",
    "C03 (Model/Date.lean, Props C03.changeScale_instant): change_scale keeps the instant to 1.5 us; kernel_arg_of_instant builds on it",
    "harness/props/C18.py extract_routes / _yields_propagate_of_each_date: reads which class the Sun / Moon propagators take propagate, iter, _iter from (live method resolution order) and recognises the shape of that _iter from its AST; Orbit.iter / ephemeris / ephem and AnalyticalPropagator.iter handing the states of _iter on unchanged is tied by the correspondence on tabulations only",
    "harness/props/C18.py chain_direct: the independent 'chain the segments directly' reference used by the oracle (breadth-first walk over the pairs, jplephem values)",
]
ASSUMPTIONS = [
    "bodies are identified by NAIF code; distinct codes of the kernel have distinct title-cased names (checked by extract for the real kernel)",
    "all frames involved share the EME2000 orientation, so orientation.convert_to is the identity matrix (checked by correspondence incl. the built-in EME2000 frame)",
    "the built-in Earth centre hangs below the kernel's Earth through a zero offset (the create_frames epilogue); modelled by identifying the two",
    "the Lean model has the position-only segments (len(pos) == 3: velocity in km/day divided by 86400); the len(pos) == 6 branch of propagate (SPK type 3: km and km/s, no such segment in DE kernels) is exercised with synthetic type 3 segments, presented to the model and to the direct chaining as the equivalent km/day values (km/s x 86400): the branch is tied to the statement by correspondence and oracle (2 ulp), not by a case of its own in the model",
    "create_frames is called once per process (the harness runs each configuration in its own process)",
    "frames made with as_frame get names no kernel body has (Fresh), each name used once per process (re-using a name overwrites the class attribute <name>_to_<parent>; not modelled)",
    "in-place changes of form (orb.form = 'spherical') do not move the point an object represents: they are applied to the real objects and skipped in the model (compared at 1e-8 afterwards)",
    "velocity_error_at_steps takes the position coordinate as a function of uniform time; the scale's Julian century is not exactly uniform in UTC (UT1, TDB periodic terms: < 1e-8 relative)",
]
NOT_COVERED = [
    "agreement of the analytical Sun and Moon series with the JPL DE ephemeris (0.02 deg, 1e-4; 0.7 deg, 0.5 %): formula vs binary data file - oracle only (DE403 2000-2020)",
    "a bound on the third derivative of the two series (needed to turn velocity_error_at_steps into a number): oracle only (numerical third differences)",
    "the dates of a tabulation (Date.range: which dates lie between start and stop, the end compared at the microsecond) are C03's: here every returned state must be at the requested date; tabulations with listeners that fire (events inserted between the points) are C10's; interpolation inside an Ephem of the Sun / Moon is C09's (only the nodes are checked here)",
    "dates outside the span of the kernel (jplephem raises) and kernels with several time-sliced segments for one (center, target) pair",
    "Ephem.as_frame away from the nodes of the Ephem (interpolation error; at a node the offset is the propagated state: covered, at 1e-8); for frames made with orientation='QSW'/'TNW' only the centre is checked (conversions of the origin FROM the new frame; the rotation itself is C02's); jpl.get_body(name) without PCK files raises UnknownBodyError for every name (no vector is returned; the route Body.propagate is exercised through get_frame(name).center.body, and through get_body when PCK files are configured)",
]
OPEN = [
    "totality for arbitrary tree kernels (a path is always found): proved by decide for the DE403 kernel, otherwise inherited from C20's open forest_routes_exact",
    "existence of consistent positions is proved for every kernel that is a permutation of one grown segment by segment (perm_growth_consistent); that every forest in which each body is the target of at most one segment HAS such an ordering is not formalised",
    "smoothness and explicit third-derivative bounds of sunSeries / moonSeries are not formalised",
]
RULE = ("correspondence: every ordered pair of the 16 bodies of de403_2000-2020.bsp (+ the built-in EME2000 frame) x dates across the span (both ends included) x "
        "{get_orbit(a).copy(frame=b), zero state vector re-framed} x {with, without PCK files} and random synthetic tree kernels (2-8 bodies, rooted and arbitrarily "
        "oriented, random order) installed in place of the file, real code vs the compiled Lean model fed with the same jplephem segment values (rtol 1e-12, same error kinds); "
        "Sun/Moon propagate vs the translated series + difference quotient at 1950-2050 dates (rtol 1e-10); tabulations of the Sun / Moon: 13 routes (Orbit.iter with start-stop-step, "
        "timedelta stop, default start, stop before start, dates= as list / generator, listeners; Orbit.ephemeris, Orbit.ephem, propagator.iter, each with a range or dates=) x 1-9 points x "
        "steps from 1 s to 45 days (below, at and above the built-in 1 day / 5 days) x regular, irregular, repeated and unsorted dates, the stop on the last point or up to 0.9 step beyond: "
        "every point vs the Lean Solar.sunTable / moonTable (1e-10) in the correspondence, and in the oracle at the requested date, where Body.propagate puts the body, velocity vs the "
        "derivative of the positions within the theorem's bound at the class's step; non-trivial = a != b; distinct = distinct (kernel, op, a, b, date). "
        "histories: per configuration one exhaustive family (every segment through a hand-made propagator in both directions; the frame made from the orbit of every body against every "
        "body both ways; every body asked twice at one date with an in-place conversion of the first answer in between) and random histories of 36 requests over 1-3 dates, in both the "
        "correspondence (vs the Lean `run`, 1e-11 of the terms summed) and the oracle (vs the segments chained in the harness, 4e-12; 1e-8 after a change of form). "
        "dates: the two ends of the kernel's span (UTC), then (day, seconds of day, scale) in all six scales, 70 % of the clock readings in the last / first 75 s or 4 ms of the day or at midnight "
        "(the conversion to TDB crosses midnight), without IERS database (policy pass: zeros; both PCK configurations) and, third configuration, with the one of tests/data/pole (days inside its tables); "
        "per date of a history the argument seen at the jplephem segments (tap on compute_and_differentiate) vs the Lean kernelArg fed with Date.d/Date.s of the date and of its TDB conversion (bit-exact), "
        "vs the TDB Julian date computed here from the definitions of the scales (2e-9 d; 4e-8 d for UT1), and every request of the history asks the kernel at that argument only. "
        "oracle: the same calls against chaining the segments directly with jplephem (1e-12 of the summed magnitudes), antisymmetry, TDB argument, bit-identity with/without PCK, "
        "synthetic kernels; Sun/Moon vs DE403 at the property's accuracies, velocity vs derivative of the position within the theorem's bound")

JPL_DIR = os.path.join(core.REPO, "tests", "data", "jpl")
BSP = os.path.join(JPL_DIR, "de403_2000-2020.bsp")
PCK_FILES = [os.path.join(JPL_DIR, "pck00010.tpc"), os.path.join(JPL_DIR, "gm_de431.tpc")]
SOLAR_PY = os.path.join(core.REPO, "beyond", "env", "solarsystem.py")
JPL_PY = os.path.join(core.REPO, "beyond", "env", "jpl.py")

# ---------------------------------------------------------------- regenerated from /repo on every run

def extract(ctx):
    changed = []
    e = env(True)
    names = e["names"]
    if len(set(names.values())) != len(names) or "Unknown" in names.values():
        raise RuntimeError(f"kernel bodies do not have distinct known names: {names}")
    text = ("/- GENERATED by harness/props/C18.py from tests/data/jpl/de403_2000-2020.bsp through beyond.env.jpl.Bsp().pairs — do not edit. -/\n"
            "namespace BeyondVerif.Generated\n\n"
            "/-- `Bsp().pairs` keys (center, target) in dict order -/\n"
            f"def dePairs : List (Nat × Nat) := [{', '.join(f'({c}, {t})' for c, t in e['pairs'])}]\n\n"
            "/-- every NAIF code occurring in a pair -/\n"
            f"def deBodies : List Nat := [{', '.join(str(i) for i in e['ids'])}]\n\n"
            "end BeyondVerif.Generated\n")
    if core.write_if_changed(os.path.join(core.LEAN, "BeyondVerif", "Generated", "JplKernel.lean"), text):
        changed.append("Generated/JplKernel.lean")
    changed += extract_series()
    changed += extract_kernel_arg()
    changed += extract_routes()
    changed += instantiate.main()
    return changed


def extract_series():
    """the two position series translated from the Python AST, and the two difference steps read from the classes"""
    from beyond.env import solarsystem
    from beyond.utils import units
    from beyond import constants
    consts_sun = {"AU": f"({float(units.AU)!r} : R)"}
    consts_moon = {"Earth.r": f"({float(constants.Earth.r)!r} : R)"}
    body = py2lean.translate_slice(SOLAR_PY, "SunPropagator._propagate", ["t_ut1"], ["pv"], "sunSeries", consts=consts_sun)
    body += "\n" + py2lean.translate_slice(SOLAR_PY, "MoonPropagator._propagate", ["t_tdb"], ["state_vector"], "moonSeries", consts=consts_moon)
    body += ("\n/-- `SunPropagator._diff_step.total_seconds()` -/\n"
             f"def sunStep : R := ({float(solarsystem.SunPropagator._diff_step.total_seconds())!r} : R)\n"
             "\n/-- `MoonPropagator._diff_step.total_seconds()` -/\n"
             f"def moonStep : R := ({float(solarsystem.MoonPropagator._diff_step.total_seconds())!r} : R)\n"
             "\n/-- `beyond.utils.units.AU`, `beyond.constants.Earth.r` as used by the series -/\n"
             f"def auMetres : R := ({float(units.AU)!r} : R)\n"
             f"def earthRadius : R := ({float(constants.Earth.r)!r} : R)\n")
    return py2lean.instantiate(core.LEAN, "SunMoon", body, "beyond/env/solarsystem.py")


def _yields_propagate_of_each_date(fn):
    """shape of a `_iter`: every value it yields is `self.propagate(x)`, x the variable of the enclosing `for` - nothing is
    yielded from elsewhere, nothing is changed on the way out"""
    import ast
    ok, n = True, 0

    def walk(node, loopvar):
        nonlocal ok, n
        for ch in ast.iter_child_nodes(node):
            if isinstance(ch, (ast.FunctionDef, ast.Lambda, ast.AsyncFunctionDef)):
                continue
            if isinstance(ch, ast.YieldFrom):
                ok = False
            if isinstance(ch, ast.Yield):
                n += 1
                v = ch.value
                if not (isinstance(v, ast.Call) and isinstance(v.func, ast.Attribute) and v.func.attr == "propagate"
                        and isinstance(v.func.value, ast.Name) and v.func.value.id in ("self", "cls") and not v.keywords
                        and len(v.args) == 1 and isinstance(v.args[0], ast.Name) and v.args[0].id == loopvar):
                    ok = False
            if isinstance(ch, ast.For) and isinstance(ch.target, ast.Name):
                walk(ch, ch.target.id)
            else:
                walk(ch, loopvar)
    walk(fn, None)
    return ok and n > 0


def extract_routes():
    """Generated/SolarRoutes.lean: which class each of the analytical propagators takes `propagate`, `iter`, `_iter` from
    (method resolution of the live classes) and whether that `_iter` has the shape the model has: it yields
    `self.propagate(date)` for each date - so that a tabulation is the list of the single propagations (Solar.table)."""
    import ast, inspect, textwrap
    from beyond.env import solarsystem
    rows, shapes = [], []
    for cls in (solarsystem.SunPropagator, solarsystem.MoonPropagator, solarsystem.EarthPropagator):
        for meth in ("propagate", "iter", "_iter", "_propagate"):
            owner = next((k.__name__ for k in cls.__mro__ if meth in vars(k)), "none")
            rows.append((cls.__name__, meth, owner))
        fn = inspect.unwrap(getattr(cls._iter, "__func__", cls._iter))
        tree = ast.parse(textwrap.dedent(inspect.getsource(fn))).body[0]
        shapes.append((cls.__name__, _yields_propagate_of_each_date(tree)))
    text = ("/- GENERATED by harness/props/C18.py from the live classes of beyond/env/solarsystem.py (method resolution order) and the AST\n"
            "   of the `_iter` they resolve to — do not edit. -/\n"
            "namespace BeyondVerif.Generated\n\n"
            "/-- (propagator class, method, class whose body defines the method that class resolves to) -/\n"
            "def solarMethodOwner : List (String × String × String) := [\n  "
            + ",\n  ".join(f'("{c}", "{m}", "{o}")' for c, m, o in rows) + "]\n\n"
            "/-- the `_iter` the class resolves to yields `self.propagate(date)` for each date of its loops and nothing else -/\n"
            "def solarIterPropagatesEachDate : List (String × Bool) := ["
            + ", ".join(f'("{c}", {"true" if b else "false"})' for c, b in shapes) + "]\n\n"
            "end BeyondVerif.Generated\n")
    if core.write_if_changed(os.path.join(core.LEAN, "BeyondVerif", "Generated", "SolarRoutes.lean"), text):
        return ["Generated/SolarRoutes.lean"]
    return []


# ---------------------------------------------------------------- the argument handed to jplephem, read from the source

DATE_PY = os.path.join(core.REPO, "beyond", "dates", "date.py")


class ArgRefused(RuntimeError):
    """the expression that forms the kernel argument is not one the reader understands"""


def _tr_arg(node, env, consts):
    """Python expression -> (Lean text, kind) with kind 'view' (a Date seen through its day number and seconds of day)
    or 'num'.  env: python name -> (Lean text, kind)."""
    import ast
    if isinstance(node, ast.Constant) and isinstance(node.value, (int, float)) and not isinstance(node.value, bool):
        return f"({float(node.value)!r} : R)", "num"
    if isinstance(node, ast.Name):
        if node.id in env:
            return env[node.id]
        if node.id in consts:
            return f"({float(consts[node.id])!r} : R)", "num"
        raise ArgRefused(f"name {node.id!r}")
    if isinstance(node, ast.Attribute):
        if isinstance(node.value, ast.Name) and node.value.id in ("Date", "self") and ("Date." + node.attr) in consts and node.value.id not in env:
            return f"({float(consts['Date.' + node.attr])!r} : R)", "num"
        base, kind = _tr_arg(node.value, env, consts)
        if kind != "view":
            raise ArgRefused(f"attribute .{node.attr} of a number")
        if node.attr in ("d", "s"):
            return f"{base}.{node.attr}", "num"
        if node.attr == "mjd":
            return f"(dateMjd {base})", "num"
        if node.attr == "jd":
            return f"(dateJd {base})", "num"
        if ("Date." + node.attr) in consts:
            return f"({float(consts['Date.' + node.attr])!r} : R)", "num"
        raise ArgRefused(f"attribute .{node.attr} of a date")
    if isinstance(node, ast.BinOp) and isinstance(node.op, (ast.Add, ast.Sub, ast.Mult, ast.Div)):
        a, ka = _tr_arg(node.left, env, consts)
        b, kb = _tr_arg(node.right, env, consts)
        if ka != "num" or kb != "num":
            raise ArgRefused("arithmetic on a date")
        op = {"Add": "+", "Sub": "-", "Mult": "*", "Div": "/"}[type(node.op).__name__]
        return f"({a} {op} {b})", "num"
    raise ArgRefused(ast.dump(node)[:80])


def _prop_return(tree, cls, name):
    import ast
    for c in tree.body:
        if isinstance(c, ast.ClassDef) and c.name == cls:
            for f in c.body:
                if isinstance(f, ast.FunctionDef) and f.name == name:
                    rets = [n for n in f.body if isinstance(n, ast.Return)]
                    if len(rets) == 1 and all(isinstance(n, (ast.Return, ast.Expr)) for n in f.body):
                        return rets[0].value
    raise ArgRefused(f"{cls}.{name} is not a single return")


def extract_kernel_arg():
    """Generated/JplArg{F,R}.lean: `Date.mjd`, `Date.jd` and the argument of `segment.compute_and_differentiate(...)` in
    `JplPropagator.propagate`, translated from the ASTs.  Names are followed through the straight-line assignments of the
    method: the parameter is the caller's date, `<date>.change_scale("TDB")` its TDB conversion.  Anything else (another
    scale, a date rebound inside a branch, an attribute the reader does not know) is refused: the check then fails."""
    import ast
    from beyond.dates import Date
    from jplephem.spk import S_PER_DAY
    consts = {"S_PER_DAY": S_PER_DAY, "Date.JD_MJD": Date.JD_MJD}
    dtree = ast.parse(open(DATE_PY).read())
    x = {"self": ("x", "view")}
    mjd, _ = _tr_arg(_prop_return(dtree, "Date", "mjd"), x, consts)
    jd, _ = _tr_arg(_prop_return(dtree, "Date", "jd"), x, consts)
    jtree = ast.parse(open(JPL_PY).read())
    fn = next(f for c in jtree.body if isinstance(c, ast.ClassDef) and c.name == "JplPropagator"
              for f in c.body if isinstance(f, ast.FunctionDef) and f.name == "propagate")
    param = fn.args.args[1].arg
    env = {param: ("caller", "view")}
    arg = None

    def calls(node):
        return [n for n in ast.walk(node) if isinstance(n, ast.Call) and isinstance(n.func, ast.Attribute) and n.func.attr == "compute_and_differentiate"]

    for st in fn.body:
        found = calls(st)
        if found:
            if len(found) != 1 or len(found[0].args) != 1 or found[0].keywords or not isinstance(st, ast.Assign):
                raise ArgRefused("compute_and_differentiate is not called once, with one argument, in a plain assignment")
            arg = _tr_arg(found[0].args[0], env, consts)
            break
        if isinstance(st, ast.Assign) and len(st.targets) == 1 and isinstance(st.targets[0], ast.Name):
            tgt, v = st.targets[0].id, st.value
            if isinstance(v, ast.Call) and isinstance(v.func, ast.Attribute) and v.func.attr == "change_scale":
                if not (len(v.args) == 1 and isinstance(v.args[0], ast.Constant) and v.args[0].value == "TDB" and not v.keywords):
                    raise ArgRefused("change_scale to something else than the literal 'TDB'")
                _, kind = _tr_arg(v.func.value, env, consts)
                if kind != "view":
                    raise ArgRefused("change_scale of a number")
                env[tgt] = ("tdb", "view")
                continue
            try:
                env[tgt] = _tr_arg(v, env, consts)
            except ArgRefused:
                env.pop(tgt, None)
            continue
        # compound statements / anything else: must not rebind a name the argument may depend on
        for n in ast.walk(st):
            if isinstance(n, (ast.Assign, ast.AugAssign, ast.AnnAssign, ast.For, ast.With, ast.NamedExpr)):
                tg = [n.target] if hasattr(n, "target") else getattr(n, "targets", [])
                for t in tg:
                    for nm in ast.walk(t):
                        if isinstance(nm, ast.Name) and nm.id in env:
                            raise ArgRefused(f"{nm.id!r} is rebound inside a compound statement")
    if arg is None or arg[1] != "num":
        raise ArgRefused("no call of compute_and_differentiate with a numeric argument found")
    body = ("namespace JplArg\n\n"
            "/-- what these expressions read of a `Date`: day number and seconds of the day in the date's own scale (`Date.d`, `Date.s`) -/\n"
            "structure DateView where\n  d : R\n  s : R\n\n"
            "/-- `Date.mjd` -/\n"
            f"def dateMjd (x : DateView) : R := {mjd}\n\n"
            "/-- `Date.jd` -/\n"
            f"def dateJd (x : DateView) : R := {jd}\n\n"
            "/-- the argument of `segment.compute_and_differentiate(…)` in `JplPropagator.propagate`: `caller` is the date the\n"
            "method received (any scale), `tdb` its conversion `date.change_scale(\"TDB\")` -/\n"
            f"def kernelArg (caller tdb : DateView) : R := {arg[0]}\n\n"
            "end JplArg\n")
    return py2lean.instantiate(core.LEAN, "JplArg", body, "beyond/env/jpl.py, beyond/dates/date.py")


# ---------------------------------------------------------------- the real code, one kernel configuration per process

_ENV = {}


class FakeSegment:
    """stands for a jplephem segment: position A + B (jd - 2455000) km, velocity B km/day.
    six: an SPK type 3 segment - jplephem returns six components, position in km and velocity in km/s, and their
    derivatives (which JplPropagator.propagate ignores: the `len(pos) == 6` branch)"""

    def __init__(self, center, target, A, B, six=False):
        self.center, self.target, self.A, self.B, self.six = center, target, A, B, six
        self.start_jd, self.end_jd = 2451536.5, 2459216.5

    def compute_and_differentiate(self, jd):
        import numpy as np
        pos = np.array(self.A) + np.array(self.B) * (jd - 2455000.0)
        if self.six:
            return np.concatenate((pos, np.array(self.B) / 86400.0)), np.concatenate((np.array(self.B), np.zeros(3)))
        return pos, np.array(self.B)


class FakeSPK:
    def __init__(self, segs):
        self.segments = segs
        self.pairs = {(s.center, s.target): s for s in segs}


_JD_LOG = []                # every argument handed to a segment of the kernel since it was last cleared


def tap_segments(segs):
    """record the argument of every `segment.compute_and_differentiate(...)` (the TDB argument of the property statement)"""
    for sg in {id(x): x for x in segs.values()}.values():
        if getattr(sg, "_c18_tapped", False):
            continue
        orig = sg.compute_and_differentiate

        def tapped(jd, *a, _orig=orig, **k):
            _JD_LOG.append(float(jd))
            return _orig(jd, *a, **k)
        sg.compute_and_differentiate = tapped
        sg._c18_tapped = True


def pole_dir():
    return os.path.join(core.REPO, "tests", "data", "pole")


def env(pck=True, fake=None, eop=False):
    """eop: the real IERS database of tests/data/pole (leap seconds, UT1-UTC) instead of none at all (policy 'pass': zeros).
    configure beyond for the DE403 test kernel (with or without the PCK constant files) and create the frames.
    beyond.env.jpl keeps process-wide singletons (Bsp, Pck, frame cache, Center class attributes), so a process
    holds exactly one configuration; the other ones run in worker processes (see `collect`).
    `fake` = [[center, target, A(3), B(3)], ...] installs a synthetic kernel instead of the file (worker only)."""
    if _ENV:
        if _ENV["pck"] != pck or fake != _ENV["fake"] or _ENV["eop"] != bool(eop):
            raise RuntimeError("one kernel configuration per process")
        return _ENV
    from beyond.config import config
    if eop:
        config.update({"eop": {"folder": pole_dir(), "type": "all", "missing_policy": "pass"}})
    else:
        config.set("eop", "missing_policy", "pass")
    from beyond.env import jpl
    from jplephem.names import target_names
    if fake is None:
        config.set("env", "jpl", "files", [BSP] + (PCK_FILES if pck else []))
    else:
        config.set("env", "jpl", "files", ["synthetic.bsp"])
        jpl.Bsp()._spk = [FakeSPK([FakeSegment(*f) for f in fake])]
    jpl.create_frames()
    pairs = list(jpl.Bsp().pairs.keys())           # (center, target) in dict order
    ids = sorted({i for p in pairs for i in p})
    names = {i: target_names.get(i, "Unknown").title().replace(" ", "") for i in ids}
    segs = jpl.Bsp().pairs
    tap_segments(segs)
    _ENV.update(pck=pck, fake=fake, eop=bool(eop), jpl=jpl, pairs=pairs, ids=ids, names=names, segs=segs,
                span=(max(s.start_jd for s in segs.values()), min(s.end_jd for s in segs.values())))
    return _ENV


def raw_segments(e, jd):
    """what jplephem returns for every segment of the kernel at the TDB Julian date `jd`: km and km/day.
    A type 3 segment (six components: km and km/s) is presented as the equivalent km/day values, so that the model and the
    direct chaining - which divide by 86400 - state what its velocity must come out as: km/s x 1000."""
    out = {}
    for (c, t), s in e["segs"].items():
        p, v = s.compute_and_differentiate(jd)
        if len(p) == 6:
            out[(c, t)] = [float(x) for x in p[:3]] + [float(x) * 86400.0 for x in p[3:]]
        else:
            out[(c, t)] = [float(x) for x in p] + [float(x) for x in v]
    return out


def chain_direct(pairs, raw, a, b):
    """`a` relative to `b` by chaining the file's segments directly (independent of beyond): metres, metres/second.
    The segments form an undirected tree whose edge (c, t) carries "t relative to c"; walking from b to a a segment
    taken from its centre to its target counts +, the other way round -.
    Also returns the magnitude scale of the terms summed (for the tolerance)."""
    adj = {}
    for c, t in pairs:
        adj.setdefault(c, []).append((t, (c, t), 1.0))
        adj.setdefault(t, []).append((c, (c, t), -1.0))
    prev = {b: None}
    todo = [b]
    while todo:
        u = todo.pop(0)
        for v, key, sg in adj.get(u, []):
            if v not in prev:
                prev[v] = (u, key, sg)
                todo.append(v)
    if a not in prev:
        return None, None
    vec = [0.0] * 6
    mag = [0.0] * 6
    u = a
    while prev[u] is not None:
        w, key, sg = prev[u]
        r = raw[key]
        for k in range(6):
            x = r[k] * 1000.0 if k < 3 else r[k] / 86400.0 * 1000.0
            vec[k] += sg * x
            mag[k] += abs(x)
        u = w
    return vec, mag


SCALES = ["UTC", "UT1", "TAI", "TT", "GPS", "TDB"]


def make_date(mjd_day, sec, scale=None):
    """(day, seconds): a UTC date built by addition; (day, seconds, scale): `Date(day, seconds, scale=scale)`, the clock
    reading of that scale"""
    from beyond.dates import Date, timedelta
    if scale is None:
        return Date(int(mjd_day)) + timedelta(seconds=round(sec, 6))
    return Date(int(mjd_day), float(sec), scale=scale)


def own_tdb_jd(spec, eop):
    """the TDB Julian date of the instant a date specification denotes, computed here from the definitions of the scales
    (TT = TAI + 32.184 s, TAI = GPS + 19 s, TAI = UTC + leap seconds, UT1 = UTC + (UT1-UTC), TDB = TT + periodic term) and
    the IERS tables read by the independent parser of C03 - or zeros when beyond is configured without a database.
    Returns (jd, tolerance in days): a double Julian date resolves 47 us; UT1-UTC changes by ~1 ms from day to day."""
    from harness.props import C03
    day, sec = int(spec[0]), float(spec[1])
    scale = spec[2] if len(spec) > 2 and spec[2] else "UTC"
    if len(spec) == 2:
        sec = round(sec, 6)
    if scale == "TDB":
        return (day + 2400000.5) + sec / 86400.0, 2e-9

    def leap(d):
        if not eop:
            return 0.0
        e = C03.leap_before(d)
        return e[1] / 1e7 if e else 0.0

    def dut1(d):
        return C03.tables()[1].get(d, 0) / 1e7 if eop else 0.0
    if scale == "UTC":
        tai = sec + leap(day)
    elif scale == "UT1":
        utc = sec - dut1(day)
        dd = day + (1 if utc >= 86400 else -1 if utc < 0 else 0)
        tai = sec - dut1(dd) + leap(dd)
    else:
        tai = sec + {"TAI": 0.0, "TT": -32.184, "GPS": 19.0}[scale]
    tt = tai + 32.184
    tdb = tt + C03.tdb_minus_tt_ref(day + tt / 86400.0)
    return (day + 2400000.5) + tdb / 86400.0, (4e-8 if scale == "UT1" else 2e-9)


def real_orbit(e, a, b, date):
    """jpl.get_orbit(a, date).copy(frame=b) -> ('ok', 6 floats, tdb jd) or (error kind, None, None)"""
    import numpy as np
    from beyond.errors import UnknownBodyError, UnknownFrameError
    try:
        orb = e["jpl"].get_orbit(e["names"][a], date)
        res = orb.copy(frame=e["names"][b])
    except UnknownBodyError:
        return "unknown-body", None, None
    except UnknownFrameError:
        return "unknown-frame", None, None
    except ValueError:
        return "value-error", None, None
    except KeyError:
        return "key-error", None, None
    except AttributeError:
        return "attribute-error", None, None
    except Exception as ex:  # noqa: BLE001
        return type(ex).__name__, None, None
    if str(res.frame) != e["names"][b]:
        return "wrong-frame", None, None
    return "ok", [float(x) for x in np.asarray(res)], float(orb.date.jd)


def real_offset(e, a, b, date):
    """a zero state vector in the frame of body a, expressed in the frame of body b: a relative to b"""
    import numpy as np
    from beyond.orbits import StateVector
    from beyond.errors import UnknownFrameError
    try:
        sv = StateVector([0.0] * 6, date, "cartesian", e["names"][a])
        res = sv.copy(frame=e["names"][b])
    except UnknownFrameError:
        return "unknown-frame", None, None
    except ValueError:
        return "value-error", None, None
    except KeyError:
        return "key-error", None, None
    except Exception as ex:  # noqa: BLE001
        return type(ex).__name__, None, None
    return "ok", [float(x) for x in np.asarray(res)], float(date.change_scale("TDB").jd)


def collect_here(pck, dates, eme=True, fake=None, eop=False):
    """all ordered pairs of bodies of the kernel at the given dates, through both public routes.
    returns {"pairs": [...], "ids": [...], "rows": [[kind, a, b, idate, status, vec, jd], ...], "raw": {idate: {c-t: [6]}}}"""
    e = env(pck, fake, eop)
    rows = []
    raws = {}
    for k, spec in enumerate(dates):
        d = make_date(*spec)
        jd = float(d.change_scale("TDB").jd)
        own, tol = own_tdb_jd(spec, e["eop"])
        raws[str(k)] = {"jd": jd, "own": own, "tol": tol, "seg": {f"{c}-{t}": v for (c, t), v in raw_segments(e, jd).items()}}
        for a in e["ids"]:
            for b in e["ids"]:
                st, vec, jd1 = real_orbit(e, a, b, d)
                rows.append(["orbit", a, b, k, st, vec, jd1])
                st, vec, jd2 = real_offset(e, a, b, d)
                rows.append(["offset", a, b, k, st, vec, jd2])
        if eme:
            # the Earth-centred built-in frame EME2000 hangs below the kernel's Earth through a zero offset
            import numpy as np
            from beyond.orbits import StateVector
            for a in e["ids"]:
                st, vec, jd1 = "ok", None, None
                try:
                    orb = e["jpl"].get_orbit(e["names"][a], d)
                    vec = [float(x) for x in np.asarray(orb.copy(frame="EME2000"))]
                    jd1 = float(orb.date.jd)
                except Exception as ex:  # noqa: BLE001
                    st = type(ex).__name__
                rows.append(["orbit-eme", a, 399, k, "unknown-body" if st == "UnknownBodyError" else st, vec, jd1])
                sv = StateVector([0.0] * 6, d, "cartesian", "EME2000")
                vec = [float(x) for x in np.asarray(sv.copy(frame=e["names"][a]))]
                rows.append(["offset-eme", 399, a, k, "ok", vec, jd])
    return {"pairs": [list(p) for p in e["pairs"]], "ids": e["ids"], "rows": rows, "raw": raws,
            "span": list(e["span"]), "masses": {str(i): float(e["jpl"].get_frame(e["names"][i]).center.body.mass) if e["names"][i] in e["jpl"]._propagator_cache else None for i in e["ids"]}}


def collect(pck, dates, eme=True, fake=None, hist=None, eop=False):
    """same as collect_here; the configuration that is not the one of this process runs in a worker process.
    hist = {"seed", "nrandom", "nops"}: also run histories of requests in that process (after the stateless sweep)"""
    if fake is None and (not _ENV or (_ENV["pck"] == pck and _ENV["eop"] == bool(eop) and _ENV["fake"] is None)):
        res = collect_here(pck, dates, eme, None, eop)
        if hist:
            res["hist"] = histories_here(env(pck, None, eop), hist["seed"], hist["nrandom"], hist["nops"], dates)
        return res
    req = {"pck": pck, "dates": dates, "eme": eme, "fake": fake, "eop": eop}
    if hist:
        req["hist"] = dict(hist, dates=dates)
    return run_worker(req)


def collect_many(jobs, par=6):
    """[collect(**job) for job in jobs]: the configurations that need a process of their own run side by side in worker
    processes while this process works on its own configuration"""
    from concurrent.futures import ThreadPoolExecutor
    here = lambda j: j.get("fake") is None and (not _ENV or (_ENV["pck"] == j["pck"] and _ENV["eop"] == bool(j.get("eop")) and _ENV["fake"] is None))
    with ThreadPoolExecutor(max_workers=par) as ex:
        futs = [None if here(j) else ex.submit(collect, **j) for j in jobs]
        res = [collect(**j) if f is None else None for j, f in zip(jobs, futs)]
        return [r if f is None else f.result() for r, f in zip(res, futs)]


def gen_clock(rng):
    """seconds of the day, boundary-heavy: the last / first 75 s of the day (the conversion to TDB then crosses midnight
    for UTC, UT1, TAI and GPS readings: TDB leads them by 32.184 s to 69.184 s), the milliseconds around midnight (TT and
    TDB differ by +-1.7 ms), midnight itself, otherwise anywhere"""
    r = rng.random()
    if r < 0.40:
        return round(86400.0 - rng.uniform(0.0, 75.0), 6)
    if r < 0.52:
        return round(rng.uniform(0.0, 75.0), 6)
    if r < 0.60:
        return round(86400.0 - rng.uniform(0.0, 0.004), 6)
    if r < 0.66:
        return round(rng.uniform(0.0, 0.004), 6)
    if r < 0.70:
        return 0.0
    return round(rng.uniform(0, 86400), 6)


def gen_dates(rng, n, span=(2451536.5, 2459216.5), days=None):
    """dates across the span of the kernel: its two ends (UTC, 200 s inside: UTC vs TDB), then (day, seconds, scale) in all
    six scales with boundary-heavy clock readings.  days: restrict the day numbers (the span of the IERS tables)"""
    lo = span[0] - 2400000.5
    hi = span[1] - 2400000.5
    out = [(math.floor(lo), (lo - math.floor(lo)) * 86400 + 200.0), (math.floor(hi) - 1, 86400 - 200.0)]
    dlo, dhi = int(lo) + 1, int(hi) - 2
    if days:
        dlo, dhi = max(dlo, days[0]), min(dhi, days[1])
    while len(out) < n:
        out.append((rng.randint(dlo, dhi), gen_clock(rng), SCALES[len(out) % 6] if rng.random() < 0.7 else rng.choice(SCALES)))
    return out[:n]


def eop_days():
    """day numbers covered by the IERS tables of the test data, a day inside at either end"""
    from harness.props import C03
    t = C03.tables()
    return (t[2] + 2, t[3] - 2)


# ---------------------------------------------------------------- histories of requests on the real objects

ATT_BASE = 1000000          # model code of the frames created with as_frame: ATT_BASE + running number; name "XF<n>"
ATT_EXTRA = 14             # frames attached by the random histories of one process, on top of one per body
_ORI = set()               # frames made with orientation="QSW"/"TNW"
_EPH = set()               # frames made from an Ephem
_EXH_ORI = {}              # body code -> oriented frame of the exhaustive plan
_LIMIT = []                # number of frames in this process beyond which the random histories stop making new ones
_ATT = []                   # every frame attached in this process so far: [x, link, obj, cen]
_EXH = {}                   # body code -> code of the frame attached to its orbit by the exhaustive plan


def status_of(ex):
    from beyond.errors import UnknownBodyError, UnknownFrameError
    if isinstance(ex, UnknownBodyError):
        return "unknown-body"
    if isinstance(ex, UnknownFrameError):
        return "unknown-frame"
    if isinstance(ex, KeyError):
        return "key-error"
    if isinstance(ex, ValueError):
        return "value-error"
    return type(ex).__name__


def guarded(fn):
    """a request that raises where no error is expected (a crash of the code under test, e.g. unbounded recursion) is
    recorded as the answer of that request and ends the history: the objects may be half modified"""
    def wrapper(self, *a, **k):
        if self.dead:
            return (None, "dead") if fn.__name__ == "asframe" else "dead"
        try:
            return fn(self, *a, **k)
        except Exception as ex:  # noqa: BLE001
            self.dead = True
            st = status_of(ex)
            self.rec["ops"].append({"tok": [fn.__name__] + [str(x) for x in a if isinstance(x, (int, str))], "st": st, "vec": None, "meta": {"crashed": True}})
            del _JD_LOG[:]
            return (None, st) if fn.__name__ == "asframe" else st
    wrapper.__name__ = fn.__name__
    return wrapper


class History:
    """drives the real objects of beyond through a history of requests and records, per request, what came back.
    Bodies and frames are addressed by model codes: NAIF codes, ATT_BASE + n for frames made with as_frame."""

    def __init__(self, e, rng, dates):
        self.e, self.rng = e, rng
        self.dates = [make_date(*d) for d in dates]
        tdb = [d.change_scale("TDB") for d in self.dates]
        self.jd = [float(d.jd) for d in tdb]
        self.rec = {"pairs": [list(p) for p in e["pairs"]], "att0": [list(a) for a in _ATT], "dates": [list(d) for d in dates], "jd": self.jd,
                    "raw": [{f"{c}-{t}": v for (c, t), v in raw_segments(e, jd).items()} for jd in self.jd], "ops": [], "pck": e["pck"], "eop": e["eop"],
                    "own": [list(own_tdb_jd(d, e["eop"])) for d in dates], "arg": []}
        # the argument the kernel is asked at for each date of this history (the caller's date as it is, in its own scale),
        # with what Date.d / Date.s show of the caller's date and of its TDB conversion
        first = e["names"][e["pairs"][0][1]]
        for d, t in zip(self.dates, tdb):
            del _JD_LOG[:]
            try:
                e["jpl"].get_propagator(first).propagate(d)
            except Exception:  # noqa: BLE001
                del _JD_LOG[:]
            self.rec["arg"].append({"caller": [float(d.d), float(d.s)], "tdb": [float(t.d), float(t.s)], "seen": sorted(set(_JD_LOG))})
        del _JD_LOG[:]
        self.dead = False    # a request crashed: nothing more is asked
        self.objs = []       # real objects
        self.info = []       # per object: {"frame": code, "obj":, "cen":, "k":, "loose": bool}

    # ---- names
    def fname(self, code, alias=True):
        if code >= ATT_BASE:
            return f"XF{code - ATT_BASE}"
        if code == 399 and alias and self.rng.random() < 0.4:
            return "EME2000"            # the built-in Earth-centred frame: same centre, same orientation
        return self.e["names"][code]

    def frame_arg(self, code):
        """a frame given by name or as object, as the public API allows"""
        from beyond.frames.frames import get_frame
        name = self.fname(code)
        return name if self.rng.random() < 0.6 else get_frame(name)

    def out(self, tok, st, vec, **meta):
        if tok[0] in ("offset", "center") and (tok[2] in _EPH or tok[3] in _EPH):
            meta["loose"] = True        # an interpolated offset (exact at a node up to the rounding of the Lagrange weights)
        # the arguments the kernel was asked at during this request (not for the Ephem frames, whose nodes are other dates)
        if tok[0] in ("get", "hand", "offset", "center", "setframe", "copy") and not meta.get("loose") and not _EPH:
            meta["args"] = sorted(set(_JD_LOG))
            meta["k"] = int(tok[1]) if tok[0] in ("get", "hand", "offset", "center") else self.info[int(tok[1])]["k"]
        del _JD_LOG[:]
        self.rec["ops"].append({"tok": [str(t) for t in tok], "st": st, "vec": vec, "meta": meta})
        return st

    def cart(self, o):
        import numpy as np
        if str(o.form) != "cartesian":
            o = o.copy(form="cartesian")
        return [float(x) for x in np.asarray(o)]

    def push(self, o, frame, obj, cen, k, loose=False):
        self.objs.append(o)
        self.info.append({"frame": frame, "obj": obj, "cen": cen, "k": k, "loose": loose})

    # ---- requests
    @guarded
    def get(self, k, a, route=None):
        jpl = self.e["jpl"]
        name = self.e["names"][a]
        routes = ["get_orbit", "get_propagator", "frame-body", "propagator-copy"]
        if self.e["pck"] and self.e.get("fake") is None and " " not in jpl.target_names.get(a, " ").strip():
            routes.append("get_body")
        route = route or self.rng.choice(routes)
        d = self.dates[k]
        try:
            if route == "get_orbit":
                o = jpl.get_orbit(name, d)
            elif route == "get_propagator":
                o = jpl.get_propagator(name).propagate(d)
            elif route == "propagator-copy":
                o = jpl.get_propagator(name).copy().propagate(d)
            elif route == "frame-body":
                o = jpl.get_frame(name).center.body.propagate(d)
            else:
                o = jpl.get_body(jpl.target_names[a].title()).propagate(d)
            if float(o.date.jd) != self.jd[k] or str(o.date.scale) != "TDB":
                return self.out(["get", k, a], "wrong-date", None, route=route)
            c = self.code_of(str(o.frame))
            self.push(o, c, a, c, k)
            return self.out(["get", k, a], "ok", self.cart(o), route=route, frame=c)
        except Exception as ex:  # noqa: BLE001
            return self.out(["get", k, a], status_of(ex), None, route=route)

    def code_of(self, name):
        if name == "EME2000":
            return 399
        if name.startswith("XF") and name[2:].isdigit():
            return ATT_BASE + int(name[2:])
        for code, n in self.e["names"].items():
            if n == name:
                return code
        raise RuntimeError("frame without model code: " + name)

    @guarded
    def hand(self, k, o, c):
        """a JplPropagator built by hand: body o as seen from the frame of c, whichever way the file stores the segment"""
        from beyond.frames.frames import get_frame
        jpl = self.e["jpl"]
        try:
            prop = jpl.JplPropagator(get_frame(self.e["names"][o]).center, get_frame(self.e["names"][c]))
            if self.rng.random() < 0.3:
                prop = prop.copy()
            orb = prop.propagate(self.dates[k])
            if float(orb.date.jd) != self.jd[k] or self.code_of(str(orb.frame)) != c:
                return self.out(["hand", k, o, c], "wrong-date-or-frame", None)
            self.push(orb, c, o, c, k)
            return self.out(["hand", k, o, c], "ok", self.cart(orb))
        except Exception as ex:  # noqa: BLE001
            return self.out(["hand", k, o, c], status_of(ex), None)

    def uncurl(self, i):
        """the spherical form is singular on the polar axis and at the origin, where a change of frame may well put the
        object: back to cartesian before the object moves"""
        if str(self.objs[i].form) != "cartesian":
            self.setform(i, "cartesian")

    @guarded
    def setframe(self, i, b):
        self.uncurl(i)
        try:
            self.info[i]["loose"] = self.info[i]["loose"] or b in _EPH or self.info[i]["frame"] in _EPH
            self.objs[i].frame = self.frame_arg(b)
            self.info[i]["frame"] = b
            return self.out(["setframe", i, b], "ok", self.cart(self.objs[i]), loose=self.info[i]["loose"])
        except Exception as ex:  # noqa: BLE001
            return self.out(["setframe", i, b], status_of(ex), None)

    @guarded
    def setform(self, i, form):
        """in-place change of form: the point represented does not move (not a request of the model)"""
        x, y, z = self.cart(self.objs[i])[:3]
        if form != "cartesian" and not (x * x + y * y > 1e-6 * (x * x + y * y + z * z) > 0.0):
            return None
        try:
            self.objs[i].form = form
            self.info[i]["loose"] = True
            return self.out(["setform", i, form], "ok", self.cart(self.objs[i]), loose=True)
        except Exception as ex:  # noqa: BLE001
            return self.out(["setform", i, form], status_of(ex), None)

    @guarded
    def setval(self, i, j, x):
        if str(self.objs[i].form) != "cartesian":
            return None
        self.objs[i][j] = x
        return self.out(["setval", i, j, f2b(x)], "ok", self.cart(self.objs[i]), loose=self.info[i]["loose"], value=x)

    @guarded
    def read(self, i):
        return self.out(["read", i], "ok", self.cart(self.objs[i]), loose=self.info[i]["loose"])

    @guarded
    def copy(self, i, b):
        self.uncurl(i)
        try:
            o = self.objs[i].copy(frame=self.frame_arg(b))
            inf = self.info[i]
            loose = inf["loose"] or b in _EPH or inf["frame"] in _EPH
            self.push(o, b, inf["obj"], inf["cen"], inf["k"], loose)
            return self.out(["copy", i, b], "ok", self.cart(o), loose=loose)
        except Exception as ex:  # noqa: BLE001
            return self.out(["copy", i, b], status_of(ex), None)

    @guarded
    def offset(self, k, a, b):
        import numpy as np
        from beyond.orbits import StateVector
        try:
            sv = StateVector([0.0] * 6, self.dates[k], "cartesian", self.frame_arg(a))
            res = sv.copy(frame=self.frame_arg(b))
            return self.out(["offset", k, a, b], "ok", [float(x) for x in np.asarray(res)])
        except Exception as ex:  # noqa: BLE001
            return self.out(["offset", k, a, b], status_of(ex), None)

    @guarded
    def center(self, k, a, b):
        from beyond.frames.frames import get_frame
        try:
            fa, fb = get_frame(self.fname(a)), get_frame(self.fname(b))
            new = fb.center if self.rng.random() < 0.5 else fb.center.name
            res = fa.center.convert_to(self.dates[k], new, fb.orientation)
            return self.out(["center", k, a, b], "ok", [float(x) for x in res])
        except Exception as ex:  # noqa: BLE001
            return self.out(["center", k, a, b], status_of(ex), None)

    @guarded
    def asframe(self, i, variant=None):
        """objs[i].as_frame(name) / orbit2frame(name, objs[i]); variants: a local orbital orientation (QSW, TNW: the centre
        is the same, only conversions FROM the new frame are then requested, see oriented()), and the frame made from an
        Ephem of the orbit whose nodes include the dates of this history (Ephem.as_frame: the offset is interpolated,
        exactly at a node)"""
        from beyond.frames.frames import orbit2frame
        x = ATT_BASE + len(_ATT)
        name = f"XF{x - ATT_BASE}"
        o = self.objs[i]
        inf = self.info[i]
        variant = variant or "plain"
        if variant in ("QSW", "TNW"):
            # the local orbital frame is built from the state relative to the default parent, the Earth: it does not
            # exist for the Earth itself nor for a body that sits on it / moves along the line to it
            import numpy as np
            try:
                sv = np.asarray(o.copy(frame="EME2000", form="cartesian"), dtype=float)
                h2 = float(np.linalg.norm(np.cross(sv[:3], sv[3:])))
                ok = h2 > 1e-9 * float(np.linalg.norm(sv[:3]) * np.linalg.norm(sv[3:])) > 0.0
            except Exception:  # noqa: BLE001
                ok = False
            if inf["obj"] == 399 or not ok or not all(np.isfinite(sv)):
                variant = "plain"
        link = inf["frame"]
        try:
            if variant == "ephem":
                from beyond.dates import timedelta
                nodes = set()
                for d in self.dates:
                    # the date itself is a node, four nodes on either side (the dates at the two ends of the kernel's
                    # span leave 130 s of room)
                    nodes.update(d + timedelta(seconds=20 * j) for j in range(-4, 5))
                eph = o.ephem(dates=sorted(nodes))
                link = self.code_of(str(eph.frame))        # the frame of the propagator, whatever the orbit's frame is now
                if self.rng.random() < 0.5:
                    eph.as_frame(name)
                else:
                    orbit2frame(name, eph)
                _EPH.add(x)
            elif variant in ("QSW", "TNW"):
                if self.rng.random() < 0.5:
                    o.as_frame(name, orientation=variant)
                else:
                    orbit2frame(name, o, orientation=variant)
                _ORI.add(x)
            elif self.rng.random() < 0.5:
                o.as_frame(name)
            else:
                orbit2frame(name, o)
        except Exception as ex:  # noqa: BLE001
            return None, self.out(["asframeeph" if variant == "ephem" else "asframe", i, x], status_of(ex), None, variant=variant)
        if link in _EPH:
            _EPH.add(x)         # hangs below an interpolated frame: only good at the dates of this history too
        _ATT.append([x, link, inf["obj"], inf["cen"]])
        self.out(["asframeeph" if variant == "ephem" else "asframe", i, x], "ok", self.cart(o), loose=inf["loose"], variant=variant)
        return x, "ok"


def plain_frames():
    """frames made from orbits that any later history of this process may use anywhere (not the ones with a local
    orientation, not the ones made from an Ephem, whose nodes are the dates of one history)"""
    return [a[0] for a in _ATT if a[0] not in _ORI and a[0] not in _EPH]


def plan_exhaustive(e, rng, dates):
    """every segment through a hand-made propagator in both directions; the frame attached to the orbit of every body
    that has one (created once per process, used at every date) against every body, both ways; every body asked twice
    at the same date with an in-place conversion of the first answer in between.  One history per part and date."""
    recs = []
    nd = len(dates)
    h = History(e, rng, dates)
    for k in range(nd):
        for c, t in e["pairs"]:
            h.hand(k, t, c)
            h.hand(k, c, t)
    recs.append(h.rec)
    targets = []
    for c, t in e["pairs"]:
        if t not in targets:
            targets.append(t)
    for d in dates:
        h = History(e, rng, [d])
        for a in targets:
            if a not in _EXH:
                if h.get(0, a, route="get_orbit") != "ok":
                    continue
                x, st = h.asframe(len(h.objs) - 1)
                if st != "ok":
                    continue
                _EXH[a] = x
            x = _EXH[a]
            for b in e["ids"]:
                h.offset(0, x, b)
                h.offset(0, b, x)
        recs.append(h.rec)
    ids = e["ids"]
    h = History(e, rng, dates)
    for k in range(nd):
        for n, a in enumerate(targets):
            if h.get(k, a) != "ok":
                continue
            i = len(h.objs) - 1
            b = ids[(ids.index(a) + 1 + n + k) % len(ids)]
            if n % 3 == 2:
                h.setform(i, "spherical")
            h.setframe(i, b)
            h.get(k, a)
            h.offset(k, a, b)
            h.read(i)
    recs.append(h.rec)
    # the other ways of making a frame from an orbit, for a few bodies per run (twice as many in the thorough tier):
    # local orbital orientations (QSW / TNW) - the centre must be the body all the same; conversions from the new frame
    # - and Ephem.as_frame with the dates of the history among the nodes, both ways
    some = rng.sample(targets, min(8 if len(dates) > 3 else 4, len(targets)))
    h = History(e, rng, dates)
    for n, a in enumerate(some):
        if a not in _EXH_ORI:
            if h.get(0, a) != "ok":
                continue
            x, st = h.asframe(len(h.objs) - 1, ("QSW", "TNW")[n % 2])
            if st != "ok" or x not in _ORI:
                continue
            _EXH_ORI[a] = x
        for k in range(nd):
            for b in ids:
                h.offset(k, _EXH_ORI[a], b)
    recs.append(h.rec)
    h = History(e, rng, dates)
    for a in rng.sample(targets, min(5 if len(dates) > 3 else 3, len(targets))):
        if h.get(rng.randrange(nd), a) != "ok":
            continue
        if rng.random() < 0.5:
            h.setframe(len(h.objs) - 1, rng.choice(ids))      # the Ephem comes from the propagator: same frame
        x, st = h.asframe(len(h.objs) - 1, "ephem")
        if st != "ok":
            continue
        for k in range(nd):
            for b in ids:
                h.offset(k, x, b)
                h.offset(k, b, x)
    recs.append(h.rec)
    for n, r in enumerate(recs):
        r["label"] = f"exhaustive-{n}"
    if not _LIMIT:
        _LIMIT.append(len(_ATT) + ATT_EXTRA)
    return recs


def plan_random(h, nops):
    """a random history: requests, in-place modifications of the answers, frames made from the answers, repeated and
    interleaved dates and bodies"""
    e, rng = h.e, h.rng
    ids = e["ids"]
    pairs = e["pairs"]
    targets = sorted({t for _, t in pairs})
    nd = len(h.dates)
    mine = []                      # frames attached during this history
    hot = []                       # (k, a) already asked: ask them again

    def anyframe():
        r = rng.random()
        if mine and r < 0.25:
            return rng.choice(mine)
        old = plain_frames()
        if old and r < 0.3:
            return rng.choice(old)
        return rng.choice(ids)

    oriented = []

    for _ in range(nops):
        r = rng.random()
        n = len(h.objs)
        if r < 0.22 or n == 0:
            if hot and rng.random() < 0.5:
                k, a = rng.choice(hot)
            else:
                k, a = rng.randrange(nd), (rng.choice(targets) if rng.random() < 0.93 else rng.choice(ids))
            h.get(k, a)
            hot.append((k, a))
        elif r < 0.32:
            c, t = rng.choice(pairs)
            if rng.random() < 0.08:
                t = rng.choice(ids)
            k = rng.randrange(nd)
            if rng.random() < 0.5:
                h.hand(k, t, c)
            else:
                h.hand(k, c, t)
        elif r < 0.50:
            h.setframe(rng.randrange(n), anyframe())
        elif r < 0.55:
            h.setform(rng.randrange(n), rng.choice(["spherical", "cartesian", "spherical"]))
        elif r < 0.60:
            i = rng.randrange(n)
            cur = h.cart(h.objs[i])
            j = rng.randrange(6)
            h.setval(i, j, rng.choice([0.0, -cur[j], cur[j] * rng.uniform(0.5, 2.0), rng.uniform(-1, 1) * 1e9]))
        elif r < 0.66:
            h.read(rng.randrange(n))
        elif r < 0.74:
            h.copy(rng.randrange(n), anyframe())
        elif r < 0.86:
            if hot and rng.random() < 0.6:
                k, a = rng.choice(hot)
            else:
                k, a = rng.randrange(nd), anyframe()
            b = anyframe()
            if rng.random() < 0.5:
                a, b = b, a
            h.offset(k, a, b)
        elif r < 0.92:
            h.center(rng.randrange(nd), anyframe(), anyframe())
        elif oriented and rng.random() < 0.5:
            h.offset(rng.randrange(nd), rng.choice(oriented), anyframe())
        elif len(_ATT) < (_LIMIT[0] if _LIMIT else len(targets) + ATT_EXTRA):
            variant = rng.choice(["plain", "plain", "plain", "ephem", "QSW", "TNW"])
            x, st = h.asframe(rng.randrange(n), variant)
            if st == "ok":
                (oriented if x in _ORI else mine).append(x)
        else:
            # enough frames in this process (every one of them lengthens every later route search): use them
            h.offset(rng.randrange(nd), rng.choice(plain_frames() or ids), anyframe())


def histories_here(e, seed, nrandom, nops, dates, exhaustive=True):
    """the histories of one process (one kernel configuration): the exhaustive plan and `nrandom` random ones"""
    import random
    rng = random.Random(f"C18-hist-{seed}")
    recs = []
    if exhaustive:
        # the two ends of the span and one date inside (quick), six dates (thorough)
        recs += plan_exhaustive(e, rng, dates[:3] if len(dates) <= 4 else dates[:6])
    for i in range(nrandom):
        nd = rng.randint(1, 3)
        h = History(e, rng, [dates[rng.randrange(len(dates))] for _ in range(nd)] if rng.random() < 0.5 else gen_dates(rng, nd + 2, e["span"], eop_days() if e["eop"] else None)[2:])
        plan_random(h, nops)
        h.rec["label"] = f"random-{i}"
        recs.append(h.rec)
    return recs


def run_worker(req):
    envv = dict(os.environ)
    envv["PYTHONPATH"] = core.VERIF + os.pathsep + core.REPO + os.pathsep + envv.get("PYTHONPATH", "")
    envv["VERIF_REPO"] = core.REPO
    envv.setdefault("PYTHONWARNINGS", "ignore")
    p = subprocess.run([sys.executable, "-m", "harness.props.C18", "--worker"], input=json.dumps(req),
                       capture_output=True, text=True, cwd=core.VERIF, env=envv, timeout=3000)
    if p.returncode != 0:
        raise RuntimeError("C18 worker failed: " + p.stderr[-800:])
    return json.loads(p.stdout.split("\n@@RESULT@@\n", 1)[1])


def seq_request(rec):
    """the request line of the Lean model for one history (requests that are not part of the model are left out)"""
    pairs = [tuple(p) for p in rec["pairs"]]
    toks = ["seq", str(len(pairs))] + [f"{c}-{t}" for c, t in pairs]
    toks += [str(len(rec["att0"]))] + ["-".join(str(v) for v in a) for a in rec["att0"]]
    toks.append(str(len(rec["raw"])))
    for raw in rec["raw"]:
        for c, t in pairs:
            toks += [f2b(x) for x in raw[f"{c}-{t}"]]
    idx = []
    for n, op in enumerate(rec["ops"]):
        if op["tok"][0] == "setform" or op["meta"].get("crashed"):
            continue
        toks += op["tok"]
        idx.append(n)
    return " ".join(toks), idx


def spec_history(rec):
    """what every request of a history must return according to the property: the vectors obtained by chaining the
    file's segments directly, with no memory between the requests.  A frame made from the orbit of a body is centred on
    that body.  Returns per request (expected vector or None, magnitude of the terms summed, tainted) where tainted marks
    the answers that involve a frame made from a re-framed orbit (finding C18-asframe-reframed, fixed by 261fb0a: the family is kept)."""
    pairs = [tuple(p) for p in rec["pairs"]]
    raws = [{tuple(int(x) for x in key.split("-")): v for key, v in raw.items()} for raw in rec["raw"]]
    body = {}       # attached frame -> the body it is centred on
    bad = {}        # attached frames made from an orbit that was no longer in the frame of its propagator -> (link, obj, cen)
    attinfo = {}    # every attached frame -> (link, obj, cen)
    for x, link, obj, cen in rec["att0"]:
        body[x] = obj
        attinfo[x] = (link, obj, cen)
        if link != cen:
            bad[x] = (link, obj, cen)

    def rel(k, a, b):
        ta = a in bad or b in bad
        extra = [0.0] * 6
        for x in (a, b):
            # a frame made from an orbit is reached through link -> cen -> obj: the rounding scales with those terms
            # (the answer itself may cancel: the frame of the orbit of b seen from b)
            if x in attinfo:
                link, obj, cen = attinfo[x]
                for u, w in ((body.get(link, link), cen), (obj, cen)):
                    m = chain_direct(pairs, raws[k], u, w)[1]
                    extra = [p + q for p, q in zip(extra, m or extra)]
        a = body.get(a, a)
        b = body.get(b, b)
        v, m = chain_direct(pairs, raws[k], a, b)
        return v, (None if m is None else [p + q for p, q in zip(m, extra)]), ta

    objs = []
    res = []
    for op in rec["ops"]:
        t = op["tok"]
        name = t[0]
        if op["st"] != "ok":
            res.append((None, None, False))
            continue
        if name in ("get", "hand"):
            k, o = int(t[1]), int(t[2])
            c = int(t[3]) if name == "hand" else op["meta"]["frame"]
            v, m, ta = rel(k, o, c)
            if v is None:
                res.append((None, None, False))
                objs.append(None)
                continue
            objs.append({"k": k, "frame": c, "vec": list(v), "mag": list(m), "taint": ta, "obj": o, "cen": c})
            res.append((v, m, ta))
        elif name in ("setframe", "copy"):
            i, b = int(t[1]), int(t[2])
            o = objs[i]
            d, m, ta = rel(o["k"], o["frame"], b)
            new = dict(o, frame=b, vec=[x + y for x, y in zip(o["vec"], d)], mag=[x + y for x, y in zip(o["mag"], m)], taint=o["taint"] or ta)
            if name == "setframe":
                objs[i] = new
            else:
                objs.append(new)
            res.append((new["vec"], new["mag"], new["taint"]))
        elif name == "setform":
            o = objs[int(t[1])]
            res.append((o["vec"], o["mag"], o["taint"]))
        elif name == "setval":
            o = objs[int(t[1])]
            o["vec"] = list(o["vec"]); o["mag"] = list(o["mag"])
            o["vec"][int(t[2])] = op["meta"]["value"]
            o["mag"][int(t[2])] = abs(op["meta"]["value"])
            res.append((o["vec"], o["mag"], o["taint"]))
        elif name == "read":
            o = objs[int(t[1])]
            res.append((o["vec"], o["mag"], o["taint"]))
        elif name in ("offset", "center"):
            v, m, ta = rel(int(t[1]), int(t[2]), int(t[3]))
            res.append((v, m, ta))
        elif name in ("asframe", "asframeeph"):
            o = objs[int(t[1])]
            x = int(t[2])
            body[x] = o["obj"]
            link = o["cen"] if name == "asframeeph" else o["frame"]
            attinfo[x] = (link, o["obj"], o["cen"])
            if link != o["cen"]:
                bad[x] = attinfo[x]
            res.append((o["vec"], o["mag"], o["taint"]))
        else:
            raise RuntimeError("unknown request " + name)
    return res


def block_tol(vec, ref, mag, rel):
    """component-wise comparison; the tolerance scales with the largest term summed in the block (position / velocity)"""
    bad = []
    for lo, hi in ((0, 3), (3, 6)):
        m = max(mag[lo:hi])
        for i in range(lo, hi):
            if not abs(vec[i] - ref[i]) <= rel * m + 1e-300:
                bad.append(i)
    return bad


def history_input(rec, n):
    """a concrete failing input: the history up to and including request n"""
    return {"kernel_pairs": rec["pairs"], "pck": rec.get("pck"), "eop_database": rec.get("eop"), "label": rec.get("label"), "dates [mjd day, seconds, scale (UTC if none)]": rec["dates"],
            "frames_attached_before [x, link, obj, cen]": rec["att0"][-6:],
            "history": [" ".join(op["tok"]) + ((" via " + op["meta"]["route"]) if "route" in op["meta"] else "") + " -> " + op["st"] for op in rec["ops"][max(0, n - 12):n + 1]]}


def oracle_histories(out, recs, family=None):
    """every answer of every history against the segments chained directly in the harness
    (family: the one of the open finding when the kernel itself is outside the hypotheses of the theorems)"""
    for rec in recs:
        spec = spec_history(rec)
        last_mut = "none"
        oracle_arguments(out, rec, family)
        for n, (op, (exp, mag, taint)) in enumerate(zip(rec["ops"], spec)):
            name = op["tok"][0]
            out.count(key=(rec.get("label"), rec["pck"], tuple(rec["pairs"][0]), n, tuple(op["tok"])), kind="hist-" + name, status=op["st"])
            if op["st"] != "ok":
                # the only legitimate errors: a body that is the target of no segment has no orbit; a hand-made
                # propagator for two bodies that no segment joins
                legit = (name == "get" and op["st"] == "unknown-body" and int(op["tok"][2]) not in {t for _, t in rec["pairs"]}) or \
                        (name == "hand" and op["st"] == "key-error" and [int(op["tok"][3]), int(op["tok"][2])] not in rec["pairs"] and [int(op["tok"][2]), int(op["tok"][3])] not in rec["pairs"])
                if not legit:
                    out.fail(family or f"spk-hist-{name}-error", f"request '{' '.join(op['tok'])}' raised {op['st']}", history_input(rec, n), observed=op["st"], expected="ok")
                continue
            if exp is None:
                out.fail(f"spk-hist-{name}-no-chain", "an answer for two bodies that the segments do not join", history_input(rec, n), observed=op["vec"])
                continue
            loose = op["meta"].get("loose", False)
            bad = block_tol(op["vec"], exp, mag, 1e-8 if loose else 4e-12)
            if bad:
                if family:
                    fam = family
                elif taint:
                    fam = "spk-asframe-reframed-orbit"
                else:
                    sub = "sign" if all(abs(op["vec"][i] + exp[i]) <= 1e-8 * max(mag) for i in bad) else ("velocity" if all(i >= 3 for i in bad) else "value")
                    fam = f"spk-hist-{name}-{sub}-after-{last_mut}"
                out.fail(fam, f"request '{' '.join(op['tok'])}' (request {n} of the history) does not return the chained segments (components {bad})",
                         history_input(rec, n), observed=op["vec"], expected=exp)
            if name in ("setframe", "setform", "setval", "asframe", "asframeeph"):
                last_mut = name


def oracle_arguments(out, rec, family=None):
    """the TDB argument: for every date of the history (given in any scale, with any clock reading) the kernel is asked at
    the TDB Julian date of the instant - the one this harness computes itself from the definitions of the scales - and
    every request of the history asks it at that same argument"""
    for k, (a, (own, tol)) in enumerate(zip(rec["arg"], rec["own"])):
        spec = rec["dates"][k]
        scale = spec[2] if len(spec) > 2 else "UTC"
        inp = {"date [mjd day, seconds of day, scale]": spec, "eop_database": rec["eop"], "request": f"get_propagator({rec['pairs'][0][1]}).propagate(date)",
               "Date.d, Date.s of the date": a["caller"], "of its TDB conversion": a["tdb"]}
        out.count(key=("arg", rec.get("label"), rec["pck"], rec["eop"], tuple(spec)), kind="tdb-argument", scale=scale, crosses_midnight=a["caller"][0] != a["tdb"][0])
        if len(a["seen"]) != 1:
            out.fail(family or "spk-tdb-argument-count", "one request asked the kernel at several arguments (or none)", inp, observed=a["seen"], expected=[own])
            continue
        if not abs(a["seen"][0] - own) <= tol:
            sub = "day" if abs(abs(a["seen"][0] - own) - 1.0) < 1e-3 else "value"
            out.fail(family or f"spk-tdb-argument-{sub}-{scale}", f"the kernel is asked at a Julian date that is not the TDB Julian date of the instant (off by {a['seen'][0] - own:.9f} d)",
                     inp, observed=a["seen"][0], expected=own)
    for n, op in enumerate(rec["ops"]):
        if "args" not in op["meta"] or op["st"] != "ok":
            continue
        want = rec["jd"][op["meta"]["k"]]
        badargs = [x for x in op["meta"]["args"] if x != want]
        if badargs:
            out.fail(family or f"spk-hist-{op['tok'][0]}-tdb-argument", f"request '{' '.join(op['tok'])}' asked the kernel at another argument than the TDB Julian date of its date",
                     history_input(rec, n), observed=badargs, expected=want)


def corr_arguments(rec, reqs, meta):
    """the expression read from the source (Lean `kernelArg`), fed with what Date.d / Date.s show, against the argument seen"""
    for k, a in enumerate(rec["arg"]):
        reqs.append("jdarg " + " ".join(f2b(x) for x in a["caller"] + a["tdb"]))
        meta.append(("arg", rec, k))


def compare_argument(out, rec, k, rep):
    a = rec["arg"][k]
    spec = rec["dates"][k]
    out.count(key=("arg", rec.get("label"), rec["pck"], rec["eop"], tuple(spec)), kind="kernel-argument", crosses_midnight=a["caller"][0] != a["tdb"][0])
    model = b2f(rep) if rep.isdigit() else None
    if model is None or a["seen"] != [model]:
        out.fail("spk-argument-model", "the argument handed to jplephem differs from the expression read from the source", {"date": spec, "eop_database": rec["eop"], "caller d,s": a["caller"], "tdb d,s": a["tdb"]},
                 observed=a["seen"], expected=model if model is not None else rep[:40])


def corr_histories(out, recs, reqs, meta):
    for rec in recs:
        corr_arguments(rec, reqs, meta)
        line, idx = seq_request(rec)
        reqs.append(line)
        meta.append(("hist", rec, idx))
        for n in idx:
            op = rec["ops"][n]
            out.count(key=("hist", rec.get("label"), rec["pck"], tuple(rec["pairs"][0]), n, tuple(op["tok"])), kind="hist-" + op["tok"][0], status=op["st"])


def compare_history(out, rec, idx, rep):
    spec = spec_history(rec)
    parts = [x.strip() for x in rep.split("|")]
    if len(parts) != len(idx):
        out.fail("spk-hist-model-status", "the Lean model rejected the history", history_input(rec, len(rec["ops"]) - 1), observed=[op["st"] for op in rec["ops"]][-5:], expected=rep[:60])
        return
    for n, part in zip(idx, parts):
        op = rec["ops"][n]
        toks = part.split()
        name = op["tok"][0]
        if toks[0] != "ok" or op["st"] != "ok":
            if toks[0] != op["st"]:
                out.fail(f"spk-hist-model-status-{name}", "the real code and the Lean model end a request differently", history_input(rec, n), observed=op["st"], expected=part[:40])
                return
            continue
        model = [b2f(x) for x in toks[1:]]
        vec = op["vec"]
        mag = [max(abs(x), abs(y), z) for x, y, z in zip(vec, model, spec[n][1] or [0.0] * 6)]
        # same operations in the same order; a history accumulates one rounding per in-place conversion, relative to the
        # terms that were summed (the answer itself may cancel to zero)
        if block_tol(vec, model, mag, 1e-8 if op["meta"].get("loose") else 1e-11):
            out.fail(f"spk-hist-model-value-{name}", f"request '{' '.join(op['tok'])}' (request {n} of the history): beyond and the Lean model fed with the same segment values differ",
                     history_input(rec, n), observed=vec, expected=model)
            return     # later answers of the same history inherit the difference
        out.sample({"history": rec.get("label"), "request": " ".join(op["tok"]), "impl": vec, "model": model}, limit=6)


# ---------------------------------------------------------------- correspondence: real code vs compiled Lean model

NAIF_POOL = [0, 1, 2, 3, 4, 5, 6, 7, 8, 9, 10, 199, 299, 301, 401, 402, 499, 501, 502, 599, 601, 606, 699]


def gen_kernel(rng, rooted):
    """a random tree of segments containing the Earth (399).  rooted: every segment points away from one root
    (each body is the target of at most one segment, as in the JPL planetary kernels); otherwise every edge
    gets a random direction.  Random order of the segments in the file."""
    n = rng.randint(2, 8)
    ids = [399] + rng.sample(NAIF_POOL, n - 1)
    rng.shuffle(ids)
    edges = []
    for i in range(1, n):
        par = ids[rng.randrange(0, i)]
        edges.append((par, ids[i]) if rooted or rng.random() < 0.5 else (ids[i], par))
    rng.shuffle(edges)
    fake = []
    for c, t in edges:
        A = [rng.uniform(-1, 1) * 10 ** rng.uniform(3, 9) for _ in range(3)]
        B = [rng.uniform(-1, 1) * 10 ** rng.uniform(2, 6) for _ in range(3)]
        fake.append([c, t, A, B, rng.random() < 0.3])       # three in ten are type 3 segments (position and velocity)
    return fake


def run_driver(reqs, par=6):
    """core.Driver().run on `par` driver processes side by side (the lines are independent requests)"""
    from concurrent.futures import ThreadPoolExecutor
    order = sorted(range(len(reqs)), key=lambda i: -len(reqs[i]))       # the long histories first, spread evenly
    chunks = [order[j::par] for j in range(par)]
    replies = [None] * len(reqs)
    with ThreadPoolExecutor(max_workers=par) as ex:
        for chunk, rep in zip(chunks, ex.map(lambda ch: core.Driver().run([reqs[i] for i in ch]), chunks)):
            for i, r in zip(chunk, rep):
                replies[i] = r
    return replies


def request_line(kind, a, b, pairs, raw):
    op = "orbit" if kind.startswith("orbit") else "offset"
    toks = ["spk", op, str(a), str(b), str(len(pairs))] + [f"{c}-{t}" for c, t in pairs]
    for c, t in pairs:
        toks += [f2b(x) for x in raw[(c, t)]]
    return " ".join(toks)


def compare_rows(out, r, label, dates, reqs, meta):
    pairs = [tuple(p) for p in r["pairs"]]
    for kind, a, b, k, st, vec, jd in r["rows"]:
        raw = {tuple(int(x) for x in key.split("-")): v for key, v in r["raw"][str(k)]["seg"].items()}
        reqs.append(request_line(kind, a, b, pairs, raw))
        meta.append((label, kind, a, b, list(dates[k]), st, vec, pairs))
        out.count(key=(label, kind, a, b, k), nontrivial=a != b, kind=kind, kernel=label.split("#")[0], status=st)


def correspondence(ctx):
    out = Outcome()
    rng = ctx.rng
    reqs, meta = [], []
    dates = gen_dates(rng, ctx.n(3, 16))
    jobs, labels = [], []
    for pck in (True, False):
        jobs.append(dict(pck=pck, dates=dates, hist={"seed": f"k-{ctx.seed}-{pck}", "nrandom": ctx.n(10, 150), "nops": 36}))
        labels.append("de403-pck" if pck else "de403-nopck")
    # a third configuration: the real IERS database (leap seconds, UT1-UTC) instead of none
    jobs.append(dict(pck=True, eop=True, dates=gen_dates(rng, ctx.n(3, 16) + 2, days=eop_days())[2:],
                     hist={"seed": f"k-{ctx.seed}-eop", "nrandom": ctx.n(6, 80), "nops": 36}))
    labels.append("de403-eop")
    for i in range(ctx.n(8, 60)):
        rooted = i % 2 == 0
        fake = gen_kernel(rng, rooted)
        fd = gen_dates(rng, 3)[2:]
        jobs.append(dict(pck=False, dates=fd, eme=True, fake=fake, hist={"seed": f"k-{ctx.seed}-s{i}", "nrandom": 2, "nops": 30}))
        labels.append(("synthetic-rooted#" if rooted else "synthetic-any#") + str(i))
    for job, label, r in zip(jobs, labels, collect_many(jobs)):
        compare_rows(out, r, label, job["dates"], reqs, meta)
        corr_histories(out, r["hist"], reqs, meta)
    corr_series(out, rng, ctx.n(400, 20000))
    corr_tabulations(out, rng, ctx.n(60, 1500))
    replies = run_driver(reqs)
    for m, rep in zip(meta, replies):
        if m[0] == "hist":
            compare_history(out, m[1], m[2], rep)
            continue
        if m[0] == "arg":
            compare_argument(out, m[1], m[2], rep)
            continue
        label, kind, a, b, date, st, vec, pairs = m
        inp = {"kernel": label, "pairs": pairs, "op": kind, "a": a, "b": b, "date_mjd_utc": date}
        toks = rep.split()
        if toks[0] != "ok" or st != "ok":
            if toks[0] != st:
                out.fail("spk-model-status", "the real code and the Lean model end differently", inp, observed=st, expected=rep[:40])
            continue
        model = [b2f(x) for x in toks[1:]]
        scale = max(max(abs(x) for x in vec[:3]), max(abs(x) for x in model[:3]))
        scalev = max(max(abs(x) for x in vec[3:]), max(abs(x) for x in model[3:]))
        # the model performs the same float operations in the same order; 1e-12 leaves room for numpy's summation order only
        if any(not core.close(x, y, rtol=1e-12, atol=1e-12 * (scale if i < 3 else scalev)) for i, (x, y) in enumerate(zip(vec, model))):
            out.fail("spk-model-value", "vector differs between beyond and the Lean model fed with the same segment values", inp, observed=vec, expected=model)
        out.sample({"kernel": label, "op": kind, "a": a, "b": b, "impl": vec, "model": model}, limit=2)
    return out


def corr_series(out, rng, n):
    """SunPropagator / MoonPropagator .propagate vs the Lean model (series translated from the source + symmetric difference)"""
    import numpy as np
    from beyond.env.solarsystem import get_body
    env(True)
    reqs, meta = [], []
    for i in range(n):
        name = ("sun", "moon")[i % 2]
        body = get_body(name.title())
        scale = "UT1" if name == "sun" else "TDB"
        # 1950..2050 plus a few far dates: the series are total functions of the date
        day = rng.randint(33282, 69807) if rng.random() < 0.9 else rng.randint(15020, 88069)
        d = make_date(day, round(rng.uniform(0, 86400), 6))
        step = body.propagator._diff_step
        ts = [float(x.change_scale(scale).julian_century) for x in (d - step, d, d + step)]
        real = [float(x) for x in np.asarray(body.propagate(d))]
        reqs.append(" ".join([name] + [f2b(t) for t in ts]))
        meta.append((name, day, ts, real))
        out.count(key=(name, day, ts[1]), kind="series-" + name)
    for (name, day, ts, real), rep in zip(meta, core.Driver().run(reqs)):
        model = [b2f(x) for x in rep.split()] if rep[:1].isdigit() else rep
        inp = {"body": name, "julian_centuries": ts, "mjd_day": day}
        if isinstance(model, str) or len(model) != 6:
            out.fail("series-model-status", "model rejected the request", inp, observed=real, expected=rep[:40])
            continue
        sp = max(abs(x) for x in real[:3]); sv = max(abs(x) for x in real[3:])
        # numpy's radians() multiplies by a rounded pi/180 and the arguments reach 1e4 rad: 1e-10 relative leaves 3 orders of margin
        if any(not core.close(x, y, rtol=1e-10, atol=1e-10 * (sp if k < 3 else sv)) for k, (x, y) in enumerate(zip(real, model))):
            out.fail(f"series-model-{name}", f"{name} state differs between beyond and the Lean model (series translated from the source)", inp, observed=real, expected=model)
        out.sample({"body": name, "T": ts[1], "impl": real, "model": model}, limit=4)


# ---------------------------------------------------------------- tabulations of the analytical bodies

TAB_ROUTES = ("iter-range", "iter-timedelta-stop", "iter-default-start", "iter-backwards", "iter-dates", "iter-dates-generator",
              "ephemeris", "ephemeris-dates", "ephem", "ephem-dates", "propagator-iter", "propagator-iter-dates", "iter-listeners")
# steps between the points of a tabulation (seconds): well below, at, and well above the two built-in difference steps
TAB_STEPS = (1.0, 60.0, 600.0, 3600.0, 21600.0, 43200.0, 86400.0, 2 * 86400.0, 5 * 86400.0, 10 * 86400.0, 20 * 86400.0, 45 * 86400.0)


def gen_tabulation(rng, i):
    """one tabulation of the analytical Sun / Moon: the body, the public route, the first date, and the offsets (seconds)
    of the points from it.  Routes taking start/stop/step get equally spaced offsets (the stop placed on the last point, or
    up to 0.9 step beyond it: Date.range(..., inclusive=True) ends at the last point not after the stop); routes taking
    `dates=` also get irregular, repeated and unsorted dates.  1 to 9 points: one, two and three points are the shortest
    tables (no neighbour, one neighbour, one interior point)."""
    body = ("Sun", "Moon")[i % 2]
    route = TAB_ROUTES[(i // 2) % len(TAB_ROUTES)] if rng.random() < 0.8 else rng.choice(TAB_ROUTES)
    day = rng.randint(51544, 59214) if rng.random() < 0.8 else rng.randint(33282, 69807)
    sec = rng.choice([0.0, 43200.0, round(rng.uniform(0, 86400), 3)])
    n = rng.choice([1, 2, 3, 3, 4, 5, 5, 7, 9])
    step = rng.choice(TAB_STEPS) if rng.random() < 0.8 else round(rng.uniform(30.0, 30 * 86400.0), 3)
    spec = {"body": body, "route": route, "start": [day, sec], "step_s": step, "n": n, "beyond_stop": 0.0}
    if "dates" in route:
        kind = rng.choice(["regular", "regular", "irregular", "repeated", "unsorted"])
        if kind == "regular":
            offs = [k * step for k in range(n)]
        else:
            offs = [0.0]
            for _ in range(n - 1):
                offs.append(round(offs[-1] + rng.uniform(0.05, 2.0) * step, 3))
            if kind == "repeated" and n > 1:
                j = rng.randrange(1, n)
                offs[j] = offs[j - 1]
            if kind == "unsorted":
                rng.shuffle(offs)
        spec["dates_kind"] = kind
    else:
        sign = -1.0 if route == "iter-backwards" else 1.0
        offs = [sign * k * step for k in range(n)]
        # default start = the date of the orbit, which the Moon propagator returns in TDB: the end of the range is then
        # compared across scales at the microsecond (Date.range is C03's) - the stop is kept off the last point there
        spec["beyond_stop"] = rng.choice([0.5, 0.9] if route == "iter-default-start" else [0.0, 0.0, 0.5, 0.9])
    spec["offsets_s"] = offs
    return spec


def tab_dates(spec):
    from beyond.dates import timedelta
    start = make_date(*spec["start"])
    return start, [start + timedelta(seconds=o) for o in spec["offsets_s"]]


def run_tabulation(spec):
    """drive the real objects: -> (requested dates, list of states as returned) or raises"""
    from beyond.dates import timedelta
    from beyond.env.solarsystem import get_body
    from beyond.propagators.listeners import LightListener
    body = get_body(spec["body"])
    start, dates = tab_dates(spec)
    route = spec["route"]
    step = timedelta(seconds=spec["step_s"])
    last = spec["offsets_s"][-1]
    span = timedelta(seconds=last + (spec["beyond_stop"] * spec["step_s"] if last >= 0 else -spec["beyond_stop"] * spec["step_s"]))
    stop = start + span
    orb = body.propagate(start)
    if route == "iter-default-start":
        # the first date is the orbit's own (the Moon propagator returns it in TDB) and the steps are taken from it, in its scale
        dates = [orb.date + timedelta(seconds=o) for o in spec["offsets_s"]]
    if route.startswith("ephem-") or route == "ephem":
        dates = sorted(dates, key=lambda x: x.mjd)          # an Ephem holds its states in chronological order
    if route == "iter-range":
        res = list(orb.iter(start=start, stop=stop, step=step))
    elif route == "iter-timedelta-stop":
        res = list(orb.iter(start=start, stop=span, step=step))
    elif route == "iter-default-start":
        res = list(orb.iter(stop=stop, step=step))
    elif route == "iter-backwards":
        res = list(orb.iter(start=start, stop=stop, step=step))          # positive step, stop before start: the code turns it round
    elif route == "iter-dates":
        res = list(orb.iter(dates=dates))
    elif route == "iter-dates-generator":
        res = list(orb.iter(dates=(d for d in dates)))
    elif route == "ephemeris":
        res = list(orb.ephemeris(start=start, stop=stop, step=step))
    elif route == "ephemeris-dates":
        res = list(orb.ephemeris(dates=dates))
    elif route == "ephem":
        res = list(orb.ephem(start=start, stop=stop, step=step))
    elif route == "ephem-dates":
        res = list(orb.ephem(dates=dates))
    elif route == "propagator-iter":
        # (a propagator no orbit was attached to cannot tabulate: AnalyticalPropagator.iter reads self.orbit.date first)
        prop = type(orb.propagator)()
        prop.orbit = orb
        res = list(prop.iter(start=start, stop=stop, step=step))
    elif route == "propagator-iter-dates":
        prop = type(orb.propagator)()
        prop.orbit = orb
        res = list(prop.iter(dates=dates))
    elif route == "iter-listeners":
        # a listener that can never fire on these orbits still makes iter() take the listening path
        res = list(orb.iter(start=start, stop=stop, step=step, listeners=[]))
    else:
        raise ValueError(route)
    return dates, res


def tabulation_points(spec):
    """-> ('ok', [(k, requested date, six floats)]) or (status, detail)"""
    import numpy as np
    try:
        dates, res = run_tabulation(spec)
    except Exception as ex:  # noqa: BLE001
        return "raised " + type(ex).__name__, str(ex)[:120]
    if len(res) != len(dates):
        return "count", [len(res), len(dates)]
    pts = []
    for k, (d, st) in enumerate(zip(dates, res)):
        if abs((st.date - d).total_seconds()) > 1e-6:
            return "dates", [k, str(st.date), str(d)]
        if st.form.name != "cartesian":
            return "form", [k, st.form.name]
        # the requested date, as handed to the route (its scale included: the difference step is taken in that scale)
        pts.append((k, d, [float(x) for x in np.asarray(st, dtype=float)], str(st.frame)))
    return "ok", pts


def tab_place(k, n):
    return "single" if n == 1 else "first" if k == 0 else "last" if k == n - 1 else "interior"


def corr_tabulations(out, rng, n):
    """every point of a tabulation of the Sun / Moon obtained through any public route (Orbit.iter / ephemeris / ephem,
    propagator.iter; start-stop-step or dates=) vs the Lean `Solar.sunTable` / `moonTable` fed with the Julian centuries of
    (date - step, date, date + step) of the requested dates: the model tabulates by propagating each date on its own."""
    from beyond.env.solarsystem import get_body
    env(True)
    reqs, meta = [], []
    for i in range(n):
        spec = gen_tabulation(rng, i)
        name = spec["body"].lower()
        body = get_body(spec["body"])
        scale = "UT1" if name == "sun" else "TDB"
        h = body.propagator._diff_step
        st, pts = tabulation_points(spec)
        out.count(key=json.dumps(spec, sort_keys=True), nontrivial=spec["n"] >= 3, kind="tabulation-" + name, route=spec["route"], points=spec["n"], status=st)
        if st != "ok":
            out.fail(f"series-tabulation-{st.split()[0]}-{name}-{spec['route']}", "a tabulation of the analytical body does not return one cartesian state per requested date",
                     spec, observed=pts, expected="one state per date, at that date")
            continue
        ts = []
        for k, d, vec, frame in pts:
            ts += [float(x.change_scale(scale).julian_century) for x in (d - h, d, d + h)]
        reqs.append(" ".join([name + "tab", str(len(pts))] + [f2b(t) for t in ts]))
        meta.append((spec, pts))
    for (spec, pts), rep in zip(meta, core.Driver().run(reqs)):
        name = spec["body"].lower()
        rows = [[b2f(x) for x in r.split()] for r in rep.split("|")] if rep[:1].isdigit() or rep[:1] == "-" else None
        if rows is None or len(rows) != len(pts) or any(len(r) != 6 for r in rows):
            out.fail("series-model-status", "model rejected the tabulation", spec, observed=len(pts), expected=rep[:40])
            continue
        for (k, d, real, frame), model in zip(pts, rows):
            sp = max(abs(x) for x in real[:3]); sv = max(max(abs(x) for x in real[3:]), max(abs(x) for x in model[3:]))
            if any(not core.close(x, y, rtol=1e-10, atol=1e-10 * (sp if j < 3 else sv)) for j, (x, y) in enumerate(zip(real, model))):
                out.fail(f"series-model-tabulation-{name}-{spec['route']}-{tab_place(k, len(pts))}",
                         f"point {k} of {len(pts)} of a tabulation differs from the Lean model (each date propagated on its own: series + symmetric difference at the class's step)",
                         dict(spec, point=k, date=str(d)), observed=real, expected=model)
                break
        out.sample({"tabulation": spec, "impl_last": pts[-1][2], "model_last": rows[-1]}, limit=2)


# ---------------------------------------------------------------- oracle on the real API

def ang_deg(a, b):
    na = math.sqrt(sum(x * x for x in a)); nb = math.sqrt(sum(x * x for x in b))
    c = sum(x * y for x, y in zip(a, b)) / (na * nb)
    return math.degrees(math.acos(max(-1.0, min(1.0, c))))


def norm(a):
    return math.sqrt(sum(x * x for x in a))


def year_of(day):
    return int(2000 + (day - 51544) / 365.25)


def oracle_spk(out, rng, ndates, nhist):
    """every ordered pair of bodies, both public routes, with and without PCK files, against direct chaining"""
    dates = gen_dates(rng, ndates)
    edates = gen_dates(rng, ndates + 2, days=eop_days())[2:]
    seed = rng.getrandbits(32)
    both = collect_many([dict(pck=pck, dates=dates, hist={"seed": f"o-{seed}-{pck}", "nrandom": nhist, "nops": 36}) for pck in (True, False)] +
                        [dict(pck=True, eop=True, dates=edates, hist={"seed": f"o-{seed}-eop", "nrandom": max(4, nhist // 2), "nops": 36})])
    res = {True: both[0], False: both[1]}
    for tag, pck, r, ds in (("pck", True, both[0], dates), ("nopck", False, both[1], dates), ("eop", True, both[2], edates)):
        oracle_histories(out, r["hist"])
        pairs = [tuple(p) for p in r["pairs"]]
        targets = {t for _, t in pairs}
        vecs = {}
        for kind, a, b, k, st, vec, jd in r["rows"]:
            raw = {tuple(int(x) for x in key.split("-")): v for key, v in r["raw"][str(k)]["seg"].items()}
            inp = {"op": kind, "a": a, "b": b, "date [mjd day, seconds, scale (UTC if none)]": list(ds[k]), "pck": pck, "eop_database": tag == "eop"}
            fam = f"spk-{kind}-{tag}"
            out.count(key=(kind, a, b, k, tag), nontrivial=a != b, kind=kind, config=tag)
            if kind.startswith("orbit") and a not in targets:
                if st != "unknown-body":
                    out.fail(fam + "-no-propagator", "a body that is the target of no segment has an orbit", inp, observed=st, expected="unknown-body")
                continue
            if st != "ok":
                out.fail(fam + "-error", f"conversion between two bodies of the kernel raised {st}", inp, observed=st, expected="ok")
                continue
            if abs(jd - r["raw"][str(k)]["jd"]) > 0:
                out.fail(fam + "-tdb-argument", "the orbit's date is not the TDB date of the request", inp, observed=jd, expected=r["raw"][str(k)]["jd"])
                continue
            if not abs(jd - r["raw"][str(k)]["own"]) <= r["raw"][str(k)]["tol"]:
                out.fail(fam + "-tdb-own", "the TDB date of the request is not the TDB Julian date of the instant as computed from the definitions of the scales", inp, observed=jd, expected=r["raw"][str(k)]["own"])
                continue
            exp, mag = chain_direct(pairs, raw, a, b)
            if kind.startswith("orbit"):
                # the code goes a -> centre of a's segment -> b: the rounding error scales with the terms it actually sums
                c0 = next(c for c, t in pairs if t == a)
                _, m1 = chain_direct(pairs, raw, a, c0)
                _, m2 = chain_direct(pairs, raw, c0, b)
                mag = [x + y for x, y in zip(m1, m2)]
            bad = [i for i in range(6) if abs(vec[i] - exp[i]) > 1e-12 * mag[i] + 1e-300]
            if bad:
                # classify: sign, unit, other
                sub = "sign" if all(abs(vec[i] + exp[i]) <= 1e-9 * mag[i] for i in bad) else ("velocity" if all(i >= 3 for i in bad) else "value")
                out.fail(f"{fam}-{sub}", f"{kind}: vector of body {a} relative to body {b} differs from the chained segments (components {bad})",
                         inp, observed=vec, expected=exp)
            vecs[(kind, a, b, k)] = vec
        # antisymmetry a->b = -(b->a)
        for (kind, a, b, k), v in vecs.items():
            if kind == "offset" and a < b and ("offset", b, a, k) in vecs:
                w = vecs[("offset", b, a, k)]
                out.count(key=("antisym", a, b, k, tag), kind="antisymmetry", config=tag)
                if any(abs(x + y) > 1e-12 * (abs(x) + abs(y)) * 8 + 1e-300 for x, y in zip(v, w)):
                    out.fail(f"spk-antisymmetry-{tag}", "a relative to b is not minus b relative to a",
                             {"a": a, "b": b, "date": list(ds[k]), "pck": pck, "eop_database": tag == "eop"}, observed=v, expected=[-x for x in w])
    # PCK independence: bit-identical vectors
    ra = {(x[0], x[1], x[2], x[3]): (x[4], x[5]) for x in res[True]["rows"]}
    for x in res[False]["rows"]:
        key = (x[0], x[1], x[2], x[3])
        out.count(key=("pck-indep",) + key, kind="pck-independence")
        if ra.get(key) != (x[4], x[5]):
            out.fail("spk-pck-dependence", "the vector between two bodies changes when the PCK constant files are configured",
                     {"op": x[0], "a": x[1], "b": x[2], "date_mjd_utc": list(dates[x[3]])}, observed=ra.get(key), expected=[x[4], x[5]])
    m1, m0 = res[True]["masses"], res[False]["masses"]
    if not any(v for v in m1.values()) or any(v for v in m0.values()):
        out.notes.append(f"PCK masses: with={m1} without={m0}")
    out.sample({"spk": f"{len(dates)} dates x 16x16 ordered pairs x (get_orbit+copy, zero state vector+copy, EME2000) x (PCK, no PCK)",
                "example": res[True]["rows"][5][:6]})


TWO_CENTRES_KERNEL = [[5, 601, [1.0e6, -2.0e6, 3.0e5], [1.0e3, 2.0e3, -5.0e2]],
                      [399, 601, [-7.0e5, 4.0e5, 9.0e5], [-3.0e3, 1.0e3, 2.5e3]]]


def oracle_synthetic(out, rng, n):
    """synthetic kernels installed in place of the file (worker processes): random trees of segments.
    Rooted trees (each body the target of one segment, like every JPL planetary/satellite kernel) must chain exactly;
    trees in which a body is the target of segments from two centres exhibit the open finding C18-two-centres."""
    kernels = [("fixed-two-centres", TWO_CENTRES_KERNEL)]
    for i in range(n):
        kernels.append((f"random-{i}", gen_kernel(rng, rooted=i % 2 == 0)))
    jobs = []
    for label, fake in kernels:
        fd = gen_dates(rng, 3)[2:]
        jobs.append(dict(pck=False, dates=fd, eme=True, fake=fake, hist={"seed": f"o-{label}-{rng.getrandbits(32)}", "nrandom": 2, "nops": 30}))
    for (label, fake), r in zip(kernels, collect_many(jobs)):
        pairs = [tuple(p) for p in r["pairs"]]
        tg = [t for _, t in pairs]
        two = len(set(tg)) < len(tg)
        oracle_histories(out, r["hist"], "spk-synthetic-two-centres" if two else None)
        for kind, a, b, k, st, vec, jd in r["rows"]:
            raw = {tuple(int(x) for x in key.split("-")): v for key, v in r["raw"][str(k)]["seg"].items()}
            inp = {"kernel_pairs": pairs, "segments_km_kmday": {f"{c}-{t}": raw[(c, t)] for c, t in pairs}, "op": kind, "a": a, "b": b}
            fam = "spk-synthetic-two-centres" if two else f"spk-synthetic-{kind}"
            out.count(key=(label, kind, a, b), nontrivial=a != b, kind="synthetic-" + kind, two_centres=two)
            if kind.startswith("orbit") and a not in tg:
                if st != "unknown-body":
                    out.fail(fam + "-no-propagator", "a body that is the target of no segment has an orbit", inp, observed=st, expected="unknown-body")
                continue
            if st != "ok":
                out.fail(fam, f"conversion between two bodies of a synthetic kernel raised {st}", inp, observed=st, expected="ok")
                continue
            exp, _ = chain_direct(pairs, raw, a, b)
            tot = [sum(abs(raw[p][i]) * (1000.0 if i < 3 else 1000.0 / 86400.0) for p in pairs) for i in range(6)]
            if any(abs(vec[i] - exp[i]) > 1e-11 * tot[i] for i in range(6)):
                out.fail(fam, f"{kind}: body {a} relative to body {b} differs from the chained segments" + (" (a body of this kernel is the target of segments from two centres)" if two else ""),
                         inp, observed=vec, expected=exp)


def sun_moon_reference(e, jd):
    raw = raw_segments(e, jd)
    sun, _ = chain_direct(e["pairs"], raw, 10, 399)
    moon, _ = chain_direct(e["pairs"], raw, 301, 399)
    return sun, moon


def velocity_vs_derivative(body, d, own):
    """the velocity entries of `own` (a state of `body` at the date `d`, in the frame of its propagator) against the time
    derivative of the positions: symmetric differences of the positions at a step 64 times smaller than the class's, with
    the error bound of the theorem central_difference_error evaluated from numerical third differences over the stencil
    [-h, h] (h = the class's step).  -> (largest component error, bound, derivative)"""
    import numpy as np
    from beyond.dates import timedelta
    h = body.propagator._diff_step.total_seconds()

    def pos(dt):
        return np.asarray(body.propagate(d + timedelta(seconds=dt)), dtype=float)[:3]
    s = h / 64.0
    deriv = (pos(s) - pos(-s)) / (2 * s)
    # third derivative over the stencil [-h, h] from third differences at step h/2 on a few offsets
    k = h / 2
    third = 0.0
    for off in (-k / 2, 0.0, k / 2):
        t3 = (pos(off + 1.5 * k) - 3 * pos(off + 0.5 * k) + 3 * pos(off - 0.5 * k) - pos(off - 1.5 * k)) / k ** 3
        third = max(third, float(np.max(np.abs(t3))))
    bound = h * h / 6 * third * 2.0 + (s * s / 6 * third) + 1e-6 * float(np.linalg.norm(own[3:]))
    err = float(np.max(np.abs(np.asarray(own[3:], dtype=float) - deriv)))
    return err, bound, deriv


def oracle_tabulations(out, rng, n):
    """the velocity clause for every way a Sun / Moon state is obtained: every point of a tabulation (Orbit.iter, ephemeris,
    ephem, propagator.iter; start-stop-step or dates=; any step, any number of points, first and last point included) is at
    the requested date, has the position the body has at that date, and a velocity equal to the time derivative of the
    positions within the bound of the theorem at the class's step - whatever the step of the table."""
    import numpy as np
    from beyond.env.solarsystem import get_body
    env(True)
    worst = {}
    for i in range(n):
        spec = gen_tabulation(rng, i)
        name = spec["body"].lower()
        body = get_body(spec["body"])
        st, pts = tabulation_points(spec)
        out.count(key=json.dumps(spec, sort_keys=True), nontrivial=spec["n"] >= 3, kind="tabulation-" + name, route=spec["route"], points=spec["n"])
        if st != "ok":
            out.fail(f"series-tabulation-{st.split()[0]}-{name}-{spec['route']}", "a tabulation of the analytical body does not return one cartesian state per requested date",
                     spec, observed=pts, expected="one state per date, at that date")
            continue
        for k, d, vec, frame in pts:
            place = tab_place(k, len(pts))
            inp = dict(spec, point=k, date=str(d), place=place)
            fam = f"series-{name}-tabulation-{spec['route']}-{place}"
            single = np.asarray(body.propagate(d), dtype=float)
            if frame != body.propagator.FRAME:
                out.fail(fam + "-frame", "a tabulated state is not in the frame of the propagator", inp, observed=frame, expected=body.propagator.FRAME)
                break
            if not np.allclose(vec[:3], single[:3], rtol=1e-12, atol=1e-3):
                out.fail(fam + "-position", f"point {k} of a tabulation is not where the body is at that date", inp, observed=vec[:3], expected=[float(x) for x in single[:3]])
                break
            err, bound, deriv = velocity_vs_derivative(body, d, np.asarray(vec, dtype=float))
            rel = err / float(np.linalg.norm(deriv))
            worst[(name, place)] = max(worst.get((name, place), 0.0), rel)
            if not err <= bound:
                out.fail(fam + "-velocity", f"the velocity of point {k} of {len(pts)} of a tabulation of the {name} ({spec['route']}, step {spec['step_s']} s) is not the time derivative of the positions "
                         f"within h^2/6 sup|f'''| (off by {100 * rel:.3g} % of the speed)", inp, observed=vec[3:], expected=[float(x) for x in deriv], bound=bound)
                break
    out.notes.append("worst velocity error of tabulated points relative to the speed: " + json.dumps({f"{a}-{b}": float(f"{v:.3g}") for (a, b), v in sorted(worst.items())}))



def oracle_series(out, rng, n):
    """Sun / Moon analytical series against DE403 at the accuracies of the property statement, on a 2000-2020 grid;
    velocity against the derivative of the position (symmetric differences at a much smaller step, with the
    error bound of the theorem central_difference_error evaluated from numerical third differences)"""
    import numpy as np
    from beyond.env.solarsystem import get_body
    from beyond.dates import Date, timedelta
    e = env(True)
    sun = get_body("Sun")
    moon = get_body("Moon")
    lo, hi = 51544, 59214  # 2000-01-01 .. 2020-12-31 (mjd)
    grid = [lo + (hi - lo) * i / (n - 1) for i in range(n)] if n > 1 else [lo]
    worst = {"sun_deg": 0, "sun_dist": 0, "moon_deg": 0, "moon_dist": 0, "sun_vel": 0, "moon_vel": 0}
    for i, g in enumerate(grid):
        mjd = g if i % 2 == 0 else rng.uniform(lo, hi)
        day = int(mjd); sec = round((mjd - day) * 86400, 3)
        d = make_date(day, sec)
        jd = float(d.change_scale("TDB").jd)
        ref_sun, ref_moon = sun_moon_reference(e, jd)
        for name, body, ref, tol_deg, tol_dist in (("sun", sun, ref_sun, 0.02, 1e-4), ("moon", moon, ref_moon, 0.7, 5e-3)):
            orb = body.propagate(d)
            v = [float(x) for x in np.asarray(orb.copy(frame="EME2000"))]
            inp = {"body": name, "date_mjd_utc": [day, sec], "year": year_of(day)}
            out.count(key=(name, day, sec), kind=name + "-vs-de403")
            if not all(math.isfinite(x) for x in v):
                out.fail(f"series-{name}-non-finite", "non-finite state", inp, observed=v)
                continue
            a = ang_deg(v[:3], ref[:3]); dr = abs(norm(v[:3]) / norm(ref[:3]) - 1)
            worst[name + "_deg"] = max(worst[name + "_deg"], a); worst[name + "_dist"] = max(worst[name + "_dist"], dr)
            if a > tol_deg:
                out.fail(f"series-{name}-direction", f"{name} direction differs from DE403 by more than {tol_deg} deg", inp, observed=a, expected=tol_deg)
            if dr > tol_dist:
                out.fail(f"series-{name}-distance", f"{name} distance differs from DE403 by more than {tol_dist} (relative)", inp, observed=dr, expected=tol_dist)
            # velocity = time derivative of the position (own frame of the propagator)
            own = np.asarray(orb, dtype=float)
            err, bound, deriv = velocity_vs_derivative(body, d, own)
            worst[name + "_vel"] = max(worst[name + "_vel"], err / float(np.linalg.norm(deriv)))
            out.count(key=(name, "vel", day, sec), kind=name + "-velocity")
            if not err <= bound:
                out.fail(f"series-{name}-velocity", f"{name} velocity is not the time derivative of its position within h^2/6 sup|f'''|", inp,
                         observed=[float(x) for x in own[3:]], expected=[float(x) for x in deriv], bound=bound)
            ve = ang_deg(v[3:], ref[3:]); vr = abs(norm(v[3:]) / norm(ref[3:]) - 1)
            out.count(key=(name, "vel-de", day, sec), kind=name + "-velocity-vs-de403")
            if ve > 3 * tol_deg + 0.5 or vr > 0.05:
                out.fail(f"series-{name}-velocity-de403", f"{name} velocity is far from the DE403 velocity", inp, observed=v[3:], expected=ref[3:])
    out.notes.append("worst deviations of the analytical series from DE403 on this run: " + json.dumps({k: float(f"{v:.3g}") for k, v in worst.items()}))


def open_families():
    try:
        kf = json.load(open(os.path.join(core.VERIF, "known_findings.json")))["findings"]
    except Exception:  # noqa: BLE001
        return set()
    return {k["family"] for k in kf if k.get("property") == ID and k.get("status") == "open"}


def sweep(ctx, big):
    out = Outcome()
    oracle_spk(out, ctx.rng, 24 if big else 4, 150 if big else 10)
    oracle_synthetic(out, ctx.rng, 40 if big else 5)
    oracle_series(out, ctx.rng, 12000 if big else 300)
    oracle_tabulations(out, ctx.rng, 600 if big else 40)
    return out


def oracle(ctx, widened):
    """widened (something above is broken: look harder for a concrete failing input): the ordinary sweep first - it holds
    the exhaustive families, which discriminate cheaply - and the ten times larger one only when that found nothing new"""
    out = sweep(ctx, ctx.thorough)
    if widened and not ctx.thorough:
        known = open_families()
        if not any(f["family"] not in known for f in out.failures):
            more = sweep(ctx, True)
            more.notes = out.notes + more.notes
            return more
        out.notes.append("widened sweep skipped: the ordinary sweep already holds a concrete failing input")
    return out


def replay(f):
    ctx = core.Ctx(ID, "quick", 0)
    return oracle(ctx, False)


def _worker():
    req = json.loads(sys.stdin.read())
    res = {}
    if "dates" in req:
        res = collect_here(req["pck"], [tuple(d) for d in req["dates"]], req.get("eme", True), req.get("fake"), req.get("eop", False))
    if "hist" in req:
        hq = req["hist"]
        res["hist"] = histories_here(env(req["pck"], req.get("fake"), req.get("eop", False)), hq["seed"], hq["nrandom"], hq["nops"], [tuple(d) for d in hq["dates"]])
    sys.stdout.write("\n@@RESULT@@\n" + json.dumps(res))


if __name__ == "__main__":
    if "--worker" in sys.argv:
        _worker()
