"""C14 — covariance frame changes are pure, path-independent rotations."""
import ast
import hashlib
import math
import os

from harness import core, instantiate
from harness.core import Outcome, f2b, b2f

ID = "C14"
LEAN_TARGETS = ["BeyondVerif.Props.C14", "BeyondVerif.Props.C14Attach", "BeyondVerif.Props.C14Builtin", "BeyondVerif.Props.C14Heap", "BeyondVerif.Witness.C14"]
THEOREMS = [
    "BeyondVerif.C14.hop_congruence",
    "BeyondVerif.C14.symm_preserved",
    "BeyondVerif.C14.psd_preserved",
    "BeyondVerif.C14.pos_block_congruence",
    "BeyondVerif.C14.pos_block_spectrum",
    "BeyondVerif.C14.run_tag",
    "BeyondVerif.C14.path_characterised",
    "BeyondVerif.C14.path_independent",
    "BeyondVerif.C14.seq_eq_single_hop",
    "BeyondVerif.C14.back_restores",
    "BeyondVerif.C14.cov_follows_state",
    "BeyondVerif.C14.copy_transparent",
    "BeyondVerif.C14.svCopy_follows",
    "BeyondVerif.C14.local_orthonormal",
    "BeyondVerif.C14.local_equivariant",
    "BeyondVerif.C14.rot_cross",
    "BeyondVerif.C14.rot_norm",
    "BeyondVerif.C14.nonrotating_frames",
    "BeyondVerif.C14.setter_as_translated",
    "BeyondVerif.C14.writes_as_modelled",
    # the matrices of the built-in tree (C02's model) and to_local (templates/Local.tpl) meet the hypotheses
    "BeyondVerif.C14.t6Mat_mul",
    "BeyondVerif.C14.t6Mat_mulVec",
    "BeyondVerif.C14.realLocal_orth",
    "BeyondVerif.C14.realLocal_posShape",
    "BeyondVerif.C14.realLocal_equivariant",
    "BeyondVerif.C14.builtin_edgesOK",
    "BeyondVerif.C14.pathsOK_true",
    "BeyondVerif.C14.bConv_total",
    "BeyondVerif.C14.bConv_comp",
    "BeyondVerif.C14.bConv_rot",
    "BeyondVerif.C14.names_agree",
    "BeyondVerif.C14.builtin_laws",
    "BeyondVerif.C14.builtin_locOrth",
    "BeyondVerif.C14.builtin_posShape",
    "BeyondVerif.C14.builtin_apply",
    "BeyondVerif.C14.builtin_path_independent",
    "BeyondVerif.C14.builtin_back_restores",
    "BeyondVerif.C14.builtin_cov_follows_state",
    "BeyondVerif.C14.builtin_pos_block_spectrum_partial",
    "BeyondVerif.C14.builtin_hop_to_local",
    "BeyondVerif.C14.local_after_rotating_blocks",
    "BeyondVerif.C14.direct_local_wrong_of_rate",
    "BeyondVerif.C14.builtin_locEquiv",
    # sv.cov = c (attached-later covariances), constructor argument
    "BeyondVerif.C14.run_orbCur",
    "BeyondVerif.C14.attach_same_state",
    "BeyondVerif.C14.attach_inv",
    "BeyondVerif.C14.attach_characterised",
    "BeyondVerif.C14.attach_frame_targets",
    "BeyondVerif.C14.attach_local",
    "BeyondVerif.C14.attach_home_local",
    "BeyondVerif.C14.attach_follows_state",
    "BeyondVerif.C14.attach_path_independent",
    "BeyondVerif.C14.attachOld_characterised",
    "BeyondVerif.C14.ctor_supported_iff",
    "BeyondVerif.C14.ctor_obj_first_hop",
    "BeyondVerif.CovHeap.attach_self",
    "BeyondVerif.CovHeap.hop_other",
    "BeyondVerif.CovHeap.hop_self",
    "BeyondVerif.CovHeap.hops_project",
    "BeyondVerif.CovHeap.wf_hop",
    "BeyondVerif.CovHeap.newCov_spec",
    "BeyondVerif.CovHeap.derive_spec",
    "BeyondVerif.CovHeap.mkView_spec",
    "BeyondVerif.CovHeap.copyCov_spec",
    "BeyondVerif.CovHeap.pickle_spec",
    "BeyondVerif.CovHeap.write_other",
    "BeyondVerif.CovHeap.attach_other",
    "BeyondVerif.CovHeap.svHop_other",
    "BeyondVerif.CovHeap.svHop_atomic",
    "BeyondVerif.CovHeap.svSet_view",
    "BeyondVerif.CovHeap.hop_svSet",
    "BeyondVerif.CovHeap.svSet_invisible",
    "BeyondVerif.CovHeap.step_wf",
    "BeyondVerif.CovHeap.step_other",
    "BeyondVerif.CovHeap.step_allSep",
    "BeyondVerif.C14.heap_path_independent",
    "BeyondVerif.C14.heap_init",
    "BeyondVerif.C14.two_states_same_epoch",
    "BeyondVerif.C14.derived_independent",
    "BeyondVerif.C14.derived_path_independent",
    "BeyondVerif.C14W.old_setter_local_after_reframe_differs",
    "BeyondVerif.C14W.old_setter_frame_after_local_recovers",
    "BeyondVerif.C14W.current_model_path_independent",
    "BeyondVerif.C14W.old_attach_reframed_local_differs",
    "BeyondVerif.C14W.current_attach_path_independent",
    "BeyondVerif.C14W.memo_keyed_without_state_confuses_states",
    "BeyondVerif.C14W.shared_dict_relabels_source",
    "BeyondVerif.C14W.laws",
    "BeyondVerif.C14W.loc_orth",
    "BeyondVerif.C14W.loc_equivariant",
]
LEVEL_TEXT = ("Lean theorems about a state-machine model of Cov (tag, _orb_frame, private state copy and the frame it is expressed in, matrix) that is "
              "generic in the matrix type: over real matrices every hop is a congruence M C M^T (symmetry, positive semi-definiteness and the characteristic polynomial "
              "of the position block are preserved for every sequence); for every sequence of targets the bookkeeping never moves and the final matrix is Mt C0 Mt^T "
              "with Mt determined by the last target and the original state only (path_independent, full statement; seq_eq_single_hop); back conversion restores; "
              "the covariance follows its state; Cov.copy is transparent. "
              "The hypotheses on the matrices are DISCHARGED for the built-in frames (Props/C14Builtin.lean): the conversions are C02's model of Orientation.convert_to over the "
              "orientation tree regenerated from orient.py (provider matrices translated from the Python source, rate blocks of PEF<->TOD and TIRF<->CIRF included), read as "
              "Mathlib 6x6 matrices by a monoid homomorphism (t6Mat_mul); composition and identity follow from C02's convert_compose with its EdgesOK hypothesis proved for the "
              "built-in providers and totality decided on the regenerated tree (builtin_laws), the block shape from C02's provider_isRotation (builtin_posShape, all frames but G50), "
              "orthogonality of to_local at every state with non-zero angular momentum from local_orthonormal through a rows-as-lists <-> Matrix bridge (realLocal_orth, builtin_locOrth): "
              "builtin_path_independent, builtin_back_restores, builtin_cov_follows_state hold for every date, state, matrix and sequence through inertial AND Earth-fixed frames with "
              "no hypothesis but X^2+Y^2<1 of the CIO series and a non-degenerate state; from any current frame the hop to QSW/TNW applies to_local(x0) M(f->F0) whose velocity<-position "
              "block carries the rate of an Earth-fixed frame (builtin_hop_to_local, local_after_rotating_blocks) and no block-diagonal matrix can stand for it (direct_local_wrong_of_rate); "
              "to_local is equivariant under rate-free rotations in matrix form (realLocal_equivariant, builtin_locEquiv). "
              "Attached-later covariances (sv.cov = c, Props/C14Attach.lean; the Cov.orb setter re-seats `_orb_frame` with the private copy since eca9727): after the attachment, whatever frame g the state is "
              "expressed in, the covariance is the covariance M(F0->g) C0 M^T of a state of frame g (attach_inv) and every later sequence ends as (Mt_g M) C0 (Mt_g M)^T (attach_characterised): regular targets "
              "and 'follows its state' at full strength (attach_frame_targets, attach_follows_state), QSW/TNW = to_local(x') M(F0->g) (attach_local), and for the state the covariance was built for, "
              "expressed in any frame along which to_local is equivariant (every rate-free rotation: builtin_locEquiv), full path independence for every target (attach_path_independent; before the fix only a "
              "_partial held: attachOld_characterised + regression witness old_attach_reframed_local_differs, finding C14-attach-stale-orb-frame fixed). The same model text, instantiated with floats, is compared with the real Cov on random histories (cov hops, state hops, state copies, "
              "re-attachments) fed with the real conversion matrices. "
              "Several objects in one process: a heap model (Model/CovHeap.lean) of the cells Cov objects are made of - array memory, `_data` dict, private state copy, "
              "`_orb_frame` - with the cell sharing that Cov.__new__, Cov.copy, __array_finalize__ (k * c, a + b, views, copy.copy: a dict of its own, the template's `_orb_frame`), pickling and sv.cov = c produce; no memo. "
              "Proved for every matrix type: an operation on one object leaves every object sharing neither memory nor dict unchanged (hop_other, write_other, attach_other, "
              "svHop_other; step_other for every operation of the model, step_allSep: pairwise separation is invariant in a process that takes no numpy views), new objects share nothing with old ones except a view its base's memory (newCov/copyCov/pickle/derive/mkView_spec), "
              "sv.cov = c seen through c is the single-object attach (attach_self), and an interleaved run looked at "
              "through one object is the single-object run of the targets addressed to it (hops_project); over real matrices: each covariance ends as Mt C0 Mt^T for its OWN "
              "state, matrix and last target whatever happens to the others (heap_path_independent, two_states_same_epoch, derived_independent; derived_path_independent: e = k * c ends as k Mt C0 Mt^T for every target). "
              "The state object the caller keeps is a cell of its own, distinct from the private copy a covariance holds: an in-place write to it (Heap.svSet: sv[i] = v, sv[:] = ..., sv *= k, sv.form = ..., sv.date = ...) "
              "is observed by no covariance (svSet_view), commutes with every frame change (hop_svSet), and after any later sequence of frame changes every covariance is observed exactly as if the write had not "
              "happened (svSet_invisible: a read after an in-place write to the state returns what it returns without the write). The heap model runs against "
              "the real classes on random interleaved operation sequences over several states sharing date and frame, in-place writes to the states included; the comparison includes WHICH object each covariance "
              "holds as its reference state (the first covariance holding the same private copy; never one of the caller's state objects).")
LEVEL_NOTE = ("numpy views share memory with their base by definition (modelled, excluded from the separation theorems by hypothesis Sep); arrays made by numpy carry `_orb_frame` "
              "since c5f38c8 and convert like any covariance (derived_path_independent); the state machine of Cov is hand-written and tied by correspondence (the conversion matrices it is "
              "proved about are C02's translated model, tied to the code by C02's correspondence; the driver is fed the real matrices); through G50 the position-block spectrum is preserved to "
              "1e-15 only (constant matrix given in decimals: builtin_pos_block_spectrum_partial excludes G50); R -> double gap by tolerance only; a Cov constructed with the name of a frame "
              "is outside the model, explicitly (CtorArg.name, ctor_supported_iff; two open findings); Lean kernel + propext/Classical.choice/Quot.sound")
TECHNIQUE = "Lean 4 proof (invariant over all hop sequences, Mathlib matrices; hypotheses discharged from C02's translated model of the conversions and the list model of to_local) + kernel-decided witnesses + differential correspondence of the same generic model on floats"
TRUSTED = [
    "lean/BeyondVerif/Model/Cov.lean: hand-written model of Cov.frame setter / Cov.copy / StateVector.frame setter / StateVector.cov setter (attach), generic in the matrix type; tied to beyond/orbits/cov.py and statevector.py by the correspondence run (histories of cov hops, state hops, state copies, re-attachments; tags exact, matrices rtol 1e-9)",
    "lean/BeyondVerif/Model/CovHeap.lean: hand-written heap model (which cells Cov.__new__, Cov.copy, __array_finalize__, __reduce__/__setstate__, StateVector.cov setter allocate or share; that a covariance never holds the caller's state object; when the setter raises AttributeError); tied to the code by the correspondence op `heap` (all bookkeeping of all objects exact after every operation, identity of the private copy each object holds exact, values rtol 1e-9)",
    "lean/templates/Local.tpl: hand-written to_qsw / to_tnw / expand, tied to beyond/frames/local.py by the correspondence op `tolocal`; the theorems are about its R instantiation read as a Mathlib matrix (Lemmas/CovBridge.lean: listMat, realLocal)",
    "C02's model of Orientation.convert_to (Model/FramesR.lean from templates/Frames.tpl, Generated/FrameFormulasR.lean translated from the Python source, Generated/Graphs.lean): the conversion matrices builtin_* are about; tied to the code by C02's own correspondence, not by C14's (C14's driver is handed the real matrices)",
    "Generated/Frames.lean: registry of built-in frames (name -> canonical name) and the orientation links with their rate flag, read from the live modules / the AST of orient.py each run; names_agree checks it against the copy C20 generates",
    "numpy double arithmetic vs R: tolerance 1e-9 relative to the covariance scale",
]
ASSUMPTIONS = [
    "X^2 + Y^2 < 1 for the CIO series at the date (CioOK; |X|, |Y| < 1e-3 rad in 1973-2050): C02's condition for the CIRF<->GCRF matrix to be a rotation",
    "the state has non-zero angular momentum (NonDeg: to_local is then an orthogonal matrix, realLocal_orth)",
    "the state re-framing is x -> M x (same centre, Earth) for all built-in frames",
    "theorems are over R; the implementation computes in IEEE doubles",
]
NOT_COVERED = [
    "numpy views of a covariance (c.T, c[:], c.view(), c.reshape) look at the memory of their base: a frame change through the view rewrites the values of the base while the base keeps its label (numpy semantics; the heap model and the correspondence reproduce it, the separation theorems exclude it by hypothesis Sep, the oracle families do not use views)",
    "3x3 / 1-d slices of a covariance and non-6x6 results (c[:3, :3], c.sum()) keep a frame label but are not covariances of the state; not modelled",
    "which axis is which in to_local (q along position, t along velocity, w along angular momentum) beyond orthonormality / equivariance is checked by the oracle against an independent implementation only",
    "frames created at run time (orbit2frame, ground stations, JPL bodies: different centres) and the curvilinear Hill frame",
    "covariances attached to a state given in a rotating frame (outside the property's quantifier): modelled and run in the correspondence, no theorem says their QSW/TNW axes are the inertial ones (they are not)",
    "EOP-dependent content of the conversion matrices (C02)",
    "position-block spectrum through G50 (constant decimal matrix, orthonormal to 1e-15): oracle at 1e-9 only",
]
OPEN = [
    "a Cov constructed with the *name* of a frame (documented `frame (str)`, used by io/ccsds/cov.py: supported according to the docstring) is outside the model - stated in the model (CtorArg.name, ctor_supported_iff): the real setter raises AttributeError and the covariance does not follow its state (known findings C14-frame-name-tag-unconvertible / -not-following, open; proposed_fixes/C14-cov-frame-name-not-resolved.diff not applied: behaviour change at CCSDS load); oracle only",
    "attach_path_independent takes equivariance of to_local along F0 -> g as a hypothesis (hEq); it is discharged for every rate-free rotation (builtin_locEquiv) but 'the conversion between two non-rotating built-in frames is a rate-free rotation' (zero velocity<-position block of bConv between NONROT frames) is not proved from C02's model; the oracle family attached-later checks it numerically",
    "the model identifies a frame with its name; Frame objects compare by identity and unpickling rebuilds them, so an unpickled covariance attached on its own to a state does not follow it (known finding C14-unpickled-frame-identity, open; proposed_fixes/C14-frame-identity-after-pickle.diff); the heap correspondence keeps these two situations out of its sequences, the oracle family `unpickled` reports them",
    "the Cov state machine itself (Model/Cov.lean, Model/CovHeap.lean) is hand-written, not translated from the AST of cov.py: a changed branch of the setter is noticed by the correspondence, not by a regenerated Lean term",
]
RULE = ("heap correspondence: 2-4 states (mostly sharing date and frame, sometimes equal), a covariance per state built from every kind of `values` (lists of ints/floats, int32/int64/"
        "float32/float64 arrays, np.matrix, Fortran/strided arrays, a Cov), then 6-12 random operations on random objects: frame assignment, state frame assignment, in-place writes to a state (sv.form = cartesian/keplerian/spherical/cylindrical, sv[i] = v, sv[:] = x, sv *= k, sv.date = d), k * c, c + d, "
        "copy.copy/deepcopy/np.array(subok)/astype, views (c.T, c[:], ...), in-place *=, Cov.copy(frame), pickle round trip, Cov(sv, cov), sv.cov = c; after EVERY operation the tag, "
        "`_orb_frame`, private copy (its values AND which object it is) and values of EVERY object and the frame of every state are compared with the compiled Lean heap model (bookkeeping and error kind exact, values rtol 1e-9). "
        "oracle, in this order (a widened sweep stops at the first failing input that is not a listed finding): directed = every frame that can be visited x QSW/TNW x (covariance alone / following its state / "
        "Cov.copy(frame), also QSW<->TNW) then back, from 2 random states; attached-later = a covariance built for a state, attached with sv.cov = c after sv.frame = g / to sv.copy(frame=g) / to a fresh "
        "state object / re-attached / to another state, then 1-6 cov and state frame changes aimed at the frame of the state and at QSW/TNW, against R C R^T from independent references; "
        "standalone-state-mutated = a covariance made for a state given in any of the 10 forms through each of 8 routes (Cov(sv, ...), Cov(sv, cov), cov.orb = sv, Cov.copy, pickle, attached then detached, 1.0 * c, attached), "
        "then the caller's state object is modified IN PLACE (sv.form, sv.frame, sv[i] = v, sv[:] = x, sv *= k, sv.date; one kind or a mix, also between two conversions) and the covariance converted to QSW/TNW and regular frames: "
        "R C R^T for the position, velocity and date it was made for, and cov.orb still that cartesian state; "
        "interleaved hops of 2-6 covariances (built by Cov(), attach, copy, pickle, Cov(sv, cov), sv.copy) against R C R^T of their own state from independent "
        "QSW/TNW/Jacobian references, every other object bitwise unchanged after each hop; arrays derived by 11 numpy operations vs their source in both orders; the constructor for 14 kinds of values. "
        "correspondence: random histories (length 1-7) of cov hops / state hops / state copies / re-attachments (c = sv.cov; sv.cov = c after the state moved) over the 10 built-in frames + QSW/TNW from each non-rotating start frame, "
        "the generator aiming at the frame the state is in; random orbits and PSD matrices, real conversion matrices handed to the compiled Lean model; bookkeeping fields exact, matrices rtol 1e-9; plus to_local alone; "
        "non-trivial = at least one hop changes the tag; distinct = distinct request line. "
        "oracle: sequence vs single hop, symmetry, PSD, position-block eigenvalues (1e-9), back conversion, independent QSW/TNW/Jacobian references, cov follows state, composition laws of the real matrices")

NONROT = ["EME2000", "MOD", "TOD", "TEME", "GCRF", "CIRF", "G50"]
FRAMES = ["EME2000", "MOD", "TOD", "TEME", "PEF", "ITRF", "TIRF", "CIRF", "GCRF", "G50"]
LOCAL = ["QSW", "TNW"]
MU = 3.986004418e14


ORIENT_PY = os.path.join(core.REPO, "beyond", "frames", "orient.py")


def orient_links():
    """orientation links `A + B + C` of orient.py (module level) with the flag 'this link carries a rate'
    (second element of the tuple returned by `A_to_B` / `B_to_A` is not None), from the AST"""
    tree = ast.parse(open(ORIENT_PY).read())
    rate = {}
    for node in ast.walk(tree):
        if isinstance(node, ast.ClassDef) and node.name == "Orientation":
            for fn in node.body:
                if isinstance(fn, ast.FunctionDef) and "_to_" in fn.name:
                    a, b = fn.name.split("_to_")
                    rets = [r for r in ast.walk(fn) if isinstance(r, ast.Return)]
                    if len(rets) != 1 or not isinstance(rets[0].value, ast.Tuple) or len(rets[0].value.elts) != 2:
                        raise RuntimeError(f"orient.py: {fn.name} does not end in `return m, rate`")
                    second = rets[0].value.elts[1]
                    rate[(a, b)] = not (isinstance(second, ast.Constant) and second.value is None)
    links = []

    def chain(e):
        if isinstance(e, ast.BinOp) and isinstance(e.op, ast.Add):
            return chain(e.left) + chain(e.right)
        if isinstance(e, ast.Name):
            return [e.id]
        raise RuntimeError("orient.py: unexpected link expression")
    for st in tree.body:
        if isinstance(st, ast.Expr) and isinstance(st.value, ast.BinOp) and isinstance(st.value.op, ast.Add):
            names = chain(st.value)
            for a, b in zip(names, names[1:]):
                if (a, b) in rate:
                    links.append((a, b, rate[(a, b)]))
                elif (b, a) in rate:
                    links.append((a, b, rate[(b, a)]))
                else:
                    raise RuntimeError(f"orient.py: link {a}-{b} has no conversion method")
    return links


def registry():
    """name -> canonical name for every Earth-centred plain Frame registered at import"""
    from beyond.frames import frames, center
    out = []
    for k, v in frames.dynamic.items():
        if type(v) is frames.Frame and v.center is center.Earth and isinstance(v.orientation, frames.orient.Orientation) \
                and type(v.orientation) is frames.orient.Orientation:
            out.append((k, v.name))
    return out


def extract(ctx):
    reg = registry()
    links = orient_links()
    names = []
    for a, b, _ in links:
        for n in (a, b):
            if n not in names:
                names.append(n)
    canon = sorted({c for _, c in reg})
    if sorted(names) != canon:
        raise RuntimeError(f"orientation graph {sorted(names)} and frame registry {canon} name different frames")
    if canon != sorted(FRAMES):
        raise RuntimeError(f"built-in frames changed: {canon}")
    lines = ["/- GENERATED by harness/props/C14.py from beyond/frames/frames.py (live registry) and beyond/frames/orient.py (AST). -/",
             "namespace BeyondVerif.Generated",
             "/-- `get_frame`: registered name → name of the Frame object (Earth-centred built-in frames) -/",
             "def frameAlias : List (String × String) := [" + ", ".join(f'("{k}", "{v}")' for k, v in reg) + "]",
             "/-- orientation names in order of first appearance in the links of orient.py -/",
             "def covOrientNames : List String := [" + ", ".join(f'"{n}"' for n in names) + "]",
             "/-- links `a + b` of orient.py as indices into `covOrientNames`, with the flag: the conversion carries a rotation rate -/",
             "def covOrientLinks : List (Nat × Nat × Bool) := [" + ", ".join(f"({names.index(a)}, {names.index(b)}, {'true' if r else 'false'})" for a, b, r in links) + "]",
             "/-- indices of the frames the property calls non-rotating (harness list NONROT) -/",
             "def claimedNonRotating : List Nat := [" + ", ".join(str(names.index(n)) for n in NONROT) + "]",
             f"def itrfIndex : Nat := {names.index('ITRF')}",
             f"def g50Index : Nat := {names.index('G50')}",
             "end BeyondVerif.Generated"]
    ch = ["Generated/Frames.lean"] if core.write_if_changed(os.path.join(core.LEAN, "BeyondVerif", "Generated", "Frames.lean"), "\n".join(lines) + "\n") else []
    return ch + extract_setters() + instantiate.main()


# ---------------------------------------------------------------- the setters, translated from the AST of cov.py / statevector.py

COV_PY = os.path.join(core.REPO, "beyond", "orbits", "cov.py")
SV_PY = os.path.join(core.REPO, "beyond", "orbits", "statevector.py")


class Refuse(RuntimeError):
    """the source has a shape the translator does not know: the model is not regenerated, the check reports it"""


def _method(tree, cls, name, setter=False):
    for c in tree.body:
        if isinstance(c, ast.ClassDef) and c.name == cls:
            for fn in c.body:
                if isinstance(fn, ast.FunctionDef) and fn.name == name:
                    decs = [ast.unparse(d) for d in fn.decorator_list]
                    if setter == (f"{name}.setter" in decs):
                        return fn
    raise Refuse(f"{cls}.{name}{' setter' if setter else ''} not found")


def _body(fn):
    """statements of a function without its docstring"""
    b = list(fn.body)
    if b and isinstance(b[0], ast.Expr) and isinstance(b[0].value, ast.Constant) and isinstance(b[0].value.value, str):
        b = b[1:]
    return b


class SetterTranslator:
    """`Cov.frame` setter -> Lean text of `setFrameGen`.  Grammar accepted (anything else: Refuse):
        _local = ("TNW", "QSW")
        if isinstance(frame, str) and frame not in _local: frame = get_frame(frame)
        if frame == self.frame: return
        if <X> in LOCAL: v = e  elif <A> != <B>: v = e  else: v = e          (for v = m1 with X = self.frame, v = m2 with X = frame)
        M = m2 @ m1 ; cov = M @ np.array(self) @ M.T ; self.view(np.ndarray)[:] = cov ; self._data["frame"] = frame
    expressions: names bound before, `a @ b`, `a.T`, np.array(self), np.identity(6), to_local(<tag>, self.orb),
    <F>.orientation.convert_to(self.orb.date, <G>.orientation) with F, G among self.frame, self._orb_frame, frame"""

    LOCALS = {"TNW", "QSW"}

    def __init__(self):
        self.local_name = None

    def is_local_test(self, e):
        """`<X> in ("TNW", "QSW")` or `<X> in _local` -> source text of X"""
        if isinstance(e, ast.Compare) and len(e.ops) == 1 and isinstance(e.ops[0], ast.In):
            c = e.comparators[0]
            ok = (isinstance(c, ast.Name) and c.id == self.local_name) or \
                 (isinstance(c, ast.Tuple) and {getattr(x, "value", None) for x in c.elts} == self.LOCALS and len(c.elts) == 2)
            if ok:
                return ast.unparse(e.left)
        return None

    def frame_ref(self, e, env):
        t = ast.unparse(e)
        if t in env:
            return env[t]
        raise Refuse(f"Cov.frame setter: `{t}` is not a frame the translator knows here")

    def expr(self, e, env, lets):
        if isinstance(e, ast.Name) and e.id in lets:
            return e.id
        if isinstance(e, ast.BinOp) and isinstance(e.op, ast.MatMult):
            return f"(E.mul {self.expr(e.left, env, lets)} {self.expr(e.right, env, lets)})"
        if isinstance(e, ast.Attribute) and e.attr == "T":
            return f"(E.tr {self.expr(e.value, env, lets)})"
        t = ast.unparse(e)
        if t == "np.array(self)":
            return "s.mat"
        if t == "np.identity(6)":
            return "E.one"
        if isinstance(e, ast.Call):
            f = ast.unparse(e.func)
            if f == "to_local" and len(e.args) == 2 and not e.keywords and ast.unparse(e.args[1]) == "self.orb":
                k = ast.unparse(e.args[0]) + ":loc"
                if k not in env:
                    raise Refuse(f"Cov.frame setter: to_local({ast.unparse(e.args[0])}, ...) outside the branch where it is QSW/TNW")
                return f"(E.toLocal {env[k]} s.orb)"
            if f.endswith(".orientation.convert_to") and len(e.args) == 2 and not e.keywords and ast.unparse(e.args[0]) == "self.orb.date":
                a = self.frame_ref(e.func.value.value, env)
                b_ = e.args[1]
                if not (isinstance(b_, ast.Attribute) and b_.attr == "orientation"):
                    raise Refuse("Cov.frame setter: convert_to target is not `<frame>.orientation`")
                return f"(E.conv {a} {self.frame_ref(b_.value, env)})"
        raise Refuse(f"Cov.frame setter: expression `{t}` is outside the translator's grammar")

    def cond(self, e, env):
        if isinstance(e, ast.Compare) and len(e.ops) == 1 and isinstance(e.ops[0], ast.NotEq):
            return f"{self.frame_ref(e.left, env)} ≠ {self.frame_ref(e.comparators[0], env)}"
        raise Refuse(f"Cov.frame setter: condition `{ast.unparse(e)}` is outside the translator's grammar")

    def branch3(self, st, var, subject, scrut, locvar, framevar, lets):
        """if subject in LOCAL: var = e1 / elif c: var = e2 / else: var = e3  ->  Lean match on `scrut`"""
        def single(body):
            if len(body) != 1 or not isinstance(body[0], ast.Assign) or ast.unparse(body[0].targets[0]) != var:
                raise Refuse(f"Cov.frame setter: branch of `{var}` is not a single assignment to it")
            return body[0].value
        if not isinstance(st, ast.If) or self.is_local_test(st.test) != subject:
            raise Refuse(f"Cov.frame setter: expected `if {subject} in (\"TNW\", \"QSW\")` defining {var}")
        if len(st.orelse) != 1 or not isinstance(st.orelse[0], ast.If) or not st.orelse[0].orelse:
            raise Refuse(f"Cov.frame setter: expected if / elif / else defining {var}")
        el = st.orelse[0]
        base = {"self._orb_frame": "s.orbFrame"}
        e1 = self.expr(single(st.body), dict(base, **{subject + ":loc": locvar}), lets)
        fenv = dict(base, **{subject: framevar})
        c2 = self.cond(el.test, fenv)
        e2 = self.expr(single(el.body), fenv, lets)
        e3 = self.expr(single(el.orelse), fenv, lets)
        return (f"    match {scrut} with\n    | .loc {locvar} => {e1}\n    | .frame {framevar} => if {c2} then {e2} else {e3}")

    def translate(self, fn):
        b = _body(fn)
        if [a.arg for a in fn.args.args] != ["self", "frame"]:
            raise Refuse("Cov.frame setter: unexpected signature")
        i = 0
        if isinstance(b[i], ast.Assign) and isinstance(b[i].value, ast.Tuple) and {getattr(x, "value", None) for x in b[i].value.elts} == self.LOCALS:
            self.local_name = ast.unparse(b[i].targets[0])
            i += 1
        # resolution of a name
        st = b[i]
        if not (isinstance(st, ast.If) and not st.orelse and ast.unparse(st.body[0]) == "frame = get_frame(frame)" and len(st.body) == 1
                and isinstance(st.test, ast.BoolOp) and isinstance(st.test.op, ast.And) and len(st.test.values) == 2
                and ast.unparse(st.test.values[0]) == "isinstance(frame, str)"
                and isinstance(st.test.values[1], ast.Compare) and isinstance(st.test.values[1].ops[0], ast.NotIn)
                and ast.unparse(st.test.values[1].left) == "frame"):
            raise Refuse("Cov.frame setter: the resolution `if isinstance(frame, str) and frame not in _local: frame = get_frame(frame)` changed")
        i += 1
        st = b[i]
        if not (isinstance(st, ast.If) and not st.orelse and ast.unparse(st.test) == "frame == self.frame" and len(st.body) == 1
                and isinstance(st.body[0], ast.Return) and st.body[0].value is None):
            raise Refuse("Cov.frame setter: the guard `if frame == self.frame: return` changed")
        i += 1
        rest = b[i:]
        if len(rest) != 6:
            raise Refuse(f"Cov.frame setter: {len(rest)} statements after the guard, 6 expected (m1, m2, M, cov, write values, write label)")
        m1 = self.branch3(rest[0], "m1", "self.frame", "s.tag", "k", "f", set())
        m2 = self.branch3(rest[1], "m2", "frame", "t", "k", "g", set())
        lets = {"m1", "m2"}
        out = []
        for st, var in ((rest[2], "M"), (rest[3], "cov")):
            if not (isinstance(st, ast.Assign) and ast.unparse(st.targets[0]) == var):
                raise Refuse(f"Cov.frame setter: expected an assignment to {var}")
            out.append((var, self.expr(st.value, {}, lets)))
            lets.add(var)
        if ast.unparse(rest[4]) != "self.view(np.ndarray)[:] = cov":
            raise Refuse("Cov.frame setter: the values are no longer written with `self.view(np.ndarray)[:] = cov`")
        if ast.unparse(rest[5]) != "self._data['frame'] = frame":
            raise Refuse("Cov.frame setter: the label is no longer written with `self._data[\"frame\"] = frame` as last statement")
        return (m1, m2, out)


def effects(fn, on="self"):
    """attributes / items of `self` a method writes, in order (source text of the assignment targets), calls that are statements"""
    out = []
    for st in ast.walk(fn):
        if isinstance(st, (ast.Assign, ast.AugAssign)):
            for t in (st.targets if isinstance(st, ast.Assign) else [st.target]):
                txt = ast.unparse(t)
                if txt.startswith(on + ".") or txt.startswith(on + "["):
                    out.append((st.lineno, txt))
        if isinstance(st, ast.Delete):
            for t in st.targets:
                out.append((st.lineno, "del " + ast.unparse(t)))
    return [t for _, t in sorted(out)]


def extract_setters():
    """Generated/CovSetter.lean: the `Cov.frame` setter translated from the AST, and the order of writes of the methods the
    model of `sv.cov = c` / `Cov(...)` rests on"""
    ctree = ast.parse(open(COV_PY).read())
    stree = ast.parse(open(SV_PY).read())
    m1, m2, lets = SetterTranslator().translate(_method(ctree, "Cov", "frame", setter=True))
    new = effects(_method(ctree, "Cov", "__new__"), on="obj")
    orb = effects(_method(ctree, "Cov", "orb", setter=True))
    svcov = effects(_method(stree, "StateVector", "cov", setter=True))
    copy_src = [ast.unparse(x) for x in _body(_method(ctree, "Cov", "copy"))]
    fin = effects(_method(ctree, "Cov", "__array_finalize__"))
    q = lambda xs: "[" + ", ".join('"' + x.replace('\\', '\\\\').replace('"', '\\"').replace("\n", "\\n") + '"' for x in xs) + "]"
    lines = ["import BeyondVerif.Model.Cov",
             "/- GENERATED by harness/props/C14.py (extract_setters) from the AST of beyond/orbits/cov.py and beyond/orbits/statevector.py - do not edit.",
             "`setFrameGen` is the `Cov.frame` setter statement by statement (guard, m1, m2, M, cov, the two writes); Props/C14.lean proves it equal to the",
             "hand-written `Cov.setFrame` the theorems and the driver use (`setter_as_translated`), and pins the write lists (`writes_as_modelled`). -/",
             "namespace BeyondVerif.Generated.CovSetter",
             "open BeyondVerif.Cov",
             "set_option linter.unusedVariables false",
             "",
             "/-- `Cov.frame` setter; `t` is the target after `get_frame` resolved a name -/",
             "def setFrameGen {F Mat Vec : Type} [DecidableEq F] (E : Env F Mat Vec) (s : St F Mat Vec) (t : Tag F) : St F Mat Vec :=",
             "  if t = s.tag then s else",
             "  let m1 :=", m1,
             "  let m2 :=", m2]
    for var, e in lets:
        lines.append(f"  let {var} := {e}")
    lines += ["  { s with mat := cov, tag := t }",
              "",
              "/-- attributes `Cov.__new__` sets on the new object, in order -/",
              f"def newWrites : List String := {q(new)}",
              "/-- what the `Cov.orb` setter writes (reached by `obj.orb = orb` in `__new__` and by `sv.cov = c`) -/",
              f"def orbSetterWrites : List String := {q(orb)}",
              "/-- what the `StateVector.cov` setter writes -/",
              f"def svCovSetterWrites : List String := {q(svcov)}",
              "/-- what `Cov.__array_finalize__` writes -/",
              f"def finalizeWrites : List String := {q(fin)}",
              "/-- the statements of `Cov.copy` -/",
              f"def copyBody : List String := {q(copy_src)}",
              "end BeyondVerif.Generated.CovSetter"]
    path = os.path.join(core.LEAN, "BeyondVerif", "Generated", "CovSetter.lean")
    return ["Generated/CovSetter.lean"] if core.write_if_changed(path, "\n".join(lines) + "\n") else []


# ---------------------------------------------------------------- generators

def gen_state(rng):
    """cartesian position/velocity of a bound or slightly hyperbolic orbit, never with p x v = 0"""
    r = rng.choice([6.7e6, 7.1e6, 1.2e7, 2.66e7, 4.2164e7]) * rng.uniform(0.95, 1.05)
    u = [rng.gauss(0, 1) for _ in range(3)]
    n = math.sqrt(sum(c * c for c in u))
    p = [r * c / n for c in u]
    w = [rng.gauss(0, 1) for _ in range(3)]
    # remove most of the radial part so the flight-path angle stays moderate
    d = sum(a * b for a, b in zip(w, u)) / (n * n)
    k = rng.choice([0.0, 0.5, 1.0, 1.0])
    w = [a - k * d * b for a, b in zip(w, u)]
    nw = math.sqrt(sum(c * c for c in w))
    v = math.sqrt(MU / r) * rng.uniform(0.7, 1.3)
    return p + [v * c / nw for c in w]


def gen_cov(rng):
    """symmetric PSD 6x6, realistic scales, sometimes rank deficient"""
    import numpy as np
    sp = 10 ** rng.uniform(-1, 4)
    sv = 10 ** rng.uniform(-4, 1)
    rank = rng.choice([6, 6, 6, 6, 5, 3, 1])
    a = np.array([[rng.gauss(0, 1) for _ in range(rank)] for _ in range(6)])
    d = np.diag([sp] * 3 + [sv] * 3)
    c = d @ a @ a.T @ d
    c = (c + c.T) / 2
    return c, sp, sv, rank


def gen_date(rng):
    """calendar fields (UTC); `mkdate` makes the Date"""
    return [rng.randint(2001, 2029), rng.randint(1, 12), rng.randint(1, 28), rng.randint(0, 23), rng.randint(0, 59), rng.randint(0, 59)]


def mkdate(d):
    from beyond.dates import Date
    return d if isinstance(d, Date) else Date(*d)


def gen_seq(rng):
    k = rng.randint(1, 5)
    return [rng.choice(FRAMES + LOCAL * 3) for _ in range(k)]


def scales(c0, sp, sv):
    import numpy as np
    return np.array([sp] * 3 + [sv + 7.3e-5 * sp] * 3)


def make_sv(x, date, frame):
    from beyond.orbits import StateVector
    return StateVector(list(x), mkdate(date), "cartesian", frame)


def make_cov(x, date, frame, c0):
    from beyond.orbits.cov import Cov
    from beyond.frames.frames import get_frame
    sv = make_sv(x, date, frame)
    return Cov(sv, c0.copy(), get_frame(frame)), sv


def ref_local(kind, x):
    """QSW/TNW from the definition in the property text (not from beyond.frames.local)"""
    import numpy as np
    p, v = np.array(x[:3]), np.array(x[3:])
    h = np.cross(p, v)
    w = h / np.sqrt(h @ h)
    if kind == "QSW":
        a = p / np.sqrt(p @ p)
    else:
        a = v / np.sqrt(v @ v)
    b = np.cross(w, a)
    m = np.array([a, b, w])
    out = np.zeros((6, 6))
    out[:3, :3] = m
    out[3:, 3:] = m
    return out


def state_jacobian(x, date, f0, g):
    """6x6 linear map of the state transformation f0 -> g at that date, from the public StateVector API"""
    import numpy as np
    cols = []
    for j in range(6):
        e = [0.0] * 6
        e[j] = 1.0
        cols.append(np.array(make_sv(e, date, f0).copy(frame=g)))
    return np.array(cols).T


def mclose(a, b, s, tol=1e-9):
    import numpy as np
    if not (np.all(np.isfinite(a)) and np.all(np.isfinite(b))):
        return False
    return bool(np.all(np.abs(np.asarray(a) - np.asarray(b)) <= tol * np.outer(s, s)))


def seq_family(f0, seq):
    """class of a sequence, computed from the input alone: what the last target is and where the
    covariance last rested in a non-local frame before it"""
    last = seq[-1]
    prev = [t for t in seq[:-1] if t not in LOCAL]
    home = (not prev) or prev[-1] == f0
    if last in LOCAL:
        return "local-after-home" if home else "local-after-reframe"
    return "frame-after-home" if home else "frame-after-reframe"


# ---------------------------------------------------------------- correspondence

def canon(name):
    from beyond.frames.frames import get_frame
    return get_frame(name).name


def gen_ops(rng, f0=None):
    """history of 1-5 operations: cov hops (mostly), state hops, state copies, re-attachments; the generator follows the frame
    the state is in so that it can aim at it (`cov.frame = <frame of the state>` after the state moved / after sv.cov = c)"""
    ops = []
    cur = f0
    for _ in range(rng.randint(1, 5)):
        r = rng.random()
        pool = FRAMES + ["WGS84"]
        if r < 0.62:
            ops.append(("h", rng.choice(pool + LOCAL * 4)))
        elif r < 0.70:
            ops.append(("h", cur if cur else rng.choice(pool)))
        elif r < 0.83:
            cur = rng.choice(pool)
            ops.append(("s", cur))
        elif r < 0.90:
            ops.append(("a", "-"))      # c = sv.cov; sv.cov = c : the private copy is re-seated in the frame the state is in now
            if rng.random() < 0.5:
                ops.append(("h", rng.choice([cur or rng.choice(pool)] + LOCAL)))
        else:
            t = rng.choice(pool + ["-"] * 5)
            if t != "-":
                cur = t
            ops.append(("c", t))
    if rng.random() < 0.03:
        ops.insert(rng.randrange(len(ops) + 1), (rng.choice("hsc"), rng.choice(["FOO", "Hill2", "qsw", "eme2000"])))
    return ops


def real_history(f0, tag0, x, date, c0, ops):
    """runs the history on the real classes; returns the list of observations (one per op) and an error kind or None"""
    import numpy as np
    from beyond.orbits.cov import Cov
    from beyond.frames.frames import get_frame
    from beyond.errors import UnknownFrameError
    sv = make_sv(x, date, f0)
    sv.cov = Cov(sv, c0.copy(), tag0 if tag0 in LOCAL else get_frame(tag0))
    obs = []
    for kind, name in ops:
        try:
            if kind == "h":
                sv.cov.frame = name
            elif kind == "s":
                sv.frame = name
            elif kind == "a":
                c = sv.cov
                sv.cov = c
            else:
                sv = sv.copy(frame=None if name == "-" else name)
        except UnknownFrameError:
            return obs, "unknown-frame"
        c = sv.cov
        tag = c.frame if isinstance(c.frame, str) else c.frame.name
        obs.append((sv.frame.name, tag, c._orb_frame.name, c.orb.frame.name, [float(v) for v in c.orb], [float(v) for v in np.array(c).flatten()], str(c.orb.form)))
    return obs, None


def conv_table(f0, ops, date):
    """real conversion matrices between all frames the history can touch"""
    from beyond.frames.frames import get_frame
    from beyond.errors import UnknownFrameError
    names = [f0]
    for _, n in ops:
        if n in LOCAL or n == "-":
            continue
        try:
            c = canon(n)
        except UnknownFrameError:
            continue
        if c not in names:
            names.append(c)
    d = mkdate(date)
    toks = []
    k = 0
    for a in names:
        for b in names:
            if a != b:
                m = get_frame(a).orientation.convert_to(d, get_frame(b).orientation)
                toks += [a, b] + [f2b(v) for v in m.flatten()]
                k += 1
    return k, toks


def correspondence(ctx):
    import numpy as np
    out = Outcome()
    rng = ctx.rng
    reqs, meta = [], []
    for it in range(ctx.n(500, 12000)):
        f0 = NONROT[it % len(NONROT)]
        if rng.random() < 0.05:
            f0 = rng.choice(["ITRF", "PEF", "TIRF"])     # outside the property's quantifier, inside the model's
        x = gen_state(rng)
        date = gen_date(rng)
        c0, sp, sv_, rank = gen_cov(rng)
        tag0 = f0 if rng.random() < 0.85 else rng.choice(LOCAL)
        ops = gen_ops(rng, f0)
        obs, err = real_history(f0, tag0, x, date, c0, ops)
        k, table = conv_table(f0, ops, date)
        req = " ".join(["cov", f0, tag0] + [f2b(v) for v in x] + [f2b(v) for v in c0.flatten()] + [str(k)] + table + [t for op in ops for t in op])
        reqs.append(req)
        meta.append((obs, err, scales(c0, sp, sv_), {"start": f0, "tag0": tag0, "ops": ops, "x": x, "date": date, "cov": c0.tolist()}))
        changes = sum(1 for i, o in enumerate(obs) if o[1] != (obs[i - 1][1] if i else tag0))
        out.count(key=req, nontrivial=changes > 0, kind="history", length=len(ops), tagchanges=changes, start=f0, error=err or "none",
                  starttag="local" if tag0 in LOCAL else "frame", reattachments=sum(1 for o in ops if o[0] == "a"),
                  statehops=sum(1 for o in ops if o[0] == "s"))
    for _ in range(ctx.n(300, 5000)):
        from beyond.frames.local import to_local
        x = gen_state(rng)
        k = rng.choice(LOCAL)
        real = to_local(k, np.array(x))
        reqs.append(" ".join(["tolocal", k[0]] + [f2b(v) for v in x]))
        meta.append(([("", "", "", "", [], [float(v) for v in real.flatten()], "")], None, np.ones(6), {"tolocal": k, "x": x}))
        out.count(key=reqs[-1], kind="tolocal-" + k)
    replies = core.Driver().run(reqs)
    for req, (obs, err, s, inp), rep in zip(reqs, meta, replies):
        compare(out, obs, err, s, inp, rep)
    heap_correspondence(ctx, out)
    return out


def compare(out, obs, err, s, inp, rep):
    import numpy as np
    toks = rep.split()
    if "tolocal" in inp:
        model = [b2f(t) for t in toks] if len(toks) == 36 else None
        real = obs[0][5]
        if model is None or not all(core.close(a, b, rtol=1e-12, atol=1e-12) for a, b in zip(real, model)):
            out.fail("tolocal", "to_local differs between beyond.frames.local and the Lean model", inp, observed=real, expected=model or rep[:80])
        out.sample({"request": "tolocal " + inp["tolocal"], "impl": real[:3], "model": (model or [])[:3]}, limit=1)
        return
    merr = None
    if toks and not toks[-1].isdigit():
        merr = toks.pop()
    if merr != err:
        out.fail("history-error-kind", "error kind differs", inp, observed=err, expected=merr)
        return
    if len(toks) != 46 * len(obs):
        out.fail("history-length", "model and implementation executed a different number of operations", inp, observed=len(obs), expected=len(toks) / 46)
        return
    for i, o in enumerate(obs):
        seg = toks[46 * i: 46 * (i + 1)]
        mtags = seg[:4]
        if list(o[:4]) != mtags:
            out.fail("history-bookkeeping", f"bookkeeping after op {i} differs (state frame, cov tag, _orb_frame, orb.frame)", inp, observed=list(o[:4]), expected=mtags)
            return
        if o[6] != "cartesian":
            out.fail("history-orb-form", "private copy is not cartesian", inp, observed=o[6], expected="cartesian")
            return
        morb = [b2f(t) for t in seg[4:10]]
        mmat = np.array([b2f(t) for t in seg[10:]]).reshape(6, 6)
        rn = max(abs(v) for v in o[4][:3])
        vn = max(abs(v) for v in o[4][3:]) + 7.3e-5 * rn
        if not all(core.close(a, b, rtol=0, atol=1e-9 * (rn if j < 3 else vn)) for j, (a, b) in enumerate(zip(o[4], morb))):
            out.fail("history-orb", f"private state copy after op {i} differs", inp, observed=o[4], expected=morb)
            return
        if not mclose(np.array(o[5]).reshape(6, 6), mmat, s):
            out.fail("history-matrix", f"covariance matrix after op {i} differs", inp, observed=o[5], expected=mmat.flatten().tolist())
            return
    out.sample({"ops": inp["ops"], "start": inp["start"], "impl_tags": [list(o[:4]) for o in obs], "impl_cov00": [o[5][0] for o in obs],
                "model_cov00": [b2f(toks[46 * i + 10]) for i in range(len(obs))]}, limit=3)



# ---------------------------------------------------------------- several objects in one process (Model/CovHeap.lean)

DUP_KINDS = ["array-subok", "copy.copy", "deepcopy", "astype", "ndarray.copy", "positive"]
VIEW_KINDS = {"V": ["slice", "view", "reshape", "ellipsis"], "T": ["T", "transpose", "swapaxes"]}
INT_KINDS = ["list-int", "list-float", "list-mixed", "tuple-int", "int32", "int64", "float32", "float64", "f64-fortran", "f64-strided", "matrix-int", "matrix-float", "cov"]


def gen_cov_int(rng):
    """integer-valued symmetric PSD 6x6 (every entry below 2^24: exact in float32 as well)"""
    import numpy as np
    rank = rng.choice([6, 6, 6, 4, 2, 1])
    a = np.array([[rng.randint(-3, 3) for _ in range(rank)] for _ in range(6)], dtype=np.int64)
    d = np.diag([rng.choice([1, 10, 100])] * 3 + [1] * 3).astype(np.int64)
    c = d @ a @ a.T @ d
    if not c.any():
        c = d @ d
    return c


def as_kind(ci, kind, sv=None, tag=None):
    """the integer-valued matrix `ci` handed to Cov(...) as the given kind of `values`"""
    import numpy as np
    rows = [[int(v) for v in r] for r in np.asarray(ci)]
    if kind == "list-int":
        return rows
    if kind == "list-float":
        return [[float(v) for v in r] for r in rows]
    if kind == "list-mixed":
        return [[(float(v) if (i + j) % 2 else v) for j, v in enumerate(r)] for i, r in enumerate(rows)]
    if kind == "tuple-int":
        return tuple(tuple(r) for r in rows)
    if kind in ("int32", "int64", "float32", "float64"):
        if kind == "uint16":
            return np.abs(np.array(rows)).astype(np.uint16) if False else np.array(rows, dtype=np.int64).astype(np.int32)
        return np.array(rows, dtype=getattr(np, kind))
    if kind == "f64-fortran":
        return np.asfortranarray(np.array(rows, dtype=float))
    if kind == "f64-strided":
        big = np.zeros((12, 12))
        big[::2, ::2] = np.array(rows, dtype=float)
        return big[::2, ::2]
    if kind == "matrix-int":
        return np.matrix(rows)
    if kind == "matrix-float":
        return np.matrix(rows, dtype=float)
    if kind == "cov":
        from beyond.orbits.cov import Cov
        return Cov(sv, np.array(rows, dtype=float), sv.frame if tag is None else tagobj(tag))     # the frame argument of the outer call is ignored
    raise ValueError(kind)


def tagobj(tag):
    from beyond.frames.frames import get_frame
    return tag if tag in LOCAL else get_frame(tag)


class RealHeap:
    """the operations of Model/CovHeap.lean on the real classes"""

    def __init__(self, dates, states):
        self.dates = [mkdate(d) for d in dates]
        self.svs = [make_sv(x, self.dates[d], f0) for d, f0, x in states]
        self.objs = []

    def apply(self, op):
        import copy as _copy
        import pickle
        import numpy as np
        from beyond.orbits.cov import Cov
        from beyond.errors import UnknownFrameError
        k = op[0]
        o = self.objs
        try:
            if k == "new":
                _, s, tag, kind, values = op
                vals = np.array(values, dtype=float) if kind == "f64" else as_kind(np.array(values), kind, self.svs[s], tag)
                o.append(Cov(self.svs[s], vals, tagobj(tag)))
            elif k == "from":
                o.append(Cov(self.svs[op[1]], o[op[2]], None))
            elif k == "att":
                self.svs[op[1]].cov = o[op[2]]
            elif k == "hop":
                o[op[1]].frame = op[2]
            elif k == "svh":
                self.svs[op[1]].frame = op[2]
            elif k == "svw":
                # the caller writes into his own state object, in place; what the model is told is the result: date and cartesian coordinates
                sv = self.svs[op[1]]
                try:
                    mutate_state(sv, op[2:4] if op[2] != "set" else [op[2]] + list(op[3]))
                except Exception:  # noqa: BLE001 - the caller's own operation failed on his state; the state is what it is now
                    pass
                if len(op) == 4:
                    op.append(self.dates.index(sv.date))
                    op.append([float(v) for v in sv.copy(form="cartesian")])
            elif k == "scale":
                o.append(op[2] * o[op[1]] if op[3] == "k*c" else o[op[1]] * op[2])
            elif k == "dup":
                c = o[op[1]]
                o.append({"array-subok": lambda: np.array(c, subok=True), "copy.copy": lambda: _copy.copy(c), "deepcopy": lambda: _copy.deepcopy(c),
                          "astype": lambda: c.astype(float), "ndarray.copy": lambda: np.ndarray.copy(c), "positive": lambda: +c}[op[2]]())
            elif k == "add":
                o.append(o[op[1]] + o[op[2]] if op[3] == "+" else np.add(o[op[1]], o[op[2]]))
            elif k == "view":
                c = o[op[1]]
                o.append({"slice": lambda: c[:], "view": lambda: c.view(), "reshape": lambda: c.reshape(6, 6), "ellipsis": lambda: c[...],
                          "T": lambda: c.T, "transpose": lambda: c.transpose(), "swapaxes": lambda: np.swapaxes(c, 0, 1)}[op[3]]())
            elif k == "imul":
                c = o[op[1]]
                c *= op[2]
            elif k == "copy":
                o.append(o[op[1]].copy() if op[2] == "-" else o[op[1]].copy(frame=op[2]))
            elif k == "pkl":
                o.append(pickle.loads(pickle.dumps(o[op[1]])))
            else:
                raise RuntimeError("bad op " + k)
        except UnknownFrameError:
            return "unknown-frame"
        except AttributeError as e:
            if "_orb_frame" in str(e):
                return "attribute"
            return "raised:AttributeError:" + str(e)[:60].replace(" ", "_")
        except ValueError as e:
            if "Non-symmetric" in str(e):
                return "asymmetric"
            return "raised:ValueError:" + str(e)[:60].replace(" ", "_")
        except Exception as e:  # noqa: BLE001 - reported as a disagreement (the model never predicts it)
            return "raised:" + type(e).__name__ + ":" + str(e)[:60].replace(" ", "_")
        return "ok"

    def observe(self):
        import numpy as np
        objs = []
        for c in self.objs:
            tag = c.frame if isinstance(c.frame, str) else c.frame.name
            of = getattr(c, "_orb_frame", None)
            users = [k for k, sv in enumerate(self.svs) if sv is c.orb]
            share = "state-object-%d" % users[0] if users else next(j for j, d in enumerate(self.objs) if d.orb is c.orb)
            objs.append((tag, "-" if of is None else of.name, c.orb.frame.name, self.dates.index(c.orb.date), [float(v) for v in c.orb],
                         [float(v) for v in np.array(c, dtype=float).flatten()], share))
        return objs, [sv.frame.name for sv in self.svs]


def op_tokens(op):
    """request tokens of one operation (the kind-of-call fields are not part of the model)"""
    k = op[0]
    if k == "new":
        import numpy as np
        return ["new", str(op[1]), op[2]] + [f2b(v) for v in np.array(op[4], dtype=float).flatten()]
    if k in ("from", "att", "add"):
        return [k, str(op[1]), str(op[2])]
    if k in ("hop", "svh", "copy"):
        return [k, str(op[1]), op[2]]
    if k in ("scale", "imul"):
        return [k, str(op[1]), f2b(op[2])]
    if k in ("dup", "pkl"):
        return [k, str(op[1])]
    if k == "view":
        return ["view", str(op[1]), op[2]]
    if k == "svw":
        return ["svw", str(op[1]), str(op[4])] + [f2b(v) for v in op[5]]
    raise ValueError(k)


def gen_heap_case(rng, nops):
    """a scenario generated while it is executed on the real classes (the generator looks at the real objects only to
    aim its choices: e.g. arrays made by numpy can only go from QSW to TNW and back)"""
    nd = 1 if rng.random() < 0.7 else 2
    dates = []
    while len(dates) < nd:
        d = gen_date(rng)
        if d not in dates:
            dates.append(d)
    ns = rng.randint(2, 4)
    fc = rng.choice(NONROT) if rng.random() < 0.93 else rng.choice(["ITRF", "PEF", "TIRF"])
    pool = [fc] + rng.sample(FRAMES, 2)
    states = []
    for s in range(ns):
        d = 0 if rng.random() < 0.75 else rng.randrange(nd)
        f0 = fc if rng.random() < 0.75 else rng.choice(pool)
        x = list(states[rng.randrange(s)][2]) if s and rng.random() < 0.2 else gen_state(rng)
        states.append((d, f0, x))
    real = RealHeap(dates, states)
    ops, obs = [], []
    dropped = 0

    def push(op):
        nonlocal dropped
        err = real.apply(op)
        if err == "asymmetric":
            dropped += 1        # np.allclose(buf, buf.T) of the constructor on a rounded matrix: not an event of the model
            return
        ops.append(op)
        obs.append((err,) + real.observe())

    def newcov(s):
        if rng.random() < 0.3:
            ci = gen_cov_int(rng)
            push(["new", s, states[s][1] if rng.random() < 0.6 else rng.choice(LOCAL), rng.choice(INT_KINDS), ci.tolist()])
        else:
            c0 = gen_cov(rng)[0]
            push(["new", s, states[s][1] if rng.random() < 0.6 else rng.choice(LOCAL), "f64", c0.tolist()])
    for s in range(ns):
        newcov(s)
        if rng.random() < 0.6:
            push(["att", s, len(real.objs) - 1])
    names = pool + ["WGS84"]

    def clone_tagged(c):
        """the frame of an unpickled covariance is a Frame object of its own, equal to no registered frame (Frame compares by identity):
        the model identifies frames with their names, so the two places where that identity decides (known finding
        C14-unpickled-frame-identity, oracle family `unpickled`) are kept out of the sequences"""
        from beyond.frames.frames import get_frame
        return not isinstance(c.frame, str) and c.frame is not get_frame(c.frame.name)
    for _ in range(nops):
        n = len(real.objs)
        i = rng.randrange(n)
        r = rng.random()
        if 0.95 <= r < 0.98 and clone_tagged(real.objs[i]):
            r = 0.0
        if 0.44 <= r < 0.50:
            # in-place write to a state the caller keeps using: other form, components, date (the orbit stays bound: every form exists)
            how = rng.choice(["form", "form", "set", "fill", "imul", "date"])
            if how == "form":
                arg = rng.choice(HEAP_FORMS)
            elif how == "set":
                q = rng.randrange(6)
                arg = [q, -1.0 if q < 3 else rng.choice([-1.0, 0.5])]
            elif how == "fill":
                arg = gen_state(rng)
            elif how == "imul":
                arg = -1.0
            else:
                arg = dates[rng.randrange(nd)]
            push(["svw", rng.randrange(ns), how, arg])
        elif r < 0.50 or n >= 9:
            c = real.objs[i]
            if not hasattr(c, "_orb_frame") and rng.random() < 0.7:
                t = rng.choice(LOCAL)
            else:
                t = rng.choice(names + LOCAL * 3)
            if rng.random() < 0.02:
                t = rng.choice(["FOO", "qsw", "Hill2"])
            if not hasattr(c, "_orb_frame") and clone_tagged(c) and t in FRAMES + ["WGS84"] and canon(t) == c.frame.name:
                t = rng.choice(LOCAL)
            push(["hop", i, t])
        elif r < 0.57:
            push(["svh", rng.randrange(ns), rng.choice(names)])
        elif r < 0.64:
            push(["scale", i, rng.choice([9.0, 0.25, -1.0, 1.0, 2.0, rng.uniform(0.1, 10)]), rng.choice(["k*c", "c*k"])])
        elif r < 0.69:
            push(["dup", i, rng.choice(DUP_KINDS)])
        elif r < 0.73:
            push(["add", i, rng.randrange(n), rng.choice(["+", "np.add"])])
        elif r < 0.79:
            tv = rng.choice("VT")
            push(["view", i, tv, rng.choice(VIEW_KINDS[tv])])
        elif r < 0.82:
            push(["imul", i, rng.choice([2.0, 0.5, 9.0])])
        elif r < 0.88:
            push(["copy", i, rng.choice(["-", "-"] + names + LOCAL * 2)])
        elif r < 0.92:
            push(["pkl", i])
        elif r < 0.95:
            push(["from", rng.randrange(ns), i])
        elif r < 0.98:
            push(["att", rng.randrange(ns), i])
        else:
            newcov(rng.randrange(ns))
    return dates, states, ops, obs, dropped, pool


def heap_request(dates, states, ops, pool):
    from beyond.frames.frames import get_frame
    names = []
    for _, f0, _ in states:
        if f0 not in names:
            names.append(f0)
    for n in pool + ["ITRF"]:
        if canon(n) not in names:
            names.append(canon(n))
    table = []
    k = 0
    for di, d in enumerate(dates):
        dd = mkdate(d)
        for a in names:
            for b in names:
                if a != b:
                    m = get_frame(a).orientation.convert_to(dd, get_frame(b).orientation)
                    table += [str(di), a, b] + [f2b(v) for v in m.flatten()]
                    k += 1
    toks = ["heap", str(len(states))]
    for d, f0, x in states:
        toks += [str(d), f0] + [f2b(v) for v in x]
    toks += [str(k)] + table
    for op in ops:
        toks += op_tokens(op)
    return " ".join(toks)


def tscale(m):
    """comparison scale of a covariance-like matrix from its own block traces"""
    import numpy as np
    m = np.asarray(m).reshape(6, 6)
    sp = math.sqrt(abs(np.trace(m[:3, :3])) + abs(m[:3, :3]).max())
    sv = math.sqrt(abs(np.trace(m[3:, 3:])) + abs(m[3:, 3:]).max())
    return np.array([sp] * 3 + [sv + 7.3e-5 * sp + 1e-300] * 3) + 1e-300


def compare_heap(out, obs, inp, rep):
    import numpy as np
    segs = rep.split(" | ")
    if len(segs) != len(obs):
        out.fail("heap-length", "model and implementation executed a different number of operations", inp, observed=len(obs), expected=rep[:80])
        return
    ns = len(inp["states"])
    for n, (seg, (err, objs, svf)) in enumerate(zip(segs, obs)):
        toks = seg.split()
        op = inp["ops"][n][:4] if inp["ops"][n][0] != "new" else inp["ops"][n][:4]
        if toks[0] != err:
            out.fail("heap-error-kind:" + inp["ops"][n][0], f"op {n} {op}: outcome differs", inp, observed=err, expected=toks[0])
            return
        nobj = int(toks[1])
        if nobj != len(objs) or len(toks) != 2 + 47 * nobj + ns:
            out.fail("heap-objects:" + inp["ops"][n][0], f"op {n} {op}: number of objects differs", inp, observed=len(objs), expected=nobj)
            return
        if toks[2 + 47 * nobj:] != svf:
            out.fail("heap-state-frames", f"op {n} {op}: frames of the states differ", inp, observed=svf, expected=toks[2 + 47 * nobj:])
            return
        for j, o in enumerate(objs):
            t = toks[2 + 47 * j: 2 + 47 * (j + 1)]
            mb = [t[0], t[1], t[2], int(t[3])]
            if str(o[6]) != t[46]:
                out.fail("heap-orb-sharing:" + inp["ops"][n][0], f"op {n} {op}: object {j}: the reference state it holds is not the object the model says (index of the first covariance "
                         "holding the same private copy; never a state object of the caller)", inp, observed=o[6], expected=int(t[46]))
                return
            if list(o[:4]) != mb:
                out.fail("heap-bookkeeping:" + inp["ops"][n][0], f"op {n} {op}: object {j}: (tag, _orb_frame, frame of the private copy, date) differ", inp,
                         observed=list(o[:4]), expected=mb)
                return
            morb = [b2f(v) for v in t[4:10]]
            rn = max(abs(v) for v in o[4][:3])
            vn = max(abs(v) for v in o[4][3:]) + 7.3e-5 * rn
            if not all(core.close(a, b, rtol=0, atol=1e-9 * (rn if q < 3 else vn)) for q, (a, b) in enumerate(zip(o[4], morb))):
                out.fail("heap-orb:" + inp["ops"][n][0], f"op {n} {op}: object {j}: private state copy differs", inp, observed=o[4], expected=morb)
                return
            mm = np.array([b2f(v) for v in t[10:46]]).reshape(6, 6)
            rm = np.array(o[5]).reshape(6, 6)
            if not mclose(rm, mm, tscale(mm)):
                out.fail("heap-matrix:" + inp["ops"][n][0], f"op {n} {op}: object {j}: values differ", inp, observed=o[5], expected=mm.flatten().tolist())
                return
    out.sample({"heap ops": [o[:4] if o[0] != "new" else o[:4] for o in inp["ops"]][:12], "final impl tags": [o[0] for o in obs[-1][1]],
                "final model tags": [segs[-1].split()[2 + 47 * j] for j in range(len(obs[-1][1]))]}, limit=2)


def heap_correspondence(ctx, out):
    rng = ctx.rng
    reqs, meta = [], []
    dropped = total = 0
    for _ in range(ctx.n(110, 2500)):
        dates, states, ops, obs, dr, pool = gen_heap_case(rng, rng.randint(6, 12))
        dropped += dr
        total += len(ops)
        req = heap_request(dates, states, ops, pool)
        reqs.append(req)
        inp = {"dates": dates, "states": [list(s) for s in states], "ops": ops}
        meta.append((obs, inp))
        kinds = sorted({o[0] for o in ops})
        shared = len({(d, f) for d, f, _ in states}) < len(states)
        out.count(key=hashlib.sha1(req.encode()).hexdigest(), nontrivial=any(o[0] == "hop" for o in ops), kind="heap", objects=len(obs[-1][1]),
                  shared_epoch_and_frame=shared, errors=sum(1 for o in obs if o[0] != "ok"))
        for o in ops:
            out.tally("heapop=" + o[0])
    if dropped > 0.02 * max(total, 1) + 2:
        out.fail("heap-constructor-asymmetric", "the Cov constructor refused more than 2 % of the matrices produced by frame changes as non symmetric", {"dropped": dropped, "ops": total})
    replies = core.Driver().run(reqs)
    for (obs, inp), rep in zip(meta, replies):
        compare_heap(out, obs, inp, rep)

# ---------------------------------------------------------------- oracle on the real API

def unlisted(out):
    """a failing input that is not one of the listed open findings has been found (a widened sweep stops there)"""
    known = {k["family"] for k in core.load_known() if k.get("property") == ID and k.get("status", "open") == "open"}
    return any(f["family"] not in known for f in out.failures)


def oracle(ctx, widened):
    """the quick sweep over every family first; a widened / thorough run goes on with ten times the sample only when the quick
    sweep found no failing input outside the listed findings, and stops at the first one it finds"""
    out = Outcome()
    sweep(ctx, out, False, bool(widened or ctx.thorough))
    if (widened or ctx.thorough):
        if unlisted(out):
            out.notes.append("widened sweep not started: the quick sweep already holds a failing input")
        else:
            sweep(ctx, out, True, True)
    out.sample({"checks": "directed (every frame visited x QSW/TNW x cov alone / with state / Cov.copy), attached-later covariances, seq vs single hop, symmetry, PSD, "
                "position-block spectrum, back conversion, reference R C R^T, cov follows state (copy / in place / then local), several objects, conversion-matrix laws"})
    return out


def sweep(ctx, out, big, early):
    import numpy as np
    from beyond.frames.frames import get_frame
    rng = ctx.rng
    # cheap, discriminating families first: every (frame visited, QSW/TNW) pair with the covariance alone and with its state,
    # attached-later covariances; a widened sweep stops at the first failing input that is not a listed finding
    directed(out, rng)
    if early and unlisted(out):
        out.notes.append("widened sweep stopped after the directed family: failing input found")
        return out
    for how in ATTACH_HOW:
        for _ in range(6):
            guarded(check_attached, out, gen_attached(rng, how))
    if early and unlisted(out):
        out.notes.append("widened sweep stopped after the attached-later family: failing input found")
        return out
    for via in STANDALONE_VIA:
        for mut in STANDALONE_MUT:
            for _ in range(4 if big else 1):
                guarded(check_standalone, out, gen_standalone(rng, via, mut))
        if early and unlisted(out):
            out.notes.append("widened sweep stopped after the standalone-state-mutated family: failing input found")
            return out
    N = 1500 if big else 120
    for it in range(N):
        if early and it % 10 == 0 and unlisted(out):
            out.notes.append(f"widened sweep stopped after {it} sequences: failing input found")
            return out
        f0 = NONROT[it % len(NONROT)] if it < 4 * len(NONROT) else rng.choice(NONROT)
        x = gen_state(rng)
        date = gen_date(rng)
        c0, sp, sv_, rank = gen_cov(rng)
        seq = gen_seq(rng)
        if it % 5 == 0:
            # make the interesting class frequent: a frame hop followed by a local target
            seq = seq[:3] + [rng.choice([f for f in FRAMES if f != f0]), rng.choice(LOCAL)]
        s = scales(c0, sp, sv_)
        inp = {"start": f0, "seq": seq, "x": x, "date": date, "cov": c0.tolist()}
        fam = seq_family(f0, seq)
        ev0 = np.linalg.eigvalsh(c0[:3, :3])
        # ---- run the sequence, checking the per-hop invariants
        cov, sv = make_cov(x, date, f0, c0)
        ok = True
        for i, t in enumerate(seq):
            cov.frame = t
            m = np.array(cov)
            tagname = cov.frame if isinstance(cov.frame, str) else cov.frame.name
            out.count(key=None, kind="hop")
            if tagname != t:
                out.fail("tag-after-hop", "cov.frame does not name the requested target after the assignment", inp, observed=tagname, expected=t)
                ok = False
                break
            if not mclose(m, m.T, s, 1e-12):
                out.fail("asymmetric:" + fam, f"matrix is not symmetric after hop {i} ({t})", inp, observed=float(np.abs(m - m.T).max()))
                ok = False
                break
            n = m / np.outer(s, s)
            if np.linalg.eigvalsh((n + n.T) / 2).min() < -1e-9 * max(1.0, np.abs(n).max()):
                out.fail("not-psd:" + fam, f"matrix is not positive semi-definite after hop {i} ({t})", inp, observed=float(np.linalg.eigvalsh((n + n.T) / 2).min()))
                ok = False
                break
            ev = np.linalg.eigvalsh((m[:3, :3] + m[:3, :3].T) / 2)
            if not np.all(np.abs(ev - ev0) <= 1e-9 * max(ev0.max(), 1e-300)):
                out.fail("pos-spectrum:" + fam, f"eigenvalues of the position block changed at hop {i} ({t})", inp, observed=ev.tolist(), expected=ev0.tolist())
                ok = False
                break
        if not ok:
            continue
        final = np.array(cov)
        # ---- sequence vs single hop
        single, _ = make_cov(x, date, f0, c0)
        single.frame = seq[-1]
        single = np.array(single)
        out.count(key=(f0, tuple(seq), tuple(x)), nontrivial=any(t != f0 for t in seq), kind="seq-vs-single", family=fam, length=len(seq), start=f0, rank=rank)
        if not mclose(final, single, s):
            rel = float(np.abs(final - single).max() / max(np.abs(single).max(), 1e-300))
            out.fail("path-dependent:" + fam, "covariance after a sequence of frame changes differs from the single hop to the last target", inp,
                     observed={"rel_diff": rel, "final": final.tolist()}, expected=single.tolist())
        # ---- the single hop itself against an independent reference
        last = seq[-1]
        if last in LOCAL:
            R = ref_local(last, x)
        else:
            R = state_jacobian(x, date, f0, last)
        ref = R @ c0 @ R.T
        out.count(key=None, kind="single-vs-reference", target="local" if last in LOCAL else "frame")
        if not mclose(single, ref, s):
            out.fail("single-hop-reference:" + ("local" if last in LOCAL else "frame"),
                     "single hop differs from R C R^T with R from the definition (QSW/TNW axes of the inertial state / linear map of the state transformation)", inp,
                     observed=single.tolist(), expected=ref.tolist())
        # ---- back conversion restores
        cov.frame = f0
        out.count(key=None, kind="back")
        if not mclose(np.array(cov), c0, s):
            out.fail("back-conversion:" + fam, "converting back to the original frame does not restore the matrix", inp, observed=np.array(cov).tolist(), expected=c0.tolist())
        # ---- the covariance follows its state
        g = rng.choice([f for f in FRAMES if f != f0])
        exp_g, _ = make_cov(x, date, f0, c0)
        exp_g.frame = g
        exp_g = np.array(exp_g)
        sv = make_sv(x, date, f0)
        from beyond.orbits.cov import Cov
        sv.cov = Cov(sv, c0.copy(), get_frame(f0))
        sv2 = sv.copy(frame=g)
        out.count(key=("follow", f0, g, tuple(x)), kind="follows-copy")
        if sv2.cov is None or sv2.cov.frame is not get_frame(g) or not mclose(np.array(sv2.cov), exp_g, s):
            out.fail("follows-state:copy", "sv.copy(frame=g): the covariance did not follow the state into g", dict(inp, g=g),
                     observed=None if sv2.cov is None else np.array(sv2.cov).tolist(), expected=exp_g.tolist())
        if sv.cov.frame is not get_frame(f0) or not np.array_equal(np.array(sv.cov), c0) or sv.frame is not get_frame(f0):
            out.fail("follows-state:original-touched", "sv.copy(frame=g) modified the covariance of the original state", dict(inp, g=g))
        # in place, through intermediate frames, then a local target: QSW/TNW of the *inertial* state is required
        mids = [rng.choice(FRAMES) for _ in range(rng.randint(0, 2))] + [g]
        for f in mids:
            sv.frame = f
        out.count(key=None, kind="follows-inplace", hops=len(mids))
        if sv.cov.frame is not get_frame(g) or not mclose(np.array(sv.cov), exp_g, s):
            out.fail("follows-state:inplace", "sv.frame = ...: the covariance did not follow the state", dict(inp, g=g, mids=mids),
                     observed=np.array(sv.cov).tolist(), expected=exp_g.tolist())
        k = rng.choice(LOCAL)
        sv.cov.frame = k
        refk = ref_local(k, x) @ c0 @ ref_local(k, x).T
        fam2 = "local-after-home" if g == f0 else "local-after-reframe"
        out.count(key=None, kind="follows-then-local")
        if not mclose(np.array(sv.cov), refk, s):
            rel = float(np.abs(np.array(sv.cov) - refk).max() / max(np.abs(refk).max(), 1e-300))
            out.fail("path-dependent:" + fam2, "QSW/TNW covariance requested after the state (and its covariance) changed frame is not the one of the inertial state's axes",
                     dict(inp, g=g, mids=mids, local=k), observed={"rel_diff": rel}, expected=refk.tolist())
    if early and unlisted(out):
        return out
    several_objects(out, rng, big, early)
    named_tags(out, rng, 40 if big else 6)
    laws(out, rng, 40 if big else 8)
    return out



# ---------------------------------------------------------------- oracle families on several objects (real API, independent references)

def home_matrix(tag0, x, c0):
    """the covariance expressed in the frame of its state, given its values `c0` in `tag0` (that frame, or QSW/TNW of that state)"""
    import numpy as np
    c0 = np.asarray(c0, dtype=float)
    if tag0 in LOCAL:
        L = ref_local(tag0, x)
        return L.T @ c0 @ L
    return c0


def ref_rotation(x, date, f0, t):
    import numpy as np
    if t in LOCAL:
        return ref_local(t, x)
    if canon(t) == f0:
        return np.identity(6)
    return state_jacobian(x, date, f0, canon(t))


MULTI_VIA = ["cov", "attached", "copy", "pickle", "from", "sv.copy"]


def build_via(sv, c0, tag0, via):
    """a full covariance object (one that has its `_orb_frame`) of state `sv`, obtained in one of the ways the API offers;
    also returns the object it was made from when that is another object (it must never be touched by what is done to the result)"""
    import pickle
    import numpy as np
    from beyond.orbits.cov import Cov
    base = Cov(sv, np.array(c0, dtype=float), tagobj(tag0))
    if via == "cov":
        return base, None
    if via == "attached":
        sv.cov = base
        return sv.cov, None
    if via == "copy":
        return base.copy(), base
    if via == "pickle":
        return pickle.loads(pickle.dumps(base)), base
    if via == "from":
        return Cov(sv, base, None), base
    if via == "sv.copy":
        sv.cov = base
        return sv.copy().cov, base
    raise ValueError(via)


def tagname(c):
    return c.frame if isinstance(c.frame, str) else c.frame.name


def gen_multi(rng):
    nd = 1 if rng.random() < 0.8 else 2
    dates = []
    while len(dates) < nd:
        d = gen_date(rng)
        if d not in dates:
            dates.append(d)
    ns = rng.randint(2, 3)
    fc = rng.choice(NONROT)
    states = []
    for s in range(ns):
        d = 0 if rng.random() < 0.8 else rng.randrange(nd)
        f0 = fc if rng.random() < 0.8 else rng.choice(NONROT)
        x = list(states[rng.randrange(s)][2]) if s and rng.random() < 0.15 else gen_state(rng)
        states.append([d, f0, x])
    objects = []
    shared_c = gen_cov(rng)[0].tolist()
    for s in range(ns):
        for _ in range(1 if rng.random() < 0.7 else 2):      # sometimes the same state twice
            c0 = shared_c if rng.random() < 0.3 else gen_cov(rng)[0].tolist()
            objects.append({"state": s, "tag0": states[s][1] if rng.random() < 0.6 else rng.choice(LOCAL), "cov": c0, "via": rng.choice(MULTI_VIA)})
    pool = FRAMES + LOCAL * 4
    hops = []
    # first a round in which every object goes to the same target from the same kind of tag (the situation a memo would confuse) ...
    t = rng.choice(LOCAL) if rng.random() < 0.6 else rng.choice(FRAMES)
    order = list(range(len(objects)))
    rng.shuffle(order)
    hops += [[i, t] for i in order]
    # ... then a random interleaving
    for _ in range(rng.randint(2, 3) * len(objects)):
        hops.append([rng.randrange(len(objects)), rng.choice(pool)])
    return {"kind": "multi", "dates": dates, "states": states, "objects": objects, "hops": hops}


def check_multi(out, scen):
    import numpy as np
    dates, states = scen["dates"], scen["states"]
    svs = [make_sv(x, dates[d], f0) for d, f0, x in states]
    objs, homes, watch = [], [], []
    for o in scen["objects"]:
        d, f0, x = states[o["state"]]
        c, base = build_via(make_sv(x, dates[d], f0) if o["via"] in ("attached", "sv.copy") else svs[o["state"]], o["cov"], o["tag0"], o["via"])
        objs.append(c)
        if base is not None:
            watch.append((len(objs) - 1, o["via"], base, tagname(base), np.array(base)))
        homes.append(home_matrix(o["tag0"], x, o["cov"]))
    rot = {}

    def expected(i, t):
        s = scen["objects"][i]["state"]
        d, f0, x = states[s]
        key = (s, t)
        if key not in rot:
            rot[key] = ref_rotation(x, dates[d], f0, t)
        return rot[key] @ homes[i] @ rot[key].T

    def cls(i, prev, t):
        d, f0, x = states[scen["objects"][i]["state"]]
        shared = any(dd == d and ff == f0 and xx != x for dd, ff, xx in states)
        return ("local" if (prev in LOCAL or t in LOCAL) else "frame") + ":" + ("shared-epoch" if shared else "own-epoch")
    for n, (i, t) in enumerate(scen["hops"]):
        before = [(tagname(c), np.array(c)) for c in objs]
        prev = before[i][0]
        objs[i].frame = t
        out.count(key=None, kind="multi-hop")
        fam = cls(i, prev, t)
        got = np.array(objs[i])
        exp = expected(i, t)
        want_tag = t if t in LOCAL else canon(t)
        if tagname(objs[i]) != want_tag:
            out.fail("multi-object:tag:" + fam, f"hop {n}: object {i} does not carry the requested tag", scen, observed=tagname(objs[i]), expected=want_tag)
            return
        if not mclose(got, exp, tscale(exp)):
            rel = float(np.abs(got - exp).max() / max(np.abs(exp).max(), 1e-300))
            out.fail("multi-object:wrong-matrix:" + fam,
                     f"hop {n}: covariance {i} -> {t} is not R C R^T for its OWN state and matrix (other covariances are alive in the process)", scen,
                     observed={"rel_diff": rel, "matrix": got.tolist()}, expected=exp.tolist())
            return
        for j, c in enumerate(objs):
            if j != i and (tagname(c) != before[j][0] or not np.array_equal(np.array(c), before[j][1])):
                out.fail("multi-object:other-modified:" + fam, f"hop {n}: changing the frame of covariance {i} modified covariance {j}", scen,
                         observed={"tag": tagname(c), "matrix": np.array(c).tolist()}, expected={"tag": before[j][0], "matrix": before[j][1].tolist()})
                return
        for j, via, base, btag, bval in watch:
            if tagname(base) != btag or not np.array_equal(np.array(base), bval):
                out.fail("multi-object:origin-modified:" + via, f"hop {n}: changing the frame of covariance {i} modified the covariance object {j} was made from ({via})", scen,
                         observed={"tag": tagname(base), "matrix": np.array(base).tolist()}, expected={"tag": btag, "matrix": bval.tolist()})
                return
    for i, c in enumerate(objs):
        prev = tagname(c)
        f0 = states[scen["objects"][i]["state"]][1]
        c.frame = f0
        out.count(key=None, kind="multi-back")
        if not mclose(np.array(c), homes[i], tscale(homes[i])):
            out.fail("multi-object:back:" + cls(i, prev, f0), f"covariance {i} converted back to the frame of its state is not the original one", scen,
                     observed=np.array(c).tolist(), expected=homes[i].tolist())
            return


def derive_real(c, how, k, other=None):
    """(derived array, exact factor a with values == a * values of c)"""
    import copy as _copy
    import numpy as np
    if how == "k*c":
        return k * c, k
    if how == "c*k":
        return c * k, k
    if how == "c/k":
        k = {9.0: 8.0}.get(k, k)          # a power of two: c / k == (1 / k) * c exactly
        return c / k, 1.0 / k
    if how == "-c":
        return -c, -1.0
    if how == "c+c.copy()":
        return c + c.copy(), 2.0
    if how == "np.add(c,c)":
        return np.add(c, c), 2.0
    if how == "array-subok":
        return np.array(c, subok=True), 1.0
    if how == "copy.copy":
        return _copy.copy(c), 1.0
    if how == "deepcopy":
        return _copy.deepcopy(c), 1.0
    if how == "astype":
        return c.astype(float), 1.0
    if how == "ndarray.copy":
        return np.ndarray.copy(c), 1.0
    raise ValueError(how)


DERIVE_HOW = ["k*c", "c*k", "c/k", "-c", "c+c.copy()", "np.add(c,c)", "array-subok", "copy.copy", "deepcopy", "astype", "ndarray.copy"]


def gen_derived(rng, how):
    c0, sp, sv_, rank = gen_cov(rng)
    f0 = rng.choice(NONROT)
    l1 = rng.choice(LOCAL + [f0])
    return {"kind": "derived", "date": gen_date(rng), "f0": f0, "x": gen_state(rng), "cov": c0.tolist(), "how": how, "k": rng.choice([9.0, 4.0, 0.25, 2.0]),
            "tag1": l1, "target": rng.choice([t for t in LOCAL if t != l1] * 3 + [f for f in FRAMES if f != f0]),
            "source_target": rng.choice(LOCAL + FRAMES)}


def check_derived(out, scen):
    import numpy as np
    from beyond.orbits.cov import Cov
    from beyond.frames.frames import get_frame
    date, f0, x, how, k = scen["date"], scen["f0"], scen["x"], scen["how"], scen["k"]
    c0 = np.array(scen["cov"])

    def ref(t):
        R = ref_rotation(x, date, f0, t)
        return R @ c0 @ R.T

    def source():
        c = Cov(make_sv(x, date, f0), c0.copy(), get_frame(f0))
        c.frame = scen["tag1"]
        return c
    tag1 = scen["tag1"]
    # ---- the derived array changes frame; its source must not notice
    c = source()
    v1 = np.array(c)
    e, a = derive_real(c, how, k)
    out.count(key=("derived", how, tag1, scen["target"], tuple(x)), kind="derived", how=how, target="local" if scen["target"] in LOCAL else "frame",
              born="local" if tag1 in LOCAL else "frame")
    if not hasattr(e, "frame") or tagname(e) != tag1 or not np.array_equal(np.array(e), a * v1):
        out.fail("derived:born-wrong:" + how, "an array derived from a covariance does not carry its frame / the values numpy computed", scen,
                 observed={"tag": tagname(e) if hasattr(e, "_data") else None, "matrix": np.array(e).tolist()}, expected={"tag": tag1, "matrix": (a * v1).tolist()})
        return
    t = scen["target"]
    try:
        e.frame = t
        moved = True
    except AttributeError as ex:
        moved = False
        attr = str(ex).split("'")[-2] if str(ex).count("'") >= 2 else "?"
        out.fail("derived-cov-frame:AttributeError:" + attr + (":local-to-local" if (tag1 in LOCAL and t in LOCAL) else ":frame-involved"), "a covariance derived by a numpy operation (k * cov, cov + cov, copy.copy(cov), ...) cannot change frame as soon as a "
                 "regular frame is involved: __array_finalize__ does not carry `_orb_frame`", scen, observed=f"AttributeError: {ex}", expected=(a * ref(t)).tolist())
    if moved and not mclose(np.array(e), a * ref(t), tscale(ref(t)) * math.sqrt(abs(a))):
        out.fail("derived:wrong-matrix:" + how, "the frame change of a derived covariance is not R C R^T", scen, observed=np.array(e).tolist(), expected=(a * ref(t)).tolist())
        return
    if tagname(c) != tag1 or not np.array_equal(np.array(c), v1):
        out.fail("derived-alias:" + how + ":source-touched", "changing the frame of an array derived from a covariance modified the covariance it was derived from "
                 "(label and/or values)", scen, observed={"tag": tagname(c), "values_untouched": bool(np.array_equal(np.array(c), v1))}, expected={"tag": tag1, "values_untouched": True})
        return
    c.frame = f0
    if not mclose(np.array(c), c0, tscale(c0)):
        out.fail("derived-alias:" + how + ":source-wrong-after", "after a derived array changed frame, the source covariance no longer converts back to its original matrix", scen,
                 observed=np.array(c).tolist(), expected=c0.tolist())
        return
    # ---- the source changes frame; the derived array must not notice, and still converts by its own tag
    c = source()
    e, a = derive_real(c, how, k)
    ev = np.array(e)
    c.frame = scen["source_target"]
    if tagname(e) != tag1 or not np.array_equal(np.array(e), ev):
        out.fail("derived-alias:" + how + ":derived-touched", "changing the frame of a covariance modified an array derived from it earlier", scen,
                 observed={"tag": tagname(e), "values_untouched": bool(np.array_equal(np.array(e), ev))}, expected={"tag": tag1, "values_untouched": True})
        return
    if tag1 in LOCAL:
        t2 = [q for q in LOCAL if q != tag1][0]
        e.frame = t2
        if tagname(e) != t2 or not mclose(np.array(e), a * ref(t2), tscale(ref(t2)) * math.sqrt(abs(a))):
            out.fail("derived:wrong-matrix:" + how, "the frame change of a derived covariance (after its source moved) is not R C R^T", scen,
                     observed=np.array(e).tolist(), expected=(a * ref(t2)).tolist())


def gen_ctor(rng, vkind):
    return {"kind": "ctor", "date": gen_date(rng), "f0": rng.choice(NONROT), "x": gen_state(rng), "ci": gen_cov_int(rng).tolist(), "vkind": vkind,
            "target": rng.choice(LOCAL * 2 + FRAMES)}


def check_ctor(out, scen):
    """every kind of `values` the constructor accepts: the covariance holds those numbers (as doubles), owns its memory, converts like any other"""
    import numpy as np
    from beyond.orbits.cov import Cov
    from beyond.frames.frames import get_frame
    date, f0, x, vkind = scen["date"], scen["f0"], scen["x"], scen["vkind"]
    ci = np.array(scen["ci"], dtype=np.int64)
    want = ci.astype(float)
    sv = make_sv(x, date, f0)
    vals = as_kind(ci, vkind, sv)
    keep = np.array(vals, dtype=float).copy() if isinstance(vals, np.ndarray) else None
    out.count(key=("ctor", vkind, scen["target"], tuple(x)), kind="constructor", values=vkind)
    fam = "cov-constructor-dtype:" + vkind
    try:
        c = Cov(sv, vals, get_frame(f0))
    except Exception as ex:  # noqa: BLE001 - the exception is the observation
        out.fail(fam, "Cov(sv, values, frame) refuses a symmetric 6x6 matrix given as " + vkind, scen, observed=f"{type(ex).__name__}: {ex}", expected=want.tolist())
        return
    got = np.array(c)
    if got.dtype != np.float64 or got.shape != (6, 6) or not np.array_equal(got, want):
        out.fail(fam, "Cov(sv, values, frame) does not hold the numbers it was given (values given as " + vkind + ")", scen,
                 observed={"dtype": str(got.dtype), "matrix": got.tolist()}, expected=want.tolist())
        return
    R = ref_rotation(x, date, f0, scen["target"])
    c.frame = scen["target"]
    if not mclose(np.array(c), R @ want @ R.T, tscale(want)):
        out.fail("cov-constructor-hop:" + vkind, "a covariance built from " + vkind + " values does not convert to R C R^T", scen,
                 observed=np.array(c).tolist(), expected=(R @ want @ R.T).tolist())
        return
    if keep is not None:
        if not np.array_equal(np.array(vals, dtype=float), keep):
            out.fail("cov-constructor-alias:" + vkind, "changing the frame of the covariance rewrote the array it was built from", scen,
                     observed=np.array(vals, dtype=float).tolist(), expected=keep.tolist())
            return
        snap = np.array(c).copy()
        try:
            np.asarray(vals)[0, 0] += 1
        except (ValueError, TypeError):
            pass
        if not np.array_equal(np.array(c), snap):
            out.fail("cov-constructor-alias:" + vkind, "writing into the array a covariance was built from changed the covariance", scen,
                     observed=np.array(c).tolist(), expected=snap.tolist())


def gen_unpickled(rng):
    f0 = rng.choice(NONROT)
    return {"kind": "unpickled", "date": gen_date(rng), "f0": f0, "x": gen_state(rng), "cov": gen_cov(rng)[0].tolist(), "g": rng.choice([f for f in FRAMES if f != f0]),
            "whole_state": rng.random() < 0.5}


def check_unpickled(out, scen):
    """a covariance that went through pickle (multiprocessing) and is attached to its state follows that state"""
    import pickle
    import numpy as np
    from beyond.orbits.cov import Cov
    from beyond.frames.frames import get_frame
    date, f0, x, g = scen["date"], scen["f0"], scen["x"], scen["g"]
    c0 = np.array(scen["cov"])
    sv = make_sv(x, date, f0)
    if scen["whole_state"]:
        sv.cov = Cov(sv, c0.copy(), get_frame(f0))
        sv = pickle.loads(pickle.dumps(sv))
    else:
        sv.cov = pickle.loads(pickle.dumps(Cov(sv, c0.copy(), get_frame(f0))))
    sv.frame = g
    R = ref_rotation(x, date, f0, g)
    out.count(key=("unpickled", f0, g, tuple(x)), kind="unpickled", whole_state=scen["whole_state"])
    if tagname(sv.cov) != g or not mclose(np.array(sv.cov), R @ c0 @ R.T, tscale(c0)):
        out.fail("unpickled-cov:not-following:" + ("state-pickled" if scen["whole_state"] else "cov-pickled"),
                 "a covariance that went through pickle, attached to its state and expressed in the state's frame, does not follow the state into another frame", scen,
                 observed={"state": sv.frame.name, "cov": tagname(sv.cov)}, expected={"state": g, "cov": g})


ATTACH_HOW = ["sv.frame", "sv.copy", "fresh-state", "reattach", "other-state"]


def gen_attached(rng, how):
    """a covariance built for a state, attached LATER (`sv.cov = c`) - possibly after the state changed frame - then any
    history of covariance / state frame changes"""
    f0 = rng.choice(NONROT)
    g = f0 if (how == "reattach" or rng.random() < 0.3) else rng.choice([f for f in NONROT if f != f0])
    pre = [rng.choice(FRAMES + LOCAL) for _ in range(rng.randint(0, 2))]
    if pre and pre[-1] in LOCAL:
        pre.append(rng.choice(FRAMES))          # the covariance rests in a regular frame when it is attached
    post = []
    for _ in range(rng.randint(1, 4)):
        r = rng.random()
        post.append(["h", rng.choice(FRAMES + LOCAL * 5)] if r < 0.75 else ["s", rng.choice(FRAMES)])
    if rng.random() < 0.7:
        post.append(["h", rng.choice(LOCAL)])
    if how == "other-state":
        g = f0          # another state given in the frame the covariance was built in: the covariance C0 becomes the one of THAT state
    return {"kind": "attached", "date": gen_date(rng), "f0": f0, "x": gen_state(rng), "x1": gen_state(rng), "cov": gen_cov(rng)[0].tolist(), "g": g, "how": how,
            "pre": pre, "post": post}


def attached_family(scen, t):
    return "attached-later:" + ("home" if scen["g"] == scen["f0"] else "reframed-state") + ":" + \
        ("local-target" if t in LOCAL else "follows" if t == "follows" else "frame-target")


def check_attached(out, scen):
    """`sv.cov = c`: the covariance C0 was built for the state x given in f0; whatever frame the state is expressed in when the
    covariance is attached, every later frame change must give R C0 R^T with R from the definition (the linear map of the state
    transformation f0 -> t; the QSW/TNW axes of the inertial position and velocity), and the covariance follows its state"""
    import numpy as np
    from beyond.orbits.cov import Cov
    from beyond.frames.frames import get_frame
    date, f0, x, g, how = scen["date"], scen["f0"], scen["x"], scen["g"], scen["how"]
    c0 = np.array(scen["cov"])
    sv = make_sv(x, date, f0)
    c = Cov(sv, c0.copy(), get_frame(f0))
    for t in scen["pre"]:
        c.frame = t
    if how == "sv.frame":
        sv.frame = g
    elif how == "sv.copy":
        sv = sv.copy(frame=g)
    elif how == "fresh-state":
        sv = make_sv([float(v) for v in sv.copy(frame=g)], date, g)
    elif how == "reattach":
        sv.cov = c
        c = sv.cov
    elif how == "other-state":
        x = scen["x1"]                       # from here on the covariance describes this state: its QSW/TNW axes are the required ones
        sv = make_sv(x, date, f0)
    sv.cov = c
    rot = {}

    def expected(t):
        if t not in rot:
            R = ref_rotation(x, date, f0, t)
            rot[t] = R @ c0 @ R.T
        return rot[t]
    out.count(key=("attached", how, f0, g, tuple(scen["pre"]), str(scen["post"]), tuple(x)), nontrivial=g != f0, kind="attached-later", how=how,
              state_frame="home" if g == f0 else "reframed")
    cur = tagname(sv.cov)
    if not mclose(np.array(sv.cov), expected(cur), tscale(expected(cur))):
        out.fail(attached_family(scen, cur) + ":at-attach", f"after the frame changes {scen['pre']} and sv.cov = c the covariance (labelled {cur}) is not R C R^T for that frame", scen, observed=np.array(sv.cov).tolist(), expected=expected(cur).tolist())
        return
    for n, (kind, t) in enumerate(scen["post"]):
        before = tagname(sv.cov)
        if kind == "h":
            sv.cov.frame = t
            want = t if t in LOCAL else canon(t)
            fam = attached_family(scen, t)
        else:
            follows = before == sv.frame.name
            sv.frame = t
            want = canon(t) if follows else before
            fam = attached_family(scen, "follows")
            if sv.frame.name != canon(t):
                out.fail(fam + ":state", f"op {n}: sv.frame = {t} did not move the state", scen, observed=sv.frame.name, expected=canon(t))
                return
        out.count(key=None, kind="attached-later-op", op=kind)
        got = np.array(sv.cov)
        if tagname(sv.cov) != want:
            out.fail(fam + ":tag", f"op {n} ({kind} {t}): the covariance attached with sv.cov = c carries the wrong frame label", scen, observed=tagname(sv.cov), expected=want)
            return
        if not mclose(got, expected(want), tscale(expected(want))):
            rel = float(np.abs(got - expected(want)).max() / max(np.abs(expected(want)).max(), 1e-300))
            out.fail(fam, f"op {n} ({kind} {t}): a covariance attached with sv.cov = c (state expressed in {g}, covariance built for it in {f0}) is not R C R^T "
                     "for the rotation from the axes it was given in onto the target axes (QSW/TNW of the inertial position and velocity)", scen,
                     observed={"rel_diff": rel, "matrix": got.tolist()}, expected=expected(want).tolist())
            return


STANDALONE_VIA = ["cov", "from", "orb-setter", "copy", "pickle", "detached", "derived", "attached"]
STANDALONE_MUT = ["form", "frame", "set", "fill", "imul", "date", "mixed"]
# forms defined for every position/velocity with non-zero angular momentum: a state of the heap correspondence keeps its form while it is
# re-framed, also into Earth-fixed frames where the relative velocity is easily hyperbolic (mean/eccentric anomalies are then NaN: C01's subject)
HEAP_FORMS = ["cartesian", "keplerian", "spherical", "cylindrical"]
SV_FORMS = ["cartesian", "keplerian", "keplerian_mean", "keplerian_eccentric", "keplerian_circular", "keplerian_mean_circular", "equinoctial", "spherical", "cylindrical", "tle"]


def gen_standalone(rng, via, mut):
    """a covariance made for a state object the caller keeps and goes on using: the state is re-expressed or overwritten IN PLACE
    (other form, other frame, other date, component assignment) between the creation of the covariance and its conversions"""
    f0 = rng.choice(NONROT)
    form0 = "cartesian" if rng.random() < 0.6 else rng.choice(SV_FORMS)

    def one(kind):
        if kind == "form":
            return ["form", rng.choice(SV_FORMS[1:] if rng.random() < 0.8 else SV_FORMS)]
        if kind == "frame":
            return ["frame", rng.choice([f for f in FRAMES if f != f0])]
        if kind == "set":
            return ["set", rng.randrange(6), rng.choice([0.0, -1.0, 0.5, 1.25])]
        if kind == "fill":
            return ["fill", gen_state(rng)]
        if kind == "imul":
            return ["imul", rng.choice([-1.0, 0.5, 1.1])]
        if kind == "date":
            d = gen_date(rng)
            return ["date", d]
        raise ValueError(kind)
    if via == "attached":
        mut = "form"            # an attached covariance follows a frame change of its state (other families); the other in-place writes change what the state IS
    kinds = [mut] if mut != "mixed" else [rng.choice(STANDALONE_MUT[:-1]) for _ in range(rng.randint(2, 3))]
    ops = [["m"] + one(k) for k in kinds]
    ops.append(["h", rng.choice(LOCAL) if (mut != "date" or rng.random() < 0.4) else rng.choice([f for f in FRAMES if f != f0])])
    for _ in range(rng.randint(0, 3)):
        r = rng.random()
        if r < 0.35 and via != "attached":
            ops.append(["m"] + one(rng.choice(STANDALONE_MUT[:-1])))
        elif r < 0.35:
            ops.append(["m"] + one("form"))
        else:
            ops.append(["h", rng.choice(FRAMES + LOCAL * 5)])
    if ops[-1][0] == "m":
        ops.append(["h", rng.choice(LOCAL)])
    if rng.random() < 0.3:
        ops.insert(0, ["h", rng.choice(FRAMES + LOCAL)])         # the covariance has already been used once before the state is touched
    return {"kind": "standalone", "date": gen_date(rng), "f0": f0, "form0": form0, "x": gen_state(rng), "cov": gen_cov(rng)[0].tolist(),
            "tag0": f0 if rng.random() < 0.75 else rng.choice(LOCAL), "via": via, "mut": mut, "ops": ops}


def mutate_state(sv, m):
    """one in-place modification of the caller's state object (never of the covariance, never through the covariance)"""
    import numpy as np
    k = m[0]
    if k in ("set", "fill", "imul") and str(sv.form) != "cartesian":
        sv.form = "cartesian"          # the numbers written below are meant as position / velocity components
    if k == "form":
        sv.form = m[1]
    elif k == "frame":
        sv.frame = m[1]
    elif k == "set":
        sv[m[1]] = float(sv[m[1]]) * m[2]
    elif k == "fill":
        sv.view(np.ndarray)[:] = m[1]
    elif k == "imul":
        sv *= m[1]
    elif k == "date":
        sv.date = mkdate(m[1])
    else:
        raise ValueError(k)


def check_standalone(out, scen):
    """the covariance C0 was made for the point of space-time (x, date, f0): whatever the caller does afterwards IN PLACE to the state
    object handed to the constructor / to the `orb` setter, every conversion must give R C0 R^T with R from the definition for THAT
    position, velocity and date, and the reference state the covariance holds must stay that cartesian state (a private one)"""
    import pickle
    import numpy as np
    from beyond.orbits.cov import Cov
    date, f0, x, via = scen["date"], scen["f0"], scen["x"], scen["via"]
    c0 = np.array(scen["cov"])
    home = home_matrix(scen["tag0"], x, c0)
    sv = make_sv(x, date, f0)
    if scen["form0"] != "cartesian":
        try:
            sv.form = scen["form0"]
        except Exception:  # noqa: BLE001 - the form does not exist for this orbit (C01's business): stay cartesian
            sv = make_sv(x, date, f0)
    if via in ("from", "orb-setter"):
        other = make_sv(x, date, f0)
        base = Cov(other, c0.copy(), tagobj(scen["tag0"]))
        if via == "from":
            c = Cov(sv, base, None)
        else:
            c = base
            c.orb = sv
    else:
        c = Cov(sv, c0.copy(), tagobj(scen["tag0"]))
        if via == "copy":
            c = c.copy()
        elif via == "pickle":
            c = pickle.loads(pickle.dumps(c))
        elif via == "detached":
            sv.cov = c
            del sv.cov
        elif via == "derived":
            c = 1.0 * c
        elif via == "attached":
            sv.cov = c
            c = sv.cov
    rot = {}

    def expected(t):
        if t not in rot:
            R = ref_rotation(x, date, f0, t)
            rot[t] = R @ home @ R.T
        return rot[t]
    mk = scen["mut"]
    out.count(key=("standalone", via, mk, f0, scen["form0"], str(scen["ops"]), tuple(x)), nontrivial=True, kind="standalone-state-mutated", via=via, mutation=mk,
              form0="cartesian" if scen["form0"] == "cartesian" else "other")
    xn = np.array(x)
    sx = np.array([np.abs(xn[:3]).max()] * 3 + [np.abs(xn[3:]).max() + 7.3e-5 * np.abs(xn[:3]).max()] * 3)
    done = []
    for n, op in enumerate(scen["ops"]):
        if op[0] == "m":
            try:
                mutate_state(sv, op[1:])
                done.append(op[1])
            except Exception:  # noqa: BLE001 - the caller's own operation failed on his state (e.g. no such form for these numbers): not the covariance's business
                pass
        else:
            t = op[1]
            c.frame = t
            want = t if t in LOCAL else canon(t)
            who = "cov.frame = " + t
            fam = "standalone-state-mutated:" + (done[-1] if done else "none") + ":" + ("local-target" if t in LOCAL else "frame-target")
            out.count(key=None, kind="standalone-hop")
            got = np.array(c)
            if tagname(c) != want:
                out.fail(fam + ":tag", f"op {n} ({who}): wrong frame label", scen, observed=tagname(c), expected=want)
                return
            if not mclose(got, expected(want), tscale(expected(want))):
                rel = float(np.abs(got - expected(want)).max() / max(np.abs(expected(want)).max(), 1e-300))
                out.fail(fam, f"op {n} ({who}) after the in-place state modifications {done}: the covariance (made via {via}) is not R C R^T for the position, velocity and date it was made for "
                         "(QSW/TNW of the inertial position and velocity)", scen, observed={"rel_diff": rel, "matrix": got.tolist()}, expected=expected(want).tolist())
                return
            # the reference state the covariance holds (public `cov.orb`): cartesian, the point of space-time it was made for
            o = c.orb
            bad = None
            if str(o.form) != "cartesian":
                bad = f"is in {o.form} form"
            elif o.frame.name != f0:
                bad = f"is expressed in {o.frame.name}"
            elif o.date != mkdate(date):
                bad = "has another date"
            elif not bool(np.all(np.abs(np.array(o) - xn) <= 1e-9 * sx)):
                bad = "has other coordinates"
            if bad:
                out.fail("standalone-state-mutated:reference-state:" + (done[-1] if done else "none"), f"op {n} ({who}): the reference state held by the covariance (made via {via}) {bad}", scen,
                         observed={"form": str(o.form), "frame": o.frame.name, "x": [float(v) for v in o]}, expected={"form": "cartesian", "frame": f0, "x": list(x)})
                return


def gen_directed(rng):
    f0 = rng.choice(NONROT)
    return {"kind": "directed", "date": gen_date(rng), "f0": f0, "x": gen_state(rng), "cov": gen_cov(rng)[0].tolist()}


def check_directed(out, scen):
    """every frame that can be visited, then QSW and TNW, with the covariance alone and with the covariance following its
    state; then back: the cheapest inputs on which a mis-tracked reference state or a wrong current->parent->local map shows"""
    import numpy as np
    from beyond.orbits.cov import Cov
    from beyond.frames.frames import get_frame
    date, f0, x = scen["date"], scen["f0"], scen["x"]
    c0 = np.array(scen["cov"])
    sc = tscale(c0)
    refs = {k: ref_local(k, x) @ c0 @ ref_local(k, x).T for k in LOCAL}
    only = scen.get("only")
    for via in [f for f in FRAMES if f != f0]:
        for k in LOCAL:
            for mode in ("cov-alone", "with-state", "cov.copy"):
                if only and only != [via, k, mode]:
                    continue
                sv = make_sv(x, date, f0)
                sv.cov = Cov(sv, c0.copy(), get_frame(f0))
                if mode == "with-state":
                    sv.frame = via
                else:
                    sv.cov.frame = via
                if mode == "cov.copy":
                    # Cov.copy(frame=k): a new object expressed in k, the original untouched; then the state carries the copy
                    src = via
                    if via in ("ITRF", "TEME", "MOD"):
                        src = [q for q in LOCAL if q != k][0]      # from the other local frame: QSW <-> TNW through Cov.copy
                        sv.cov.frame = src
                    orig, keep = sv.cov, np.array(sv.cov)
                    new = orig.copy(frame=k)
                    if tagname(orig) != src or not np.array_equal(np.array(orig), keep):
                        out.fail("cov-copy:original-touched", f"Cov.copy(frame={k}) modified the covariance it copies", dict(scen, only=[via, k, mode]),
                                 observed={"tag": tagname(orig)}, expected={"tag": src})
                        return
                    if tagname(new) != k:
                        out.fail("cov-copy:tag", f"Cov.copy(frame={k}) is not labelled {k}", dict(scen, only=[via, k, mode]), observed=tagname(new), expected=k)
                        return
                    sv.cov = new
                else:
                    sv.cov.frame = k
                out.count(key=("directed", f0, via, k, mode, tuple(x)), nontrivial=True, kind="directed", mode=mode, via="rotating" if via in ("ITRF", "PEF", "TIRF") else "inertial")
                inp = dict(scen, only=[via, k, mode])
                got = np.array(sv.cov)
                if not mclose(got, refs[k], tscale(refs[k])):
                    rel = float(np.abs(got - refs[k]).max() / max(np.abs(refs[k]).max(), 1e-300))
                    out.fail("path-dependent:local-after-reframe", f"{f0} -> {via} ({mode}) -> {k}: the QSW/TNW covariance is not R C R^T for the axes of the inertial position and velocity",
                             inp, observed={"rel_diff": rel, "matrix": got.tolist()}, expected=refs[k].tolist())
                    return
                if mode != "with-state":
                    sv.cov.frame = f0
                else:
                    sv.cov.frame = via
                    sv.frame = f0
                if tagname(sv.cov) != f0 or not mclose(np.array(sv.cov), c0, sc):
                    out.fail("back-conversion:local-after-reframe", f"{f0} -> {via} ({mode}) -> {k} -> back to {f0}: the original matrix is not restored", inp,
                             observed={"tag": tagname(sv.cov), "matrix": np.array(sv.cov).tolist()}, expected=c0.tolist())
                    return


def directed(out, rng):
    for _ in range(2):
        guarded(check_directed, out, gen_directed(rng))


def guarded(check, out, scen):
    """an exception nobody expects inside a family is a failing input of that family, not a harness error"""
    try:
        check(out, scen)
    except Exception as ex:  # noqa: BLE001
        import traceback
        tb = traceback.extract_tb(ex.__traceback__)
        site = next((f"{os.path.basename(fr.filename)}:{fr.name}" for fr in reversed(tb) if "beyond" in fr.filename), "harness")
        out.fail(f"{scen['kind']}:exception:{type(ex).__name__}:{site}", f"unexpected {type(ex).__name__} ({ex}) at {site}", scen, observed=f"{type(ex).__name__}: {ex}")


CHECKS = {"standalone": check_standalone, "multi": check_multi, "derived": check_derived, "ctor": check_ctor, "unpickled": check_unpickled, "attached": check_attached, "directed": check_directed}


def several_objects(out, rng, big, early=False):
    def families():
        for _ in range(250 if big else 25):
            yield check_multi, gen_multi(rng)
        for how in DERIVE_HOW:
            for _ in range(20 if big else 3):
                yield check_derived, gen_derived(rng, how)
        for vkind in INT_KINDS:
            for _ in range(10 if big else 2):
                yield check_ctor, gen_ctor(rng, vkind)
        for _ in range(40 if big else 6):
            yield check_unpickled, gen_unpickled(rng)
        if big:
            for how in ATTACH_HOW:
                for _ in range(40):
                    yield check_attached, gen_attached(rng, how)
    for n, (check, scen) in enumerate(families()):
        guarded(check, out, scen)
        if early and n % 10 == 9 and unlisted(out):
            out.notes.append("widened sweep over several objects stopped: failing input found")
            return


def named_tags(out, rng, n):
    """`Cov(orb, values, frame)` documents `frame (str)`: a covariance created with the *name* of its frame
    must convert, and follow its state, like one created with the Frame object"""
    import numpy as np
    from beyond.orbits.cov import Cov
    from beyond.frames.frames import get_frame
    for _ in range(n):
        f0 = rng.choice(NONROT)
        x = gen_state(rng)
        date = gen_date(rng)
        c0, sp, sv_, rank = gen_cov(rng)
        s = scales(c0, sp, sv_)
        t = rng.choice([f for f in FRAMES if f != f0] + LOCAL)
        inp = {"start": f0, "seq": [t], "x": x, "date": date, "cov": c0.tolist(), "tag_given_as": "str"}
        ref, _ = make_cov(x, date, f0, c0)
        ref.frame = t
        sv = make_sv(x, date, f0)
        out.count(key=("named", f0, t, tuple(x)), kind="named-tag-hop")
        try:
            c = Cov(sv, c0.copy(), f0)
            c.frame = t
            if not mclose(np.array(c), np.array(ref), s):
                out.fail("string-frame-tag:wrong-matrix", "a covariance created with the name of its frame converts differently from one created with the Frame object", inp,
                         observed=np.array(c).tolist(), expected=np.array(ref).tolist())
        except Exception as e:  # noqa: BLE001 - any exception here is the failure being recorded
            out.fail("string-frame-tag:" + type(e).__name__, "a covariance created with the name of its frame (documented `frame (str)`) cannot be converted", inp,
                     observed=f"{type(e).__name__}: {e}", expected=np.array(ref).tolist())
        g = rng.choice([f for f in FRAMES if f != f0])
        sv = make_sv(x, date, f0)
        sv.cov = Cov(sv, c0.copy(), f0)
        out.count(key=("named-follow", f0, g, tuple(x)), kind="named-tag-follows")
        try:
            sv.frame = g
            tag = sv.cov.frame if isinstance(sv.cov.frame, str) else sv.cov.frame.name
            if tag != g:
                out.fail("string-frame-tag:not-following", "a covariance created with the name of its state's frame does not follow the state into another frame (it keeps its label and values)",
                         dict(inp, seq=[g]), observed={"state": sv.frame.name, "cov": tag}, expected={"state": g, "cov": g})
        except Exception as e:  # noqa: BLE001
            out.fail("string-frame-tag:" + type(e).__name__, "state with a name-tagged covariance cannot change frame", dict(inp, seq=[g]), observed=f"{type(e).__name__}: {e}")


def laws(out, rng, n):
    """the hypotheses of the theorems, evaluated on the real conversion matrices"""
    import numpy as np
    from beyond.frames.frames import get_frame
    for _ in range(n):
        dl = gen_date(rng)
        date = mkdate(dl)
        a, b, c = (rng.choice(FRAMES) for _ in range(3))
        oa, ob, oc = (get_frame(f).orientation for f in (a, b, c))
        mab, mbc, mac = oa.convert_to(date, ob), ob.convert_to(date, oc), oa.convert_to(date, oc)
        out.count(key=("law", a, b, c, tuple(dl)), kind="conv-law")
        s = np.array([1.0] * 3 + [1e-4] * 3)
        w = np.outer(s, 1 / s)
        if np.abs((mbc @ mab - mac) / w).max() > 1e-9:
            out.fail("conv-law:composition", "M(b->c) M(a->b) != M(a->c) for the real orientation matrices", {"a": a, "b": b, "c": c, "date": dl},
                     observed=float(np.abs((mbc @ mab - mac) / w).max()))
        # to_local is equivariant under the rate-free conversions: to_local(k, M x) = to_local(k, x) M^T
        if np.abs(mab[3:, :3]).max() == 0:
            from beyond.frames.local import to_local
            x = np.array(gen_state(rng))
            k = rng.choice(LOCAL)
            l1, l2 = to_local(k, mab @ x), to_local(k, x) @ mab.T
            out.count(key=None, kind="local-equivariance")
            if np.abs(l1 - l2).max() > 1e-9:
                out.fail("local-equivariance", "to_local(M x) != to_local(x) M^T for a rate-free conversion M", {"a": a, "b": b, "date": dl, "x": x.tolist(), "local": k},
                         observed=float(np.abs(l1 - l2).max()))
        if not np.array_equal(oa.convert_to(date, oa), np.identity(6)):
            out.fail("conv-law:identity", "M(a->a) is not the identity", {"a": a, "date": dl})
        if np.abs(mab[:3, 3:]).max() != 0 or np.abs(mab[:3, :3] @ mab[:3, :3].T - np.identity(3)).max() > 1e-12:
            out.fail("conv-law:shape", "M(a->b) has a non-zero upper-right block or a non-orthogonal position block", {"a": a, "b": b, "date": dl})


def replay(f):
    """re-run the recorded input against the current tree; reproduces iff the same family fails again"""
    import numpy as np
    from beyond.orbits.cov import Cov
    from beyond.frames.frames import get_frame
    out = Outcome()
    inp = f["input"]
    fam = f["family"]
    if isinstance(inp, dict) and inp.get("kind") in CHECKS:
        tmp = Outcome()
        guarded(CHECKS[inp["kind"]], tmp, inp)
        out.failures = [g for g in tmp.failures if g["family"] == fam]
        return out
    if fam.startswith("conv-law") or fam == "local-equivariance":
        tmp = Outcome()
        import random
        laws(tmp, random.Random(0), 40)
        for g in tmp.failures:
            if g["family"] == fam:
                out.failures.append(g)
        return out
    c0 = np.array(inp["cov"])
    date, x, f0, seq = inp["date"], inp["x"], inp["start"], inp["seq"]
    d = np.sqrt(np.abs(np.diag(c0)))
    s = np.array([d[:3].max()] * 3 + [d[3:].max() + 7.3e-5 * d[:3].max()] * 3) + 1e-300
    if fam.startswith("string-frame-tag"):
        tmp = Outcome()
        sv = make_sv(x, date, f0)
        try:
            if fam.endswith("not-following"):
                sv.cov = Cov(sv, c0.copy(), f0)
                sv.frame = seq[0]
                bad = (sv.cov.frame if isinstance(sv.cov.frame, str) else sv.cov.frame.name) != seq[0]
            else:
                c = Cov(sv, c0.copy(), f0)
                c.frame = seq[0]
                bad = False
        except Exception:  # noqa: BLE001
            bad = True
        if bad:
            out.fail(fam, f["what"], inp)
        return out
    if "mids" in inp:
        # state hops, then (optionally) a local target on the followed covariance
        sv = make_sv(x, date, f0)
        sv.cov = Cov(sv, c0.copy(), get_frame(f0))
        for g in inp["mids"]:
            sv.frame = g
        single, _ = make_cov(x, date, f0, c0)
        single.frame = inp["mids"][-1]
        bad = not mclose(np.array(sv.cov), np.array(single), s)
        if "local" in inp:
            sv.cov.frame = inp["local"]
            R = ref_local(inp["local"], x)
            bad = not mclose(np.array(sv.cov), R @ c0 @ R.T, s)
        if bad:
            out.fail(fam, f["what"], inp)
        return out
    if "g" in inp and fam.startswith("follows-state"):
        sv = make_sv(x, date, f0)
        sv.cov = Cov(sv, c0.copy(), get_frame(f0))
        sv2 = sv.copy(frame=inp["g"])
        single, _ = make_cov(x, date, f0, c0)
        single.frame = inp["g"]
        if sv2.cov is None or sv2.cov.frame is not get_frame(inp["g"]) or not mclose(np.array(sv2.cov), np.array(single), s) \
                or not np.array_equal(np.array(sv.cov), c0):
            out.fail(fam, f["what"], inp)
        return out
    cov, _ = make_cov(x, date, f0, c0)
    ev0 = np.linalg.eigvalsh(c0[:3, :3])
    per_hop = False
    for t in seq:
        cov.frame = t
        m = np.array(cov)
        ev = np.linalg.eigvalsh((m[:3, :3] + m[:3, :3].T) / 2)
        n = m / np.outer(s, s)
        if not mclose(m, m.T, s, 1e-12) or np.linalg.eigvalsh((n + n.T) / 2).min() < -1e-9 * max(1.0, np.abs(n).max()) \
                or not np.all(np.abs(ev - ev0) <= 1e-9 * max(ev0.max(), 1e-300)):
            per_hop = True
    single, _ = make_cov(x, date, f0, c0)
    single.frame = seq[-1]
    R = ref_local(seq[-1], x) if seq[-1] in LOCAL else state_jacobian(x, date, f0, seq[-1])
    final = np.array(cov)
    cov.frame = f0
    verdict = {
        "path-dependent": not mclose(final, np.array(single), s),
        "back-conversion": not mclose(np.array(cov), c0, s),
        "single-hop-reference": not mclose(np.array(single), R @ c0 @ R.T, s),
        "asymmetric": per_hop, "not-psd": per_hop, "pos-spectrum": per_hop,
    }
    if verdict.get(fam.split(":")[0], True if fam.split(":")[0] not in verdict else False):
        out.fail(fam, f["what"], inp)
    return out
