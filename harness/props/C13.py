"""C13 — CCSDS OPM/OEM/OMM/TDM messages round-trip in KVN and XML."""
import ast
import json
import os
import traceback
from datetime import datetime, timedelta as pytd

from harness import core
from harness.core import Outcome

ID = "C13"
LEAN_TARGETS = ["BeyondVerif.Props.C13", "BeyondVerif.Props.C13Parts", "BeyondVerif.Props.C13Opm", "BeyondVerif.Props.C13Omm",
                "BeyondVerif.Props.C13Groups", "BeyondVerif.Props.C13Ext", "BeyondVerif.Props.C13Wf", "BeyondVerif.Props.C13Oem", "BeyondVerif.Props.C13Tdm",
                "BeyondVerif.Props.C13KvnDict", "BeyondVerif.Props.C13Kvn", "BeyondVerif.Props.C13KvnOem", "BeyondVerif.Props.C13KvnTdm",
                "BeyondVerif.Props.C13Agree", "BeyondVerif.Witness.C13", "BeyondVerif.Witness.C13Ext"]
THEOREMS = [
    "BeyondVerif.C13.recurseKids_group",
    "BeyondVerif.C13.iterGroup_promote",
    "BeyondVerif.C13.iterGroup_single_fails",
    "BeyondVerif.C13.xml_group_roundtrip",
    "BeyondVerif.C13.covRead_matches_writers",
    "BeyondVerif.C13.oemCovRows_match_writers",
    "BeyondVerif.C13.frames_roundtrip",
    "BeyondVerif.C13.frameTable_facts",
    "BeyondVerif.C13.frameOut_ok",
    "BeyondVerif.C13.opmSsb_wf",
    "BeyondVerif.C13.cov_frame_alias_roundtrip",
    "BeyondVerif.C13.man_frame_alias_roundtrip",
    "BeyondVerif.C13.written_units_known",
    "BeyondVerif.C13.man_xml_roundtrip",
    "BeyondVerif.C13.mans_xml_roundtrip",
    "BeyondVerif.C13.manFrameBack_ok",
    "BeyondVerif.C13.recurseKids_group0",
    "BeyondVerif.C13.ud_xml_roundtrip",
    "BeyondVerif.C13.sv_xml_roundtrip",
    "BeyondVerif.C13.cov_xml_roundtrip",
    "BeyondVerif.C13.covFrameBack_ok",
    "BeyondVerif.C13.opm_data_kids",
    "BeyondVerif.C13.read_group_dicts",
    "BeyondVerif.C13.opm_xml_load_dump_id",
    "BeyondVerif.C13.opmEx_wf",
    "BeyondVerif.C13.covFromXml_of_lookup",
    "BeyondVerif.C13.xmlUd_of_lookup",
    "BeyondVerif.C13.omm_xml_load_dump_id",
    "BeyondVerif.C13.points_xml_roundtrip",
    "BeyondVerif.C13.oem_covs_xml_group",
    "BeyondVerif.C13.obs_xml_roundtrip",
    "BeyondVerif.C13.observations_xml_roundtrip",
    "BeyondVerif.C13.seg_xml_load_dump_id",
    "BeyondVerif.C13.oem_xml_load_dump_id",
    "BeyondVerif.C13.tdm_xml_load_dump_id",
    "BeyondVerif.C13.tdm_xml_single_path",
    "BeyondVerif.C13.kvn2dict_blocks",
    "BeyondVerif.C13.opm_kvn_load_dump_id",
    "BeyondVerif.C13.omm_kvn_load_dump_id",
    "BeyondVerif.C13.opm_kvn_xml_agree",
    "BeyondVerif.C13.omm_kvn_xml_agree",
    "BeyondVerif.C13.oem_kvn_load_dump_id",
    "BeyondVerif.C13.tdm_kvn_load_dump_id",
    "BeyondVerif.C13.oem_kvn_xml_agree",
    "BeyondVerif.C13.tdm_kvn_xml_agree",
    "BeyondVerif.C13.opm_redump_total",
    "BeyondVerif.C13.omm_kvn_needs_no_tle",
    "BeyondVerif.C13.omm_redump_total",
    "BeyondVerif.C13.oem_redump_total",
    "BeyondVerif.C13.tdm_kvn_single_path",
    "BeyondVerif.C13.tdm_redump_total_partial",
    "BeyondVerif.C13.stamp_roundtrip_same_scale",
    "BeyondVerif.C13.stamp_instant_of_converting",
    "BeyondVerif.C13.stamp_instant_iff",
    "BeyondVerif.C13.writers_convert_scale",
    "BeyondVerif.C13.stamp_instant_roundtrip",
    "BeyondVerif.C13.segsBack_eq",
    "BeyondVerif.C13.segs_instants_roundtrip",
    "BeyondVerif.C13.segs_roundtrip_id",
    "BeyondVerif.C13.segs_message_scale_shifts",
    "BeyondVerif.C13.writers_scale_of_segment",
    "BeyondVerif.C13.segs_roundtrip",
    "BeyondVerif.C13.oem_dump_any_form",
    "BeyondVerif.C13.center_name_roundtrip",
    "BeyondVerif.C13.center_name_roundtrip_xml",
    "BeyondVerif.C13.center_pats_agree",
    "BeyondVerif.C13.centre_names_have_no_blank",
    "BeyondVerif.C13.man_ignition_tables",
    "BeyondVerif.C13.thrust_window_roundtrip",
    "BeyondVerif.C13.date_attr_shifts_window",
    "BeyondVerif.C13.ud_prefix_tables",
    "BeyondVerif.C13.ud_key_roundtrip",
    "BeyondVerif.C13W.mixed_scale_instant_ok",
    "BeyondVerif.C13W.mixed_scale_moves_instant",
    "BeyondVerif.C13W.oem_xml_noncartesian_form_ok",
    "BeyondVerif.C13W.opm_keplerian_maneuver_lost",
    "BeyondVerif.C13W.xml_lagrange_centre_ok",
    "BeyondVerif.C13W.xml_lagrange_centre_glued",
    "BeyondVerif.C13W.lagrange_multiword_body_ok",
    "BeyondVerif.C13W.lagrange_multiword_body_name_lost",
    "BeyondVerif.C13W.solar_system_barycenter_ok",
    "BeyondVerif.C13W.man_stop_dated_ok",
    "BeyondVerif.C13W.oem_xml_one_point_ok",
    "BeyondVerif.C13W.oem_kvn_one_point_ok",
    "BeyondVerif.C13W.oem_xml_two_points_ok",
    "BeyondVerif.C13W.oem_xml_one_cov_ok",
    "BeyondVerif.C13W.oem_kvn_one_cov_ok",
    "BeyondVerif.C13W.opm_qsw_man_ok",
    "BeyondVerif.C13W.opm_tnw_man_ok",
    "BeyondVerif.C13W.opm_one_user_defined_ok",
    "BeyondVerif.C13W.opm_empty_user_defined_ok",
    "BeyondVerif.C13W.omm_xml_one_user_defined_ok",
    "BeyondVerif.C13W.omm_loaded_can_be_dumped_again",
    "BeyondVerif.C13W.tdm_one_obs_ok",
    "BeyondVerif.C13W.tdm_doppler_ok",
    "BeyondVerif.C13W.tdm_elevation_without_azimuth_ok",
    "BeyondVerif.C13W.tdm_two_paths_reload_as_list",
]
LEVEL_TEXT = ("Lean theorems over a structural model of beyond/io/ccsds (element trees, tokenised KVN lines, xml2dict / kvn2dict, the OEM / TDM line state "
              "machines, the eight readers/writers; frames: the regenerated registry of the ten Earth-centred frames and of the frames centred on solar-system / JPL bodies and Lagrange points). load_dump_id is proved for WHOLE messages of all four types in BOTH encodings, universally quantified, by "
              "induction over the lists of segments / points / covariance blocks / maneuvers / observations / user-defined fields: opm_xml_load_dump_id, "
              "opm_kvn_load_dump_id (kvn2dict groups the MAN_ lines into one dict per maneuver, comment attached), omm_xml_load_dump_id, omm_kvn_load_dump_id, "
              "oem_xml_load_dump_id, oem_kvn_load_dump_id (each covariance block attached to the point of the same epoch, any number of segments), "
              "tdm_xml_load_dump_id, tdm_kvn_load_dump_id (participants numbered in order of first appearance, PATH, split by path; the KVN metadata dict never "
              "reset between segments). From them: kvn_xml_agree for the four types (opm_/omm_/oem_/tdm_kvn_xml_agree) and redump_total (what either reader "
              "returns is accepted by both writers and is a fixed point of dump-then-load: opm_/omm_/oem_redump_total; tdm_redump_total_partial for a single "
              "path). Dates: every date of a message is converted to its TIME_SYSTEM before printing (regenerated: in_scale), so a date labelled like the "
              "message comes back identical and a date labelled otherwise comes back as the same instant (stamp_roundtrip_same_scale, stamp_instant_roundtrip, "
              "stamp_instant_iff); a message of several segments (OEM ephemerides, TDM signal paths), each labelled with the scale of its own first date: the dates of a segment are converted to the label of THAT segment "
              "(regenerated from the AST: which object the second argument of in_scale is taken from), so every date of every segment comes back at the same instant under its segment's label, and identical when labelled like its segment "
              "(segs_roundtrip, segs_roundtrip_id; segs_message_scale_shifts: with one scale for the whole message the instants of a segment are kept iff its clock and the message's show the same reading); both OEM writers accept points in any form (oem_dump_any_form); CENTER_NAME of every centre the library can create (analytical bodies, JPL bodies of one to three words, Lagrange points) "
              "comes back as the frame name through the KVN writers' CamelCase split and the readers' title().replace (center_name_roundtrip, by `decide` over the names regenerated from the live objects; "
              "center_name_roundtrip_xml: both writers test the same regenerated patterns; centre_names_have_no_blank); the thrust window [start, stop) of a continuous maneuver dated by start / median / stop comes back "
              "(thrust_window_roundtrip). Tables regenerated from the source on every run and checked by `decide`: covariance key matrix, OEM row keys, the ten "
              "frames, covariance and maneuver frame aliases, written units, which groups each reader wraps, the date attribute printed as MAN_EPOCH_IGNITION, the "
              "readers' date_pos, whether the writers convert time scales / forms / Keplerian maneuvers. Exact differential correspondence (message tokens at "
              "written precision, error kinds, clock readings) of the compiled model with the real dumps/loads for all four types x both encodings x re-dump.")
LEVEL_NOTE = ("whole-message theorems hold for well-formed objects: non-empty texts, a registered frame (the ten Earth-centred ones and every frame centred on a solar-system body, a body of the JPL test kernels or a Lagrange point: regenerated table; an OMM: Earth-centred), covariance / maneuver frames own, QSW or TNW, "
              "distinct epochs inside an ephemeris, at most nine participants per path, one time scale per message in the structural model (other labels, one label per segment: Model/CcsdsExt.lean); two clauses are false of the current code and "
              "kept as a `_partial` theorem / kernel-checked counter-witness (open findings: multi-path TDM reloads as a list dumps refuses; "
              "Keplerian maneuvers not written); float formatting/parsing, Date arithmetic, lxml and the splitting of KVN text into tokens are parameters of the "
              "model (exercised by the correspondence and the oracle); Lean kernel + propext/Classical.choice/Quot.sound")
TECHNIQUE = ("Lean 4 proof by induction over line / sibling / segment lists + kernel `decide` on tables regenerated from the Python AST and on concrete messages; "
             "exact model/implementation correspondence through the line-protocol driver")
TRUSTED = [
    "harness/props/C13.py read_tables(): AST extraction of units_dict keys, covariance key matrix / element names / key spelling, frame alias rules of "
    "writers (and the helpers they call) and readers, OEM KVN covariance row keys, OMM theories, TDM writer names / reader keys / metadata triggers, which XML groups each reader "
    "wraps into a list, whether the OMM KVN writer needs data.tle and whether dumps accepts a list of sets -> Generated/CcsdsTables.lean; frame table from the live frame objects; "
    "date attribute of a ContinuousMan printed as MAN_EPOCH_IGNITION, date_pos used by the readers, presence of a time-scale conversion, the object the reference scale of `in_scale(<point>.date, …)` is taken from (the segment / the whole message; an unrecognised form is an extraction error) / form conversion / Keplerian handling in the writers "
    "-> Generated/CcsdsExtTables.lean",
    "float formatting (the writers' format specs, re-applied by the harness to the reloaded object) and float()/strptime parsing: texts are opaque tokens in the model",
    "lxml serialisation/parsing (element tree <-> text, pretty_print whitespace) and the splitting of KVN text into lines, `key = value [unit]` and whitespace-separated rows",
    "correspondence: real dumps/loads (format by argument and by configuration) vs compiled Lean model on identical messages; exact comparison of all restored fields as written text, of exception kinds, "
    "of restored clock readings / labels (ext stamp; ext segs: messages of 2-3 segments, each in its own scale, some dates labelled otherwise, TDM paths interleaved or not), thrust windows (ext window), form and Keplerian handling (ext form, ext kepl), user-defined keys (ext udkey), "
    "CENTER_NAME written and frame name rebuilt for every centre x both encodings (ext center)",
]
ASSUMPTIONS = [
    "Model/Ccsds.lean and Model/CcsdsExt.lean are hand-written, branch for branch after the Python; they are tied to the code by the regenerated tables and the exact correspondence run",
    "unit conversion factors (units_dict values), Date arithmetic to the microsecond (incl. `date - duration / 2`), time-scale offsets and numpy float parsing are outside the model (offsets are parameters of "
    "Model/CcsdsExt.lean); the oracle checks restored values with the property's tolerances (1 us, 1 mm, 1 mm/s, 1e-10 relative covariance)",
    "free texts (names, comments, user-defined values) are non-empty, do not start or end with blanks and contain none of '=', '[', 'COMMENT', line breaks; only Earth-centred frames (the ten of the quantifier); at most 9 TDM participants per path",
    "KVN user-defined keys are modelled as a sub-dict instead of a key prefix (the prefix arithmetic `k[13:]` is exercised by the oracle and the correspondence on names with underscores, digits, lower case, names that are "
    "prefixes of each other or equal to CCSDS keywords); `key.startswith('MAN_')` is modelled on the seven MAN_ keys the writers produce",
    "a secondary date labelled in another time scale than the message can only keep its instant, not its label (one TIME_SYSTEM per message / per segment): the oracle asks for the instant to 1 us and for the label only when it is the one of its segment (OEM: ephemeris, TDM: path); "
    "`ext segs` is run on the scales whose clocks differ by a constant (UTC, TAI, TT, GPS, no leap second inside a message); UT1 / TDB labels go through `ext stamp` (one date) and the oracle",
]
NOT_COVERED = [
    "covariance / maneuver frames given as the NAME of an inertial frame (the orbit's own or another one): generated, checked by the oracle and the exact correspondence, but outside the well-formedness predicates of the whole-message theorems (own, QSW, TNW)",
    "the frame registry is dynamic: the regenerated frame table holds the ten Earth-centred frames and the frames the harness creates around other centres (beyond.env.solarsystem, beyond.env.jpl on the library's test kernels, "
    "beyond.frames.lagrange for seven body pairs); another kernel or another Lagrange pair gives other names (the string theorem center_name_roundtrip is checked on the regenerated list only); a frame whose name differs from its centre's "
    "(the JPL frame `Earth` = EME2000 under another name; a Lagrange frame given a custom name) is read back as the frame named after the centre and is left out; where two sources create a frame of the same name (Moon, Sun) the table keeps one REF_FRAME text; "
    "Keplerian and other mu-dependent forms do not exist at a Lagrange point (no body); OMM ephemeris type / classification (XML writes constants 0 / U), continuous maneuvers shorter than 0.5 ms (reload as impulsive), measures without a path (PVT: X, Y, ... are silently not written)",
    "string-level corner cases: texts containing '=', '[', 'COMMENT', leading/trailing blanks or that are empty/whitespace-only",
    "reader-only notations (default units, RTN, day-of-year dates, dates without fraction, comment lines, acceleration columns, theory SGP4, missing EPHEMERIS_TYPE / CLASSIFICATION_TYPE, centre in lower case) are checked by the oracle "
    "(`variants`: same object decoded, re-dump possible) but not modelled; what RANGE_UNITS = s means is outside the statement: the writers never produce it, so no round trip of an object beyond wrote is involved, and the Range read from such a foreign TDM "
    "does round-trip through dumps/loads as it was read (lead for the maintainers, not a C13 finding: tdm.py multiplies seconds by km * c with c in m/s, 1000 times too large)",
    "clauses false of the current code (open findings, proposed fixes not applied): C13-tdm-multi-path-reloads-as-list; C13-opm-keplerian-maneuver",
]
OPEN = [
    "generalise CovWf / OpmWf to covariance / maneuver frame tags that are names of other inertial frames (alias tables are the identity on them)",
    "tdm_redump_total for several paths (false of the current code: open finding C13-tdm-multi-path-reloads-as-list)",
    "a string-level model of the KVN tokenisation (`key = value [unit]`, COMMENT lines) instead of tokenised lines (the USER_DEFINED_ prefix is modelled separately: ud_key_roundtrip)",
]
RULE = ("correspondence: objects generated from one PRNG (OPM: 10 frames x 6 scales, StateVector or Orbit (Kepler / J2 / no propagator) in cartesian / keplerian / spherical / keplerian_mean / equinoctial / cylindrical form, "
        "name/id as attributes, keyword arguments or absent, originator, kep on/off, covariance absent/own/own by name/QSW/TNW/other inertial frame, 0-3 maneuvers ImpulsiveMan / ContinuousMan (dv or accel; date_pos start/median/stop, any case) "
        "in None/QSW/TNW (any case)/own frame by name/other inertial frame with comment absent/empty/one word/several words, user-defined fields absent/empty/1/2-4 with underscores, digits, lower case, CCSDS keywords, one a prefix of another; "
        "OMM: via Tle or direct, classification / ephemeris type, covariance, user-defined; OEM: 1-3 segments of 1-12 points with 0..n covariances, linear/lagrange, orders, name absent; TDM: 1-3 paths of 2-4 hops with 2-3 participants, 1-10 epochs, "
        "Range/Azimut/Elevation(/Doppler), built by append or from a list, the paths one after the other or interleaved, later paths starting with a lag), restricted to one time scale / cartesian points / non-Keplerian maneuvers for the structural model (frames centred elsewhere than on the Earth included), format by fmt= (4/5) or configuration (1/5); per object 2 round trips + 4 re-dumps; "
        "plus the ext operations: thrust window (date_pos x duration x date), stamp (site x TIME_SYSTEM x scale), segs (OEM / TDM x 2-3 segments x scale per segment x odd labels x interleaving), form (fmt x form), kepl (kind), udkey (name), center (every centre x fmt); a case is one request line, distinct = distinct line. "
        "oracle: the same generators (plus Keplerian maneuvers, non-cartesian OEM points, dates labelled in another scale, for a TDM of several paths with probability 0.5 one time scale per path (station), and for OPM / OEM with probability 0.12 a frame centred on a solar-system body, "
        "a body of the JPL test kernels or a Lagrange point) and the fixed witness objects; loads(dumps(x)) compared with the ORIGINAL object field by field with the property's tolerances "
        "(epochs: label + clock, or instant for a secondary date labelled otherwise; thrust window start and stop; delta-v; effect of the maneuver on the orbit; frames), KVN vs XML agreement, re-dump of everything loaded, and for every written text its "
        "variants in the optional notations the readers accept (same object, re-dump); failure family = exception type @ innermost beyond/io/ccsds function (or field that differs) + input class")

FRAMES = ["EME2000", "MOD", "TOD", "TEME", "PEF", "ITRF", "TIRF", "CIRF", "GCRF", "G50"]
SCALES = ["UTC", "TAI", "TT", "GPS", "UT1", "TDB"]
T0 = datetime(2000, 1, 1)
CCSDS_DIR = os.path.join(core.REPO, "beyond", "io", "ccsds")


# ---------------------------------------------------------------- specs (plain JSON-able descriptions of the objects)

def _name(rng, spaces=True):
    alpha = "ABCDEFGHIJKLMNOPQRSTUVWXYZabcdefghijklmnopqrstuvwxyz0123456789-()"
    n = rng.randint(1, 10)
    s = "".join(rng.choice(alpha) for _ in range(n))
    if spaces and n > 3 and rng.random() < 0.3:
        k = rng.randint(1, n - 2)
        s = s[:k] + " " + s[k + 1:]
    return s


def _epoch(rng):
    # 2001 .. 2029, integer microseconds of the label clock
    return rng.randrange(400 * 86400, 10900 * 86400) * 10**6 + rng.choice([0, 0, 1, 999999, rng.randrange(10**6), 500000])


def _state(rng):
    import math
    r = rng.uniform(6.6e6, 4.5e7)
    v = math.sqrt(3.986e14 / r) * rng.uniform(0.9, 1.1)
    def unit():
        while True:
            x = [rng.gauss(0, 1) for _ in range(3)]
            n = math.sqrt(sum(a * a for a in x))
            if n > 0.1:
                return [a / n for a in x]
    p, w = unit(), unit()
    st = [r * a for a in p] + [v * a for a in w]
    if rng.random() < 0.1:
        st[rng.randrange(6)] = 0.0
    if rng.random() < 0.1:
        st[rng.randrange(3)] = round(st[rng.randrange(3)])  # exact metre
    return st


def _cov(rng, own="EME2000"):
    if rng.random() < 0.5:
        return None
    a = [[rng.gauss(0, 1) * (30.0 if i < 3 else 0.03) for i in range(6)] for _ in range(6)]
    m = [[sum(a[k][i] * a[k][j] for k in range(6)) for j in range(6)] for i in range(6)]
    if rng.random() < 0.15:
        i, j = rng.randrange(6), rng.randrange(6)
        m[i][j] = m[j][i] = 0.0
    return {"frame": rng.choice(["own", "own", "QSW", "TNW", "QSW", "TNW", "own-by-name", rng.choice([f for f in FRAMES if f != own])]), "vals": m}


MAN_KINDS = ["I", "C"] * 7 + ["KI", "KC"]
DATE_POS = ["start", "start", "median", "stop", "Median", "STOP"]


def _other_scale(rng, scale):
    return rng.choice([x for x in SCALES if x != scale])


def _mans(rng, epoch, kmax=3, own="EME2000", scale="UTC"):
    """every constructor option of ImpulsiveMan / ContinuousMan / Keplerian*Man: frame None / QSW / TNW (any case) / the orbit's own
    frame by name / another inertial frame by name; comment absent / empty / one word / several words; continuous thrust given by dv
    or by accel, dated by its start, median or stop; rarely a date labelled in another time scale than the orbit's"""
    k = rng.choice([0, 0, 1, 1, 2, kmax])
    out = []
    for i in range(k):
        kind = rng.choice(MAN_KINDS)
        cont = kind in ("C", "KC")
        m = {
            "kind": kind,
            "epoch": epoch + rng.randrange(1, 10**5) * 10**6 + rng.randrange(10**6),
            "dur_ms": 0 if not cont else rng.choice([1, 1000, 180000, 500, 86400000, 172800250, rng.randrange(1, 10**7)]),
            "date_pos": rng.choice(DATE_POS) if cont else "start",
            "by": rng.choice(["dv", "dv", "accel"]) if kind == "C" else "dv",
            "frame": rng.choice([None, None, "QSW", "TNW", "qsw", "tnw", own, own.lower(), rng.choice([f for f in FRAMES if f != own])]),
            "comment": rng.choice([None, None, "", "Maneuver %d" % (i + 1), _name(rng), "apogee burn no. %d (planned)" % i]),
            "dv": [round(rng.uniform(-300, 300), rng.choice([0, 3, 6])) for _ in range(3)],
            "scale": _other_scale(rng, scale) if rng.random() < 0.04 else None,
        }
        if kind in ("KI", "KC"):
            m["frame"] = None
            m["dkep"] = {"da": rng.choice([0.0, rng.uniform(-5e4, 5e4)]), "di": rng.choice([0.0, rng.uniform(-0.01, 0.01)]),
                         "dOmega": rng.choice([0.0, rng.uniform(-0.01, 0.01)])}
            if not any(m["dkep"].values()):
                m["dkep"]["da"] = 1000.0
        out.append(m)
    return out


def _ud_key(rng):
    """names as the CCSDS examples have them: several words joined by underscores, digits, also lower case"""
    word = lambda: "".join(rng.choice("ABCDEFGHIJKLMNOPQRSTUVWXYZ") for _ in range(rng.randint(1, 6)))
    r = rng.random()
    if r < 0.3:
        c = word()
    elif r < 0.55:
        c = "_".join(word() for _ in range(rng.randint(2, 4)))                      # EARTH_MODEL
    elif r < 0.7:
        c = word() + "_" + str(rng.randint(0, 99)) + rng.choice(["", "_" + word()])    # TANK_1_MASS
    elif r < 0.8:
        c = word() + str(rng.randint(0, 9))
    elif r < 0.9:
        c = rng.choice(["USER_DEFINED_X", "MAN_" + word(), "EPOCH", "X", "COMMENT_" + word(), "OBJECT_NAME", "CX_X_" + word()])
    else:
        c = _name(rng, spaces=False).replace("(", "").replace(")", "").replace("-", "_")
        if not c or not c[0].isalpha():
            c = "K" + c
    if rng.random() < 0.15:
        c = c.lower()
    elif rng.random() < 0.1:
        c = c.title()
    return c


def _ud(rng):
    r = rng.random()
    if r < 0.42:
        return None
    if r < 0.45:
        return {}
    k = 1 if r < 0.65 else rng.randint(2, 4)
    keys = []
    while len(keys) < k:
        c = _ud_key(rng)
        if c and c not in keys:
            keys.append(c)
    if k > 1 and rng.random() < 0.3:
        keys[1] = keys[0] + "_" + str(rng.randint(1, 9))          # one name a prefix of the other
    return {c: rng.choice([_name(rng), "%.3f" % rng.uniform(-100, 100), "WGS-84", _name(rng) + " " + _name(rng, False)]) for c in keys}


FORMS = ["cartesian", "cartesian", "keplerian", "spherical", "keplerian_mean", "equinoctial", "cylindrical"]
FORMS_OEM = ["cartesian"] * 8 + ["keplerian", "spherical"]


def gen_opm(rng):
    ep = _epoch(rng)
    frame, scale = rng.choice(FRAMES), rng.choice(SCALES)
    return _centre_form({"type": "opm", "name": _name(rng), "id": _name(rng), "frame": frame, "scale": scale,
            "epoch": ep, "state": _state(rng), "kep": rng.random() < 0.7, "cov": _cov(rng, frame), "mans": _mans(rng, ep, own=frame, scale=scale),
            "ud": _ud(rng), "as_orbit": rng.random() < 0.3, "meta_by_kwargs": rng.random() < 0.2,
            "form": rng.choice(FORMS), "no_meta": rng.random() < 0.07, "originator": rng.choice([None, None, "CNES", "my agency"]),
            "prop": rng.choice(["Kepler", "J2", "none"]), "centre": _centre(rng)})


def gen_omm(rng):
    import math
    return {"type": "omm", "name": _name(rng), "id": "%04d-%03d%s" % (rng.randint(1960, 2049), rng.randint(1, 999), rng.choice("ABCDE")),
            "scale": rng.choice(SCALES), "epoch": _epoch(rng),
            "elems": [math.radians(rng.uniform(0.1, 179)), math.radians(rng.uniform(0, 359.9)), rng.uniform(1e-5, 0.7),
                      math.radians(rng.uniform(0, 359.9)), math.radians(rng.uniform(0, 359.9)), rng.uniform(1.0, 16.5) * 2 * math.pi / 86400.0],
            "bstar": rng.uniform(-1e-3, 1e-3), "ndot": rng.uniform(-1e-4, 1e-4), "ndotdot": rng.choice([0.0, 0.0, rng.uniform(-1e-9, 1e-9)]),
            "norad_id": rng.randint(1, 99999), "revolutions": rng.randint(0, 99999), "element_nb": rng.randint(0, 9999),
            "cov": _cov(rng, "TEME"), "ud": _ud(rng), "via_tle": rng.random() < 0.5,
            "classification": rng.choice([None, None, "U", "C"]), "ephemeris_type": rng.choice([None, None, 0, 2]),
            "no_meta": rng.random() < 0.05}


def gen_oem(rng, nseg=None):
    segs = []
    nseg = nseg if nseg is not None else rng.choice([1, 1, 1, 2, 3])
    for _ in range(nseg):
        n = rng.choice([1, 1, 2, 2, 3, 5, rng.randint(4, 12)])
        ep = _epoch(rng)
        step = rng.choice([1, 60, 180, 3600]) * 10**6 + rng.choice([0, 0, 1, 250000])
        ncov = rng.choice([0, 0, 1, 1, 2, n])
        covidx = set(rng.sample(range(n), min(ncov, n)))
        frame, scale = rng.choice(FRAMES), rng.choice(SCALES)
        odd = rng.randrange(n) if n > 1 and step >= 180 * 10**6 and rng.random() < 0.08 else None     # one point labelled in another time scale
        pts = []
        for i in range(n):
            c = None
            if i in covidx:
                c = None
                while c is None:
                    c = _cov(rng, frame)
            pts.append({"epoch": ep + i * step, "state": _state(rng), "cov": c, "scale": _other_scale(rng, scale) if i == odd and i > 0 else None})
        method = rng.choice(["lagrange", "lagrange", "linear"])
        segs.append(_centre_form({"name": _name(rng), "id": _name(rng), "frame": frame, "scale": scale,
                     "method": method, "order": rng.choice([None, 2, 5, 8, 11]), "points": pts,
                     "form": rng.choice(FORMS_OEM), "no_meta": rng.random() < 0.07, "centre": _centre(rng)}))
    return {"type": "oem", "segs": segs, "as_list": nseg > 1 or rng.random() < 0.3}


def tdm_obs_scale(spec, ob):
    """time scale a measurement of a TDM spec is dated in: its own label, else the one of its path (station), else the one of the set"""
    ps = spec.get("pscale") or []
    return ob.get("scale") or (ps[ob["path"]] if ob["path"] < len(ps) else None) or spec["scale"]


def gen_tdm(rng, doppler=None):
    npath = rng.choice([1, 1, 1, 2, 2, 3])
    paths = []
    for _ in range(npath):
        a, b, c = _name(rng, False), _name(rng, False), _name(rng, False)
        while b == a:
            b = _name(rng, False)
        while c in (a, b):
            c = _name(rng, False)
        p = rng.choice([[a, b, a], [a, b], [a, b, a], [a, b, c], [a, b, c, a], [a, b, a, c]])
        if p in paths:
            continue
        paths.append(p)
    npath = len(paths)
    kinds_all = ["Range", "Azimut", "Elevation"]
    if doppler is None:
        doppler = rng.random() < 0.1
    if doppler:
        kinds_all = kinds_all + ["Doppler"]
    import math
    per_path = []
    ep = _epoch(rng)
    scale = rng.choice(SCALES)
    n = rng.choice([1, 1, 2, 3, rng.randint(2, 10)])
    for pi in range(npath):
        kinds = rng.sample(kinds_all, rng.randint(1, len(kinds_all)))
        if doppler and "Doppler" not in kinds:
            kinds.append("Doppler")
        nn = n if pi == 0 else rng.choice([1, 2, 3])
        # every station keeps its own clock: the observations of a path start `lag` after those of the first one
        lag = 0 if pi == 0 else rng.choice([0, 0, 2500000, rng.randrange(10**7)])
        mine = []
        for i in range(nn):
            for kd in (kinds if nn > 1 or rng.random() < 0.5 else kinds[:1]):
                val = {"Range": rng.uniform(3e5, 8e7), "Azimut": rng.choice([rng.uniform(-math.pi, math.pi), rng.uniform(-2 * math.pi, 2 * math.pi), 0.0]),
                       "Elevation": rng.uniform(0, math.pi / 2), "Doppler": rng.uniform(-7000, 7000)}[kd]
                mine.append({"kind": kd, "path": pi, "epoch": ep + lag + i * 5 * 10**6, "value": val, "scale": None})
        per_path.append(mine)
    # order of the measurements inside the set: path after path, or as they were taken (the paths interleaved)
    if npath > 1 and rng.random() < 0.4:
        obs = []
        while any(per_path):
            for mine in per_path:
                for _ in range(rng.choice([1, 1, 2])):
                    if mine:
                        obs.append(mine.pop(0))
    else:
        obs = [o for mine in per_path for o in mine]
    # time scales: one for the whole set; or each path (station) dated in its own; or one single date labelled otherwise
    pscale = None
    if npath > 1 and rng.random() < 0.5:
        pscale = [scale if pi == 0 and rng.random() < 0.7 else rng.choice(SCALES) for pi in range(npath)]
    if len(obs) > 1 and rng.random() < 0.04:
        o = obs[rng.randrange(1, len(obs))]
        o["scale"] = _other_scale(rng, (pscale or [scale] * npath)[o["path"]])      # one date labelled in another time scale
    spec = {"type": "tdm", "scale": scale, "paths": paths, "obs": obs, "by_list": rng.random() < 0.3}
    if pscale:
        spec["pscale"] = pscale
    return spec


def gen_omm_checked(rng):
    """TLE text imposes its own field widths (C12's subject): fall back to the directly built Orbit when it refuses"""
    spec = gen_omm(rng)
    if spec["via_tle"]:
        try:
            build(spec)
        except Exception:
            spec["via_tle"] = False
    return spec


GENS = {"opm": gen_opm, "omm": gen_omm_checked, "oem": gen_oem, "tdm": gen_tdm}

# ---------------------------------------------------------------- centres other than the Earth
# every centre the library can create: the two analytical solar-system bodies (beyond.env.solarsystem), every body of the JPL test
# kernels (beyond.env.jpl.create_frames: planets, barycentres, the three-word SolarSystemBarycenter), Lagrange points of two bodies
LAGRANGE = [("Earth", "Moon", 1), ("Earth", "Moon", 2), ("Earth", "Moon", 4), ("Sun", "Earth", 1), ("Sun", "Earth", 2), ("Sun", "Mars", 3),
            ("Sun", "EarthBarycenter", 2)]
_CENTRES = {}


def centres():
    """{label: spec of the centre}; JPL kernels of the library's own test data"""
    if _CENTRES:
        return _CENTRES
    import logging
    from beyond.config import config
    jd = os.path.join(core.REPO, "tests", "data", "jpl")
    config.set("env", "jpl", "files", [os.path.join(jd, f) for f in ("de403_2000-2020.bsp", "pck00010.tpc", "gm_de431.tpc")])
    from beyond.env import jpl
    logging.getLogger("beyond.frames.frames").setLevel(logging.ERROR)
    jpl.create_frames()
    for f in jpl.list_frames():
        if f.name != "Earth":           # the JPL frame "Earth" is EME2000 under another name: it is written, and read back, as EME2000
            _CENTRES["jpl:" + f.name] = {"src": "jpl", "name": f.name}
    for n in ("Moon", "Sun"):
        _CENTRES["solarsystem:" + n] = {"src": "solarsystem", "name": n}
    for a, b, k in LAGRANGE:
        _CENTRES[f"lagrange:{a}-{b}-L{k}"] = {"src": "lagrange", "name": f"{a}-{b}-L{k}", "a": a, "b": b, "k": k}
    return _CENTRES


_LAG = {}


def centre_frame(c):
    """the frame object, made the registered frame of its name (several sources create a `Moon` or a `Sun`)"""
    from beyond.frames import frames as fr
    centres()
    if c["src"] == "jpl":
        from beyond.env import jpl
        f = {x.name: x for x in jpl.list_frames()}[c["name"]]       # (get_frame refuses the root of the kernel, SolarSystemBarycenter)
    elif c["src"] == "solarsystem":
        from beyond.env import solarsystem
        f = solarsystem.get_frame(c["name"])
    else:
        key = (c["a"], c["b"], c["k"])
        if key not in _LAG:
            from beyond.env import jpl
            from beyond.frames.lagrange import lagrange
            fr.dynamic[c["a"]], fr.dynamic[c["b"]] = jpl.get_frame(c["a"]), jpl.get_frame(c["b"])
            _LAG[key] = lagrange(jpl.get_frame(c["a"]), jpl.get_frame(c["b"]), c["k"])
        f = _LAG[key]
    fr.dynamic[f.name] = f
    return f


def _centre(rng, p=0.12):
    if rng.random() >= p:
        return None
    cs = centres()
    return dict(cs[rng.choice(sorted(cs))])


def _centre_form(spec):
    """a Lagrange point is not a body (no mu): only the forms that need none"""
    if spec.get("centre") and spec["centre"]["src"] == "lagrange" and spec.get("form") not in ("cartesian", "spherical", "cylindrical"):
        spec["form"] = "cartesian"
    return spec


# ---------------------------------------------------------------- spec -> real object

def _date(us, scale):
    from beyond.dates import Date
    return Date(T0 + pytd(microseconds=us), scale=scale)


def _mk_cov(orb, c):
    from beyond.orbits.cov import Cov
    if c is None:
        return None
    fr = {"own": orb.frame, "own-by-name": orb.frame.name}.get(c["frame"], c["frame"])
    return Cov(orb, c["vals"], fr)


def _mk_mans(spec, scale):
    from beyond.dates import timedelta
    from beyond.orbits.man import ImpulsiveMan, ContinuousMan, KeplerianImpulsiveMan, KeplerianContinuousMan
    out = []
    for m in spec:
        d = _date(m["epoch"], m.get("scale") or scale)
        kind = m["kind"]
        if kind == "I":
            out.append(ImpulsiveMan(d, list(m["dv"]), frame=m["frame"], comment=m["comment"]))
        elif kind == "KI":
            out.append(KeplerianImpulsiveMan(d, comment=m["comment"], **m["dkep"]))
        elif kind == "KC":
            out.append(KeplerianContinuousMan(d, timedelta(milliseconds=m["dur_ms"]), date_pos=m.get("date_pos", "start"), comment=m["comment"], **m["dkep"]))
        else:
            dur = timedelta(milliseconds=m["dur_ms"])
            kw = {"dv": list(m["dv"])} if m.get("by", "dv") == "dv" else {"accel": [x / dur.total_seconds() for x in m["dv"]]}
            out.append(ContinuousMan(d, dur, frame=m["frame"], comment=m["comment"], date_pos=m.get("date_pos", "start"), **kw))
    return out


def _propagator(name):
    if name == "J2":
        from beyond.propagators.j2 import J2
        return J2()
    if name == "none":
        return None
    from beyond.propagators.kepler import Kepler
    return Kepler()


def build(spec):
    """returns (object, kwargs for dumps)"""
    from beyond.orbits import StateVector, Orbit, Ephem
    t = spec["type"]
    kw = {}
    if t == "opm":
        meta = {} if spec["meta_by_kwargs"] or spec.get("no_meta") else {"name": spec["name"], "cospar_id": spec["id"]}
        if spec["meta_by_kwargs"]:
            kw.update(name=spec["name"], cospar_id=spec["id"])
        if spec.get("originator"):
            kw["originator"] = spec["originator"]
        d = _date(spec["epoch"], spec["scale"])
        frame = centre_frame(spec["centre"]) if spec.get("centre") else spec["frame"]
        if spec["as_orbit"]:
            o = Orbit(spec["state"], d, "cartesian", frame, _propagator(spec.get("prop", "Kepler")), **meta)
        else:
            o = StateVector(spec["state"], d, "cartesian", frame, **meta)
        if spec.get("form", "cartesian") != "cartesian":
            o.form = spec["form"]
        if spec["cov"]:
            o.cov = _mk_cov(o, spec["cov"])
        o.maneuvers = _mk_mans(spec["mans"], spec["scale"])
        if spec["ud"] is not None:
            o._data["ccsds_user_defined"] = dict(spec["ud"])
        kw["kep"] = spec["kep"]
        return o, kw
    if t == "omm":
        d = _date(spec["epoch"], spec["scale"])
        data = dict(bstar=spec["bstar"], ndot=spec["ndot"], ndotdot=spec["ndotdot"], norad_id=spec["norad_id"],
                    revolutions=spec["revolutions"], element_nb=spec["element_nb"], name=spec["name"], cospar_id=spec["id"])
        if spec.get("classification") is not None:
            data["classification_type"] = spec["classification"]
        if spec.get("ephemeris_type") is not None:
            data["ephemeris_type"] = spec["ephemeris_type"]
        if spec.get("no_meta") and not spec["via_tle"]:
            del data["name"]
        o = Orbit(spec["elems"], d, "TLE", "TEME", "Sgp4", **data)
        if spec["via_tle"]:
            from beyond.io.tle import Tle
            o = Tle.from_orbit(o).orbit()
            o.name = spec["name"]
        if spec["cov"]:
            o.cov = _mk_cov(o, spec["cov"])
        if spec["ud"] is not None:
            o._data["ccsds_user_defined"] = dict(spec["ud"])
        return o, kw
    if t == "oem":
        ephs = []
        for s in spec["segs"]:
            pts = []
            meta = {} if s.get("no_meta") else {"name": s["name"], "cospar_id": s["id"]}
            frame = centre_frame(s["centre"]) if s.get("centre") else s["frame"]
            for p in s["points"]:
                sv = StateVector(p["state"], _date(p["epoch"], p.get("scale") or s["scale"]), "cartesian", frame, **meta)
                if s.get("form", "cartesian") != "cartesian":
                    sv.form = s["form"]
                if p["cov"]:
                    sv.cov = _mk_cov(sv, p["cov"])
                pts.append(sv)
            e = Ephem(pts, method=s["method"], order=s["order"])
            if not s.get("no_meta"):
                e.name = s["name"]
                e.cospar_id = s["id"]
            ephs.append(e)
        return (ephs if spec["as_list"] else ephs[0]), kw
    if t == "tdm":
        from beyond.utils import measures
        lst = [getattr(measures, ob["kind"])(spec["paths"][ob["path"]], _date(ob["epoch"], tdm_obs_scale(spec, ob)), ob["value"]) for ob in spec["obs"]]
        if spec.get("by_list"):
            return measures.MeasureSet(lst), kw
        ms = measures.MeasureSet()
        for m in lst:
            ms.append(m)
        return ms, kw
    raise ValueError(t)


# ---------------------------------------------------------------- canonical field tuples

def _us(date):
    td = date.datetime - T0
    return (td.days * 86400 + td.seconds) * 10**6 + td.microseconds


def _tai(date):
    """the instant: microseconds of the TAI clock (public API: change_scale)"""
    return _us(date if date.scale.name == "TAI" else date.change_scale("TAI"))


def _fname(fr):
    return fr if isinstance(fr, str) else fr.name


def _canon_cov(orb):
    cov = getattr(orb, "cov", None)
    if cov is None:
        return None
    fr = _fname(cov.frame)
    return {"frame": "own" if fr == orb.frame.name else fr, "vals": [[float(cov[i, j]) for j in range(i + 1)] for i in range(6)]}


def _canon_sv(o):
    c = o.copy(form="cartesian")
    return {"epoch": _us(o.date), "scale": o.date.scale.name, "tai": _tai(o.date), "frame": o.frame.name, "center": o.frame.center.name, "orientation": o.frame.orientation.name,
            "state": [float(x) for x in c.base], "cov": _canon_cov(c)}


def _man_frame(m, own):
    """`None` and the orbit's own frame by name are the same thing (man.py treats every non-local frame as the orbit's)"""
    fr = getattr(m, "frame", None)
    if fr is None:
        return None
    fr = _fname(fr)
    return None if fr == own else fr


def _canon_mans(o):
    """what the property lists for a maneuver — epoch = start of the thrust window, duration, end of the window, delta-v, frame,
    comment — plus its *effect*: the velocity increment it applies to the orbit it is attached to, in the orbit's frame (this is what
    delta-v + frame mean together, and the only thing a Keplerian maneuver has)"""
    from beyond.orbits.man import ContinuousMan
    import numpy as np
    out = []
    own = o.frame.name
    cart = o.copy(form="cartesian")
    for m in getattr(o, "maneuvers", []) or []:
        cont = isinstance(m, ContinuousMan)
        d0 = m.start if cont else m.date
        dur = m.duration.total_seconds() if cont else 0.0
        try:
            eff = (np.array(m.accel(cart)) * dur) if cont else np.array(m.dv(cart))
            eff = [float(x) for x in eff]
        except Exception as e:        # pragma: no cover
            eff = "%s" % type(e).__name__
        dv = getattr(m, "_dv", None)
        kep = hasattr(m, "da")
        out.append({"kind": "C" if cont else "I", "epoch": _us(d0), "scale": d0.scale.name, "tai": _tai(d0), "dur": dur,
                    "stop": _tai(m.stop) if cont else _tai(d0),
                    "frame": "TNW" if kep else _man_frame(m, own), "comment": m.comment or None,
                    "dv": None if kep or dv is None else [float(x) for x in dv], "effect": eff, "kepl": kep})
    return out


def canon(obj, spec=None, kw=None):
    """canonical field tuple of a real object (what the property says must be restored)"""
    from beyond.orbits import Ephem, StateVector
    from beyond.utils.measures import MeasureSet
    kw = kw or {}
    if isinstance(obj, StateVector):
        d = _canon_sv(obj)
        d["name"] = kw.get("name", getattr(obj, "name", "N/A"))
        d["id"] = kw.get("cospar_id", getattr(obj, "cospar_id", "N/A"))
        d["ud"] = dict(obj._data["ccsds_user_defined"]) if "ccsds_user_defined" in obj._data else None
        if spec is not None and spec["type"] == "omm" or (spec is None and str(obj.form) == "TLE"):
            t = obj.copy(form="TLE")
            d["type"] = "omm"
            d["elems"] = [float(x) for x in t.base]
            for k in ("bstar", "ndot", "ndotdot", "norad_id", "revolutions", "element_nb"):
                d[k] = getattr(obj, k)
            del d["state"]
            d["cov"] = _canon_cov(obj)
        else:
            d["type"] = "opm"
            d["mans"] = _canon_mans(obj)
        return d
    if isinstance(obj, Ephem) or (isinstance(obj, list) and obj and all(isinstance(x, Ephem) for x in obj)):
        ephs = [obj] if isinstance(obj, Ephem) else obj
        segs = []
        for e in ephs:
            segs.append({"name": getattr(e, "name", "N/A"), "id": getattr(e, "cospar_id", "N/A"), "method": e.method,
                         "order": e.order if e.method != "linear" else None,
                         "points": [dict(_canon_sv(p), name=getattr(p, "name", None), id=getattr(p, "cospar_id", None)) for p in e]})
        return {"type": "oem", "segs": segs}
    if isinstance(obj, MeasureSet) or (isinstance(obj, list) and obj and all(isinstance(x, MeasureSet) for x in obj)):
        sets = [obj] if isinstance(obj, MeasureSet) else obj
        obs = []
        for s in sets:
            for m in s:
                obs.append({"kind": type(m).__name__, "path": list(m.path), "epoch": _us(m.date), "scale": m.date.scale.name, "tai": _tai(m.date), "value": float(m.value)})
        return {"type": "tdm", "obs": obs}
    return {"type": "unknown:" + type(obj).__name__}


TOL = {"state_pos": 1e-3, "state_vel": 1e-3, "dv": 1e-3, "dur": 1e-3, "cov_rel": 1e-10, "epoch": 1}
# the writers' own precision for fields the property gives no figure for (OMM mean elements, TDM values)
import math
OMM_TOL = {"elems": [math.radians(0.5e-4)] * 2 + [0.5e-7] + [math.radians(0.5e-4)] * 2 + [0.5e-8 * 2 * math.pi / 86400],
           "bstar": 0.5e-9, "ndot": 1e-8, "ndotdot": 0.3}
TDM_TOL = {"Range": 1e-3, "Azimut": math.radians(0.005), "Elevation": math.radians(0.005), "Doppler": 0.5e-6}


def _cmp_cov(a, b, where, diffs):
    if (a is None) != (b is None):
        diffs.append((where + "cov", "present" if a else "absent", "present" if b else "absent"))
        return
    if a is None:
        return
    if a["frame"] != b["frame"]:
        diffs.append((where + "cov.frame", a["frame"], b["frame"]))
    for i in range(6):
        for j in range(i + 1):
            x, y = a["vals"][i][j], b["vals"][i][j]
            if abs(x - y) > TOL["cov_rel"] * max(abs(x), abs(y)) + 1e-300:
                diffs.append((where + f"cov[{i},{j}]", x, y))
                return


def _cmp_epoch(a, b, where, diffs, main_scale=None):
    """epoch to the microsecond in the same time scale.  `main_scale`: the TIME_SYSTEM of the message (scale of the object's own
    date); a secondary date the user labelled in another scale cannot keep its label (one TIME_SYSTEM per message) but must
    still be the same instant"""
    if main_scale is None or a["scale"] == main_scale:
        if a["scale"] != b["scale"]:
            diffs.append((where + "scale", a["scale"], b["scale"]))
        if abs(a["epoch"] - b["epoch"]) > TOL["epoch"]:
            diffs.append((where + "epoch", a["epoch"], b["epoch"]))
    elif abs(a["tai"] - b["tai"]) > TOL["epoch"]:
        diffs.append((where + "instant", f"{a['epoch']} {a['scale']}", f"{b['epoch']} {b['scale']} ({(b['tai'] - a['tai']) / 1e6:+.6f} s)"))


def _cmp_sv(a, b, where, diffs, main_scale=None):
    _cmp_epoch(a, b, where, diffs, main_scale)
    for k in ("frame", "center", "orientation"):
        if a[k] != b[k]:
            diffs.append((where + k, a[k], b[k]))
    if "state" in a:
        for i in range(6):
            if abs(a["state"][i] - b["state"][i]) > (TOL["state_pos"] if i < 3 else TOL["state_vel"]) * 0.5000001:
                diffs.append((where + "state", a["state"], b["state"]))
                break
    _cmp_cov(a["cov"], b["cov"], where, diffs)


def compare(a, b):
    """list of (field, original, restored) differences beyond the property's tolerances"""
    diffs = []
    if a["type"] != b["type"]:
        return [("type", a["type"], b["type"])]
    t = a["type"]
    if t in ("opm", "omm"):
        _cmp_sv(a, b, "", diffs)
        for k in ("name", "id"):
            if a[k] != b[k]:
                diffs.append((k, a[k], b[k]))
        if (a["ud"] or None) != (b["ud"] or None):      # an empty user-defined dict and none at all are not distinguished
            diffs.append(("ud", a["ud"], b["ud"]))
    if t == "opm":
        if len(a["mans"]) != len(b["mans"]):
            diffs.append(("mans.len", len(a["mans"]), len(b["mans"])))
        else:
            for i, (m, n) in enumerate(zip(a["mans"], b["mans"])):
                for k in ("kind", "frame", "comment"):
                    if m[k] != n[k]:
                        diffs.append((f"man.{k}", m[k], n[k]))
                _cmp_epoch(m, n, "man.", diffs, a["scale"])
                if abs(m["dur"] - n["dur"]) > TOL["dur"] * 0.5000001:
                    diffs.append(("man.dur", m["dur"], n["dur"]))
                # the thrust window [start, stop): its end too (1 us on the start + 0.5 ms on the duration)
                if abs((m["stop"] - m["tai"]) - (n["stop"] - n["tai"])) > TOL["dur"] * 0.5000001 * 1e6 + 2:
                    diffs.append(("man.stop", m["stop"], n["stop"]))
                if m["dv"] is not None and n["dv"] is not None and any(abs(x - y) > TOL["dv"] * 0.5000001 for x, y in zip(m["dv"], n["dv"])):
                    diffs.append(("man.dv", m["dv"], n["dv"]))
                if isinstance(m["effect"], str) or isinstance(n["effect"], str) or any(abs(x - y) > TOL["dv"] for x, y in zip(m["effect"], n["effect"])):
                    diffs.append(("man.effect", m["effect"], n["effect"]))
    if t == "omm":
        for i in range(6):
            x, y = a["elems"][i], b["elems"][i]
            dx = abs(x - y)
            if i in (0, 1, 3, 4):
                dx = min(dx, abs(dx - 2 * math.pi))
            if dx > OMM_TOL["elems"][i] * 1.000001:
                diffs.append((f"elems[{i}]", x, y))
        for k in ("bstar", "ndot", "ndotdot"):
            if abs(a[k] - b[k]) > OMM_TOL[k] * 1.000001:
                diffs.append((k, a[k], b[k]))
        for k in ("norad_id", "revolutions", "element_nb"):
            if int(a[k]) != int(b[k]):
                diffs.append((k, a[k], b[k]))
    if t == "oem":
        if len(a["segs"]) != len(b["segs"]):
            return [("segs.len", len(a["segs"]), len(b["segs"]))]
        for s, r in zip(a["segs"], b["segs"]):
            for k in ("name", "id", "method", "order"):
                if s[k] != r[k]:
                    diffs.append((f"seg.{k}", s[k], r[k]))
            if len(s["points"]) != len(r["points"]):
                diffs.append(("points.len", len(s["points"]), len(r["points"])))
                continue
            main = s["points"][0]["scale"] if s["points"] else None
            for p, q in zip(s["points"], r["points"]):
                _cmp_sv(p, q, "point.", diffs, main)
                for k in ("name", "id"):
                    if p[k] is not None and p[k] != q[k]:
                        diffs.append((f"point.{k}", p[k], q[k]))
    if t == "tdm":
        if len(a["obs"]) != len(b["obs"]):
            return [("obs.len", len(a["obs"]), len(b["obs"]))]
        main = {}
        for p in a["obs"]:
            main.setdefault(tuple(p["path"]), p["scale"])         # one segment (one TIME_SYSTEM) per path
        # the writers split the set by path, in order of first appearance, each path in the order of the set
        order = list(main)
        for p, q in zip(sorted(a["obs"], key=lambda o: order.index(tuple(o["path"]))), b["obs"]):
            for k in ("kind", "path"):
                if p[k] != q[k]:
                    diffs.append((f"obs.{k}", p[k], q[k]))
            _cmp_epoch(p, q, "obs.", diffs, main[tuple(p["path"])])
            dv = abs(p["value"] - q["value"])
            if p["kind"] == "Azimut":
                dv = min(dv, abs(dv - 2 * math.pi))
            if p["kind"] == q["kind"] and dv > TDM_TOL[p["kind"]] * 1.000001:
                diffs.append(("obs.value", p["value"], q["value"]))
    return diffs


# ---------------------------------------------------------------- running the real code

def _site(e):
    """innermost frame inside beyond/ (function name) of an exception"""
    tb = traceback.extract_tb(e.__traceback__)
    fr = [x for x in tb if "/beyond/" in x.filename]
    if not fr:
        return "?"
    f = fr[-1]
    return f"{os.path.basename(f.filename)[:-3]}.{f.name}"


def _site_ccsds(e):
    """innermost frame inside beyond/io/ccsds"""
    tb = traceback.extract_tb(e.__traceback__)
    fr = [x for x in tb if "/beyond/io/ccsds/" in x.filename]
    if not fr:
        return _site(e)
    f = fr[-1]
    return f"{os.path.basename(f.filename)[:-3]}.{f.name}"


class Fmt:
    """selects the output format by argument or through the configuration"""

    def __init__(self, fmt, via):
        self.fmt, self.via = fmt, via

    def dumps(self, obj, **kw):
        from beyond.io.ccsds import dumps
        from beyond.config import config
        if self.via == "arg":
            return dumps(obj, fmt=self.fmt, **kw)
        old = config.get("io")
        config["io"] = dict(old or {}, ccsds_default_format=self.fmt)
        try:
            return dumps(obj, **kw)
        finally:
            if old is None:
                del config["io"]
            else:
                config["io"] = old


def features(spec):
    """input-class tags used in failure families"""
    t = spec["type"]
    f = []
    if t in ("opm", "omm"):
        if spec["ud"] is not None:
            f.append("ud%d" % min(len(spec["ud"]), 2))
        if t == "omm" and not spec["via_tle"]:
            f.append("no-tle")
        if t == "opm" and any(m["frame"] == "QSW" for m in spec["mans"]):
            f.append("man-qsw")
    for c in ([spec.get("centre")] if t == "opm" else [x.get("centre") for x in spec["segs"]] if t == "oem" else []):
        if c:
            multi = c["src"] == "lagrange" and any(x.isupper() for x in c["a"][1:] + c["b"][1:])      # a body whose own name has several words
            tag = "centre-" + c["src"] + ("-multiword" if multi else "")
            if tag not in f:
                f.append(tag)
    if t == "opm":
        if any(m["kind"] in ("KI", "KC") for m in spec["mans"]):
            f.append("man-kepl")
        if any(m.get("scale") and m["scale"] != spec["scale"] for m in spec["mans"]):
            f.append("mixed-scale")
        if any(m.get("date_pos", "start").lower() != "start" for m in spec["mans"]):
            f.append("man-date-pos")
    if t == "oem":
        if any(len(s["points"]) == 1 for s in spec["segs"]):
            f.append("points1")
        if any(sum(1 for p in s["points"] if p["cov"]) == 1 for s in spec["segs"]):
            f.append("cov1")
        if any(s.get("form", "cartesian") != "cartesian" for s in spec["segs"]):
            f.append("form-noncart")
        if any(p.get("scale") and p["scale"] != s["scale"] for s in spec["segs"] for p in s["points"]):
            f.append("mixed-scale")
    if t == "tdm":
        first = {}
        for o in spec["obs"]:
            first.setdefault(o["path"], tdm_obs_scale(spec, o))
        if any(tdm_obs_scale(spec, o) != first[o["path"]] for o in spec["obs"]):
            f.append("mixed-scale")              # inside one segment
        if len(set(first.values())) > 1:
            f.append("scale-per-path")
        for pi in range(len(spec["paths"])):
            if sum(1 for o in spec["obs"] if o["path"] == pi) == 1:
                f.append("obs1")
                break
        if any(o["kind"] == "Doppler" for o in spec["obs"]):
            f.append("doppler")
        if len(spec["paths"]) > 1 and len({o["path"] for o in spec["obs"]}) > 1:
            f.append("paths2")
        for pi in range(len(spec["paths"])):
            kinds = {o["kind"] for o in spec["obs"] if o["path"] == pi}
            if "Elevation" in kinds and "Azimut" not in kinds:
                f.append("elev-no-az")
                break
    return f


def classify(raw, feats):
    """name of the defect a failure belongs to, computed from the call site of the exception (or the field that differs)
    *and* the input class; anything that does not match keeps its raw family"""
    rules = [
        ("oem-xml-load:TypeError@commons.decode_unit", "points1", "xml-single-element:oem.stateVector"),
        ("oem-xml-load:TypeError@oem._loads_xml", "cov1", "xml-single-element:oem.covarianceMatrix"),
        ("tdm-xml-load:AttributeError@tdm._loads_xml", "obs1", "xml-single-element:tdm.observation"),
        ("opm-xml-load:AttributeError@opm._loads_xml", "ud1", "xml-single-element:opm.USER_DEFINED"),
        ("omm-xml-load:AttributeError@omm._loads_xml", "ud1", "xml-single-element:omm.USER_DEFINED"),
        ("opm-xml-load:AttributeError@commons._recurse", "ud0", "xml-empty-user-defined"),
        ("omm-xml-load:AttributeError@commons._recurse", "ud0", "xml-empty-user-defined"),
        ("opm-kvn-restored:man.frame:QSW->RSW", "man-qsw", "maneuver-frame-qsw-reloads-rsw"),
        ("opm-xml-restored:man.frame:QSW->RSW", "man-qsw", "maneuver-frame-qsw-reloads-rsw"),
        ("omm-kvn-dump:AttributeError@omm._dumps_kvn", "no-tle", "omm-kvn-dump-needs-tle"),
        ("omm-redump-kvn:AttributeError@omm._dumps_kvn", None, "omm-kvn-dump-needs-tle"),
        ("tdm-kvn-load:CcsdsError@tdm._loads_kvn", "doppler", "tdm-doppler-not-read"),
        ("tdm-xml-load:CcsdsError@tdm._loads_xml", "doppler", "tdm-doppler-not-read"),
        ("tdm-kvn-load:KeyError@tdm._loads_kvn", "elev-no-az", "tdm-elevation-without-azimuth"),
        ("tdm-xml-load:UnboundLocalError@tdm._loads_xml", "elev-no-az", "tdm-elevation-without-azimuth"),
        ("opm-kvn-restored:man.instant", "mixed-scale", "mixed-scale-epoch:opm.maneuver"),
        ("opm-xml-restored:man.instant", "mixed-scale", "mixed-scale-epoch:opm.maneuver"),
        ("oem-kvn-restored:point.instant", "mixed-scale", "mixed-scale-epoch:oem.point"),
        ("oem-xml-restored:point.instant", "mixed-scale", "mixed-scale-epoch:oem.point"),
        ("tdm-kvn-restored:obs.instant", "mixed-scale", "mixed-scale-epoch:tdm.observation"),
        ("tdm-xml-restored:obs.instant", "mixed-scale", "mixed-scale-epoch:tdm.observation"),
        ("opm-kvn-load:UnknownFrameError@opm._loads_kvn", "centre-lagrange-multiword", "lagrange-centre-of-multiword-body"),
        ("opm-xml-load:UnknownFrameError@opm._loads_xml", "centre-lagrange-multiword", "lagrange-centre-of-multiword-body"),
        ("opm-xml-load:UnknownFrameError@opm._loads_xml", "centre-lagrange", "xml-lagrange-centre-name-glued"),
        ("oem-kvn-load:UnknownFrameError@oem._loads_kvn", "centre-lagrange-multiword", "lagrange-centre-of-multiword-body"),
        ("oem-xml-load:UnknownFrameError@oem._loads_xml", "centre-lagrange-multiword", "lagrange-centre-of-multiword-body"),
        ("oem-xml-load:UnknownFrameError@oem._loads_xml", "centre-lagrange", "xml-lagrange-centre-name-glued"),
        ("opm-kvn-dump:AttributeError@opm._dumps_kvn", "man-kepl", "opm-keplerian-maneuver"),
        ("opm-xml-dump:AttributeError@opm._dumps_xml", "man-kepl", "opm-keplerian-maneuver"),
        ("opm-kvn-restored:man.effect", "man-kepl", "opm-keplerian-maneuver"),
        ("opm-xml-restored:man.effect", "man-kepl", "opm-keplerian-maneuver"),
        ("oem-xml-dump:AttributeError@oem._dumps_xml", "form-noncart", "oem-xml-dump-noncartesian-form"),
        ("tdm-redump-kvn:TypeError@commons.detect2dump", "paths2", "tdm-multi-path-reloads-as-list"),
        ("tdm-redump-xml:TypeError@commons.detect2dump", "paths2", "tdm-multi-path-reloads-as-list"),
    ]
    for r, feat, name in rules:
        if raw == r and (feat is None or feat in feats):
            return name
    return raw


def roundtrip(spec, fmt, via="arg"):
    """dump with the real writer, load with the real reader.
    returns dict(stage, text, obj, canon0, canon1, error=(exc type, site, msg))"""
    from beyond.io.ccsds import loads
    res = {"stage": "build", "error": None}
    obj, kw = build(spec)
    res["canon0"] = canon(obj, spec, kw)
    res["stage"] = "dump"
    try:
        text = Fmt(fmt, via).dumps(obj, **kw)
    except Exception as e:
        res["error"] = (type(e).__name__, _site_ccsds(e), str(e)[:120])
        return res
    res["text"] = text
    res["stage"] = "load"
    try:
        back = loads(text)
    except Exception as e:
        res["error"] = (type(e).__name__, _site_ccsds(e), str(e)[:120])
        return res
    res["obj"] = back
    res["stage"] = "canon"
    res["canon1"] = canon(back, spec)
    res["stage"] = "done"
    return res


import re

_DATE_RE = re.compile(r"(\d{4})-(\d{2})-(\d{2})T(\d{2}:\d{2}:\d{2})\.(\d{6})")


def _doy(m):
    d = datetime(int(m.group(1)), int(m.group(2)), int(m.group(3)))
    return f"{m.group(1)}-{d.timetuple().tm_yday:03d}T{m.group(4)}.{m.group(5)}"


def variants(text, t, fmt):
    """other texts a conforming producer could have written for the same object — the optional notations the readers accept
    (default units, RTN for RSW, day-of-year dates, dates without fraction, comment and blank lines, acceleration columns,
    range in seconds, theory named SGP4, centre in lower case); (name, text) pairs"""
    out = []
    if fmt == "kvn":
        v = re.sub(r"[ ]*\[[^\]\n]*\]$", "", text, flags=re.M)
        if v != text:
            out.append(("no-units", v))
        lines = text.split("\n")
        k = next(i for i, l in enumerate(lines) if l.startswith("ORIGINATOR"))
        out.append(("comments", "\n".join(lines[:k + 1] + ["COMMENT generated for a test", "", "COMMENT second line = with [brackets]"] + lines[k + 1:])))
        if t == "oem":
            out.append(("accelerations", "\n".join(l + " 0.000001 -0.000002 0.000003" if _DATE_RE.match(l) and len(l.split()) == 7 else l for l in lines)))
        if t == "tdm" and "RANGE_UNITS" in text:
            c_kms = 299792.458
            def rng_s(m):
                return f"{m.group(1)}{float(m.group(2)) / c_kms:.15e}"
            v = re.sub(r"^(RANGE +=\s+\S+ )(\S+)$", rng_s, text.replace("= km", "= s"), flags=re.M)
            out.append(("range-seconds", v))
        if t == "omm":
            out.append(("theory-sgp4", text.replace("= SGP/SGP4", "= SGP4")))
            out.append(("no-type-class", "\n".join(l for l in lines if not l.startswith(("EPHEMERIS_TYPE", "CLASSIFICATION_TYPE")))))
        if t in ("opm", "oem"):
            out.append(("centre-lower", text.replace("= EARTH", "= Earth")))
    else:
        v = re.sub(r' units="[^"]*"', "", text)
        if v != text:
            out.append(("no-units", v))
        if t == "omm":
            out.append(("theory-sgp4", text.replace(">SGP/SGP4<", ">SGP4<")))
            out.append(("no-type-class", re.sub(r"\s*<(EPHEMERIS_TYPE|CLASSIFICATION_TYPE)>[^<]*</\1>", "", text)))
        if t in ("opm", "oem"):
            out.append(("centre-lower", text.replace(">EARTH<", ">Earth<")))
    if "RSW" in text:
        out.append(("rtn", re.sub(r"(REF_FRAME\s*=\s*|REF_FRAME>)RSW", r"\1RTN", text)))
    out.append(("day-of-year", _DATE_RE.sub(_doy, text)))
    body = text.split("ORIGINATOR", 1)[1]
    if _DATE_RE.search(body) and all(m.group(5) == "000000" for m in _DATE_RE.finditer(body)):
        out.append(("no-fraction", text.split("ORIGINATOR", 1)[0] + "ORIGINATOR" + _DATE_RE.sub(lambda m: m.group(0)[:-7], body)))
    return [(n, v) for n, v in out if v != text]


def check_variants(out, spec, fmt, r, feats):
    """the reader side: every optional notation decodes to the same object, which can be written again"""
    from beyond.io.ccsds import loads
    t = spec["type"]
    for name, text in variants(r["text"], t, fmt):
        out.count(key=None, kind=f"{t}-{fmt}-variant", variant=name)
        try:
            back = loads(text)
        except Exception as e:
            out.fail(f"{t}-{fmt}-variant:{name}:{type(e).__name__}@{_site_ccsds(e)}", f"{t.upper()} {fmt}: the same message written with `{name}` is not read: {type(e).__name__} {str(e)[:100]}",
                     {"spec": spec, "fmt": fmt, "variant": name, "features": feats}, observed=type(e).__name__, expected="same object")
            continue
        d = compare(r["canon1"], canon(back, spec))
        if name == "range-seconds":
            # what RANGE_UNITS = s means is the reader's business alone (the writers never produce it): outside the statement.
            # (lead, not a C13 finding: tdm.py multiplies seconds by km * c with c in m/s — 1000 times too large)
            d = [x for x in d if x[0] != "obs.value"]
        if d:
            out.fail(f"{t}-{fmt}-variant:{name}:{d[0][0]}", f"{t.upper()} {fmt}: the same message written with `{name}` decodes differently in field {d[0][0]}",
                     {"spec": spec, "fmt": fmt, "variant": name, "features": feats}, observed=d[0][2], expected=d[0][1])
        for f2 in ("kvn", "xml"):
            try:
                Fmt(f2, "arg").dumps(back)
            except Exception as e:
                out.fail(classify(f"{t}-redump-{f2}:{type(e).__name__}@{_site_ccsds(e)}", feats), f"{t.upper()} read from {fmt} written with `{name}` cannot be dumped as {f2}: {type(e).__name__}",
                         {"spec": spec, "fmt": fmt, "variant": name, "refmt": f2, "features": feats}, observed=type(e).__name__, expected="text")


def check_spec(out, spec, via="arg", kind="random"):
    """all clauses of the property on one generated object; failures go to `out`"""
    t = spec["type"]
    feats = features(spec)
    loaded = {}
    for fmt in ("kvn", "xml"):
        r = roundtrip(spec, fmt, via)
        out.count(key=None, kind=f"{t}-{fmt}-{kind}", via=via)
        if r["error"]:
            exc, site, msg = r["error"]
            out.fail(classify(f"{t}-{fmt}-{r['stage']}:{exc}@{site}", feats), f"{t.upper()} {fmt}: {r['stage']} raises {exc} at {site} ({msg})",
                     {"spec": spec, "fmt": fmt, "via": via, "features": feats}, observed=f"{exc}: {msg}", expected="object restored")
            continue
        diffs = compare(r["canon0"], r["canon1"])
        for d in diffs[:1] if len({x[0] for x in diffs}) == 1 else _first_per_field(diffs):
            tag = d[0]
            if tag in ("man.frame", "cov.frame", "point.cov.frame"):
                tag += f":{d[1]}->{d[2]}"
            out.fail(classify(f"{t}-{fmt}-restored:{tag}", feats), f"{t.upper()} {fmt}: field {d[0]} is not restored by loads(dumps(x))",
                     {"spec": spec, "fmt": fmt, "via": via, "features": feats}, observed=d[2], expected=d[1])
        loaded[fmt] = r
        if kind != "replay-novariants":
            check_variants(out, spec, fmt, r, feats)
        # anything that was read can be written again
        for f2 in ("kvn", "xml"):
            try:
                Fmt(f2, "arg").dumps(r["obj"])
            except Exception as e:
                out.fail(classify(f"{t}-redump-{f2}:{type(e).__name__}@{_site_ccsds(e)}", feats), f"{t.upper()} loaded from {fmt} cannot be dumped again as {f2}: {type(e).__name__} {str(e)[:100]}",
                         {"spec": spec, "fmt": fmt, "via": via, "refmt": f2, "features": feats}, observed=type(e).__name__, expected="text")
    if len(loaded) == 2:
        d = compare_exact(loaded["kvn"]["canon1"], loaded["xml"]["canon1"])
        if d:
            out.fail(f"{t}-kvn-xml-differ:{d[0]}", f"{t.upper()}: KVN and XML encodings of the same object decode differently in field {d[0]}",
                     {"spec": spec, "via": via, "features": feats}, observed=d[2], expected=d[1])
    return loaded


def _first_per_field(diffs):
    seen = set()
    outl = []
    for d in diffs:
        if d[0] not in seen:
            seen.add(d[0])
            outl.append(d)
    return outl


def compare_exact(a, b):
    """KVN and XML carry the same precision for everything the property lists; compare with the same tolerances"""
    d = compare(a, b)
    return d[0] if d else None


def witness_specs():
    """the inputs of lean/BeyondVerif/Witness/C13.lean as real objects (fixed, independent of the seed)"""
    st = [7.0e6, 1.0e5, -3.0e5, 10.0, 7500.0, 300.0]
    ep = 7367 * 86400 * 10**6 + 123456
    cov = {"frame": "own", "vals": [[1.0 if i == j else 0.0 for j in range(6)] for i in range(6)]}
    pt = lambda i, c=None: {"epoch": ep + i * 60 * 10**6, "state": st, "cov": c}
    seg = lambda pts: {"name": "SAT", "id": "2020-001A", "frame": "EME2000", "scale": "UTC", "method": "lagrange", "order": 8, "points": pts}
    opm = lambda **kw: dict({"type": "opm", "name": "SAT", "id": "2020-001A", "frame": "EME2000", "scale": "UTC", "epoch": ep, "state": st, "kep": True,
                             "cov": None, "mans": [], "ud": None, "as_orbit": False, "meta_by_kwargs": False}, **kw)
    man = lambda f: {"kind": "I", "epoch": ep + 3600 * 10**6, "dur_ms": 0, "frame": f, "comment": "burn", "dv": [1.0, 2.0, 3.0]}
    omm = lambda **kw: dict({"type": "omm", "name": "SAT", "id": "1998-067A", "scale": "UTC", "epoch": ep, "elems": [0.9, 4.3, 0.0006703, 2.27, 5.67, 0.00114],
                             "bstar": -1.1606e-05, "ndot": -4.364e-05, "ndotdot": 0.0, "norad_id": 25544, "revolutions": 56353, "element_nb": 292,
                             "cov": None, "ud": None, "via_tle": True}, **kw)
    ob = lambda k, i, p=0: {"kind": k, "path": p, "epoch": ep + i * 5 * 10**6, "value": 0.5 if k != "Range" else 1234500.0}
    tdm = lambda obs, paths=(("STA", "SAT", "STA"),): {"type": "tdm", "scale": "UTC", "paths": [list(p) for p in paths], "obs": obs}
    return [
        {"type": "oem", "segs": [seg([pt(0)])], "as_list": False},
        {"type": "oem", "segs": [seg([pt(0, cov), pt(1)])], "as_list": False},
        opm(mans=[man("QSW")]), opm(mans=[man("TNW"), man(None)]), opm(ud={"FOO": "bar"}), opm(ud={}), omm(ud={"FOO": "bar"}), omm(), omm(via_tle=False),
        tdm([ob("Range", 0)]), tdm([ob("Doppler", 0), ob("Doppler", 1)]), tdm([ob("Elevation", 0), ob("Elevation", 1)]),
        tdm([ob("Range", 0), ob("Range", 1), ob("Range", 0, 1), ob("Range", 1, 1)], (("STA", "SAT", "STA"), ("STB", "SAT"))),
        # continuous maneuvers dated by their median / stop (date_pos), given by accel, frames by name
        opm(mans=[dict(man(None), kind="C", dur_ms=240000, date_pos="stop"), dict(man("TNW"), kind="C", dur_ms=240000, date_pos="median", by="accel"),
                  dict(man("EME2000"), kind="C", dur_ms=500, date_pos="start"), dict(man("teme"), comment="")]),
        # user-defined names with underscores, digits, lower case (CCSDS examples: EARTH_MODEL)
        opm(ud={"EARTH_MODEL": "WGS-84", "TANK_1_MASS": "12.5", "TANK_1": "x y", "foo_bar": "1"}), omm(ud={"EARTH_MODEL": "WGS-84", "TANK_2_MASS": "7.25"}),
        # (fixed aa1842c) dates labelled in another scale than the message (TT - UTC = 32.184 s + leap seconds, GPS - TAI = -19 s)
        opm(mans=[dict(man(None), scale="TT")]),
        {"type": "oem", "segs": [seg([pt(0), dict(pt(5), scale="TT"), pt(10)])], "as_list": False},
        tdm([ob("Range", 0), dict(ob("Range", 12), scale="GPS")]),
        # two stations, each dating in its own time scale (one TIME_SYSTEM per segment), measurements in the order they were taken
        dict(tdm([ob("Range", 0), ob("Range", 1, 1), ob("Range", 2), ob("Range", 3, 1)], (("STA", "SAT", "STA"), ("STB", "SAT", "STB"))), pscale=["UTC", "GPS"]),
        dict(tdm([ob("Range", 0), ob("Range", 1), ob("Range", 2, 1), ob("Range", 3, 1), ob("Range", 4, 2)], (("STA", "SAT", "STA"), ("STB", "SAT", "STB"), ("STC", "SAT"))), pscale=["TT", "UTC", "TAI"]),
        # (fixed 1daca9c) points kept in a non-cartesian form
        {"type": "oem", "segs": [dict(seg([pt(0), pt(1)]), form="keplerian")], "as_list": False},
        # centres other than the Earth: the three-word JPL centre, a two-word one, an analytical body, in both message types that carry CENTER_NAME
        opm(centre={"src": "jpl", "name": "SolarSystemBarycenter"}), opm(centre={"src": "jpl", "name": "MarsBarycenter"}, mans=[man("QSW")]),
        opm(centre={"src": "solarsystem", "name": "Moon"}), opm(centre={"src": "jpl", "name": "Venus"}),
        {"type": "oem", "segs": [dict(seg([pt(0, cov), pt(1)]), centre={"src": "jpl", "name": "SolarSystemBarycenter"})], "as_list": False},
        {"type": "oem", "segs": [dict(seg([pt(0), pt(1)]), centre={"src": "solarsystem", "name": "Sun"}), seg([pt(0)])], "as_list": True},
        # (fixed 1063a10, b15e5e0) Lagrange-point centres in XML; Lagrange point of a body whose own name has two words
        opm(centre={"src": "lagrange", "name": "Earth-Moon-L1", "a": "Earth", "b": "Moon", "k": 1}, kep=False),
        {"type": "oem", "segs": [dict(seg([pt(0), pt(1)]), centre={"src": "lagrange", "name": "Sun-Earth-L2", "a": "Sun", "b": "Earth", "k": 2})], "as_list": False},
        opm(centre={"src": "lagrange", "name": "Sun-EarthBarycenter-L2", "a": "Sun", "b": "EarthBarycenter", "k": 2}, kep=False),
        # open finding: Keplerian maneuvers
        opm(mans=[dict(man(None), kind="KI", dkep={"da": 1000.0, "di": 0.0, "dOmega": 0.0})]),
        opm(mans=[dict(man(None), kind="KC", dur_ms=60000, dkep={"da": 1000.0, "di": 0.001, "dOmega": 0.0})]),
    ]


def oracle(ctx, widened):
    out = Outcome()
    rng = ctx.rng
    big = widened or ctx.thorough
    for spec in witness_specs():
        check_spec(out, spec, "arg", kind="witness")
    n = {"opm": 60, "omm": 40, "oem": 40, "tdm": 50}
    for t, k in n.items():
        for i in range(k * (10 if big else 1)):
            spec = GENS[t](rng)
            via = "config" if i % 5 == 4 else "arg"
            check_spec(out, spec, via)
            out.count(key=json.dumps(spec, sort_keys=True)[:400], kind=t)
    return out


def replay(f):
    out = Outcome()
    i = f["input"]
    if "spec" in i:
        check_spec(out, i["spec"], i.get("via", "arg"), kind="replay")
        out.failures = [x for x in out.failures if x["family"] == f["family"]] or out.failures
    return out


# ---------------------------------------------------------------- extraction: tables read from the source on every run

def _parse(name):
    p = os.path.join(CCSDS_DIR, name)
    return ast.parse(open(p).read(), p)


def _func(tree, name):
    for n in ast.walk(tree):
        if isinstance(n, ast.FunctionDef) and n.name == name:
            return n
    raise RuntimeError(f"function {name} not found")


def _const(n):
    return n.value if isinstance(n, ast.Constant) else None


def _alias_eq(fn):
    """`if/elif <expr> == "A": <name> = "B"`  ->  [("A", "B")]"""
    out = []
    for n in ast.walk(fn):
        if isinstance(n, ast.If) and isinstance(n.test, ast.Compare) and len(n.test.ops) == 1 and isinstance(n.test.ops[0], ast.Eq):
            a = _const(n.test.comparators[0])
            if isinstance(a, str) and len(n.body) == 1 and isinstance(n.body[0], ast.Assign) and isinstance(_const(n.body[0].value), str):
                tgt = n.body[0].targets[0]
                if isinstance(tgt, ast.Name) and "frame" in tgt.id:
                    out.append((a, n.body[0].value.value))
    return sorted(set(out))


def _alias_in(fn):
    """`if <name> in ("A", "B"): <name> = "C"`  ->  (["A","B"], "C") ; ([], "") when absent"""
    for n in ast.walk(fn):
        if isinstance(n, ast.If) and isinstance(n.test, ast.Compare) and len(n.test.ops) == 1 and isinstance(n.test.ops[0], ast.In) \
                and isinstance(n.test.left, ast.Name) and "frame" in n.test.left.id and isinstance(n.test.comparators[0], (ast.Tuple, ast.List)):
            names = [_const(e) for e in n.test.comparators[0].elts]
            if len(n.body) == 1 and isinstance(n.body[0], ast.Assign) and isinstance(_const(n.body[0].value), str) \
                    and isinstance(n.body[0].targets[0], ast.Name) and n.body[0].targets[0].id == n.test.left.id:
                return names, n.body[0].value.value
    return [], ""


def _wrapped_keys(fn):
    """keys K such that the function does `X = …["K"]` / `….get("K"…)` and later `if isinstance(X, …): X = [X]`"""
    src = {}
    for n in ast.walk(fn):
        if isinstance(n, ast.Assign) and len(n.targets) == 1 and isinstance(n.targets[0], ast.Name):
            v = n.value
            key = None
            if isinstance(v, ast.Subscript):
                key = _const(v.slice)
            elif isinstance(v, ast.Call) and isinstance(v.func, ast.Attribute) and v.func.attr == "get" and v.args:
                key = _const(v.args[0])
            if isinstance(key, str):
                src.setdefault(n.targets[0].id, key)
    out = set()
    for n in ast.walk(fn):
        if isinstance(n, ast.If) and isinstance(n.test, ast.Call) and isinstance(n.test.func, ast.Name) and n.test.func.id == "isinstance" \
                and isinstance(n.test.args[0], ast.Name) and len(n.body) == 1 and isinstance(n.body[0], ast.Assign):
            x = n.test.args[0].id
            b = n.body[0]
            if isinstance(b.targets[0], ast.Name) and b.targets[0].id == x and isinstance(b.value, ast.List) and len(b.value.elts) == 1 \
                    and isinstance(b.value.elts[0], ast.Name) and b.value.elts[0].id == x and x in src:
                out.add(src[x])
    return out


def _elems_lists(fn):
    out = []
    for n in ast.walk(fn):
        if isinstance(n, ast.Assign) and isinstance(n.targets[0], ast.Name) and n.targets[0].id == "elems" and isinstance(n.value, ast.List):
            out.append([_const(e) for e in n.value.elts])
    return out


def lstr(xs):
    return "[" + ", ".join(json.dumps(x) for x in xs) + "]"


def scale_reference(mod, src_name):
    """In which time scale do the writers of a module print the dates of one segment: `True` = the scale the segment is labelled with
    (`in_scale(x.date, S.start.scale)` with S bound by the loop over the segments), `False` = a scale fixed once for the whole message
    (a name bound outside every loop from the object handed to the writer).  Looks at every `in_scale(<loop variable>.date, REF)` call of the
    module; an unrecognised form of REF is an extraction error, never a default."""
    parents = {}
    for n in ast.walk(mod):
        for c in ast.iter_child_nodes(n):
            parents[c] = n

    def up(n):
        while n in parents:
            n = parents[n]
            yield n

    def targets(t):
        return {x.id for x in ast.walk(t) if isinstance(x, ast.Name)}

    def root(e):
        while isinstance(e, (ast.Attribute, ast.Subscript)):
            e = e.value
        return e.id if isinstance(e, ast.Name) else None

    def resolve(ref, at, fn, depth=0):
        """'segment' / 'message' for the expression `ref` used at node `at` inside function `fn`"""
        r = root(ref)
        if r is None or depth > 4:
            raise RuntimeError(f"{src_name}: cannot tell which object the time scale `{ast.unparse(ref)}` is taken from")
        loops = [a for a in [at] + list(up(at)) if isinstance(a, (ast.For, ast.comprehension))]
        comp_owner = [a for a in [at] + list(up(at)) if isinstance(a, (ast.ListComp, ast.GeneratorExp, ast.SetComp, ast.DictComp))]
        gens = [g for c in comp_owner for g in c.generators]
        bound_by_loop = [l for l in loops + gens if r in targets(l.target)]
        if bound_by_loop:
            return "segment"
        assigns = [a for a in ast.walk(fn) if isinstance(a, ast.Assign) and any(r in targets(t) for t in a.targets)]
        if len(assigns) == 1:
            a = assigns[0]
            if any(isinstance(x, ast.For) for x in up(a)):
                return "segment" if root(a.value) is None else resolve(a.value, a, fn, depth + 1)
            return resolve(a.value, a, fn, depth + 1)
        if not assigns and r in {x.arg for x in fn.args.args}:
            return "message"
        raise RuntimeError(f"{src_name}: cannot tell which object the time scale `{ast.unparse(ref)}` is taken from")

    found = []
    for fn_ in [n for n in ast.walk(mod) if isinstance(n, ast.FunctionDef) and not n.name.startswith("_loads")]:
        for call in [n for n in ast.walk(fn_) if isinstance(n, ast.Call) and isinstance(n.func, ast.Name) and n.func.id == "in_scale" and len(n.args) == 2]:
            first = call.args[0]
            if not (isinstance(first, ast.Attribute) and first.attr == "date" and isinstance(first.value, ast.Name)):
                continue
            var = first.value.id
            loops = [a for a in up(call) if isinstance(a, ast.For)] + [g for a in up(call) if isinstance(a, (ast.ListComp, ast.GeneratorExp)) for g in a.generators]
            inner = [l for l in loops if var in targets(l.target)]
            if not inner:
                continue                        # not a date of the loop over the points / observations
            # the loop over the points itself does not count as "the segment"
            ref = call.args[1]
            if root(ref) == var:
                raise RuntimeError(f"{src_name}: `{ast.unparse(call)}` converts a date to its own scale")
            found.append(resolve(ref, parents[inner[0]] if isinstance(inner[0], ast.For) else call, fn_))
    if not found:
        raise RuntimeError(f"{src_name}: no `in_scale(<point>.date, …)` in the writers")
    return all(x == "segment" for x in found)


def read_tables():
    t = {}
    commons, cov, opm, oem, omm, tdm = (_parse(f) for f in ("commons.py", "cov.py", "opm.py", "oem.py", "omm.py", "tdm.py"))
    for n in ast.walk(commons):
        if isinstance(n, ast.Assign) and isinstance(n.targets[0], ast.Name) and n.targets[0].id == "units_dict":
            t["unitNames"] = [_const(k) for k in n.value.keys]
    # covariance
    lc, dc = _func(cov, "load_cov"), _func(cov, "dump_cov")
    els = _elems_lists(dc)
    for mod, fns in ((opm, ["_dumps_xml"]), (omm, ["_dumps_xml"]), (oem, ["_dumps_kvn", "_dumps_xml"])):
        for f in fns:
            for e in _elems_lists(_func(mod, f)):
                if e != els[0]:
                    raise RuntimeError(f"covariance element names differ between writers: {e} vs {els[0]}")
    t["covElems"] = els[0]
    # key of entry (i, j), j <= i, as the writers spell it: f"C{a}_{b}" (cov.py builds it as "C" + f"{a}_{b}")
    srcs = {f: open(os.path.join(CCSDS_DIR, f)).read() for f in ("cov.py", "opm.py", "omm.py", "oem.py")}
    if 'txt = f"{a}_{b}"' not in srcs["cov.py"] or 'f"C{txt:<19}' not in srcs["cov.py"] or any(srcs[f].count('f"C{a}_{b}"') < 1 for f in ("opm.py", "omm.py", "oem.py")):
        raise RuntimeError("covariance key spelling changed in the writers")
    t["covWriteKeys"] = [[f"C{a}_{b}" for b in els[0][: i + 1]] for i, a in enumerate(els[0])]
    for n in ast.walk(lc):
        if isinstance(n, ast.Assign) and isinstance(n.targets[0], ast.Name) and n.targets[0].id == "values":
            t["covRead"] = [[_const(c.value.slice) for c in row.elts] for row in n.value.elts]
    t["covAliasOut"] = _alias_eq(dc)
    for mod, fns in ((opm, ["_dumps_xml"]), (omm, ["_dumps_xml"]), (oem, ["_dumps_kvn", "_dumps_xml"])):
        for f in fns:
            fn = _func(mod, f)
            # covariance blocks of the XML/OEM writers repeat the alias; the maneuver alias is read separately below
            if not set(t["covAliasOut"]) <= set(_alias_eq(fn)):
                raise RuntimeError(f"covariance frame alias differs in {f}")
    t["covAliasIn"] = _alias_in(lc)
    # maneuvers
    def deep(mod, name):
        """alias rules of a writer and of the module-level helpers it calls (a refactoring may move the maneuver block into one)"""
        fn = _func(mod, name)
        local = {n.name for n in mod.body if isinstance(n, ast.FunctionDef)} - {name}
        called = {c.func.id for c in ast.walk(fn) if isinstance(c, ast.Call) and isinstance(c.func, ast.Name) and c.func.id in local}
        return sorted(set(_alias_eq(fn)) | {a for h in called for a in _alias_eq(_func(mod, h))})
    mk, mx = deep(opm, "_dumps_kvn"), deep(opm, "_dumps_xml")
    if mk != mx:
        raise RuntimeError(f"maneuver frame alias differs between the OPM writers: {mk} vs {mx}")
    t["manAliasOut"] = mk
    ik, ix = _alias_in(_func(opm, "_loads_kvn")), _alias_in(_func(opm, "_loads_xml"))
    if ik != ix:
        raise RuntimeError(f"maneuver frame alias differs between the OPM readers: {ik} vs {ix}")
    t["manAliasIn"] = ik
    # OMM theories
    for n in ast.walk(_func(omm, "_loads_kvn")):
        if isinstance(n, ast.Compare) and isinstance(n.ops[0], ast.In) and "MEAN_ELEMENT_THEORY" in ast.dump(n.left):
            t["ommTheories"] = [_const(e) for e in n.comparators[0].elts]
    # OEM KVN covariance rows
    rows = {}
    for n in ast.walk(_func(oem, "_loads_kvn")):
        if isinstance(n, ast.If) and isinstance(n.test, ast.Compare) and isinstance(n.test.ops[0], ast.Eq) and "len(values)" in ast.unparse(n.test.left):
            k = _const(n.test.comparators[0])
            keys = {}
            for b in n.body:
                if isinstance(b, ast.Assign) and isinstance(b.targets[0], ast.Subscript) and isinstance(b.value, ast.Call) and getattr(b.value.func, "id", "") == "Field":
                    keys[_const(b.value.args[0].slice)] = _const(b.targets[0].slice)
            if keys:
                rows[k] = [keys[i] for i in range(k)]
    t["oemCovRowKeys"] = [rows[k] for k in range(1, 7)]
    # TDM measurement names (classes actually imported by tdm.py)
    imported = {a.asname or a.name for n in ast.walk(tdm) if isinstance(n, ast.ImportFrom) for a in n.names}
    names = []
    for n in ast.walk(_func(tdm, "encode_measurement")):
        if isinstance(n, ast.If) and isinstance(n.test, ast.Call) and getattr(n.test.func, "id", "") == "isinstance":
            cls = n.test.args[1].id
            for b in n.body:
                if isinstance(b, ast.Assign) and b.targets[0].id == "name" and cls in imported:
                    names.append((cls, _const(b.value)))
    t["tdmNames"] = sorted(set(names), key=names.index)
    # TDM readers: data key -> class, and whether the branch also tests ANGLE_TYPE
    def read_kinds(fn):
        out = []
        for n in ast.walk(fn):
            if isinstance(n, ast.If):
                cmp = [c for c in ast.walk(n.test) if isinstance(c, ast.Compare) and isinstance(c.left, ast.Name) and c.left.id in ("key", "meas_type")
                       and isinstance(c.ops[0], ast.Eq) and isinstance(_const(c.comparators[0]), str)]
                if not cmp:
                    continue
                cls = [c.func.id for b in n.body for c in ast.walk(b) if isinstance(c, ast.Call) and isinstance(c.func, ast.Name) and c.func.id[:1].isupper() and c.func.id != "CcsdsError"]
                if cls:
                    out.append((cmp[0].comparators[0].value, cls[0], isinstance(n.test, ast.BoolOp)))
        return out
    rk, rx = read_kinds(_func(tdm, "_loads_kvn")), read_kinds(_func(tdm, "_loads_xml"))
    if rk != rx:
        raise RuntimeError(f"TDM readers accept different keys: {rk} vs {rx}")
    t["tdmReadKinds"] = rk
    # classes whose presence makes collect_metadata write ANGLE_TYPE / RANGE_UNITS
    trig = {}
    for n in ast.walk(_func(tdm, "collect_metadata")):
        if isinstance(n, ast.If) and len(n.body) == 1 and isinstance(n.body[0], ast.Assign) and isinstance(n.body[0].targets[0], ast.Subscript):
            k = _const(n.body[0].targets[0].slice)
            if k in ("ANGLE_TYPE", "RANGE_UNITS"):
                trig[k] = [c.left.value for c in ast.walk(n.test) if isinstance(c, ast.Compare) and isinstance(c.ops[0], ast.In) and isinstance(_const(c.left), str)]
    t["tdmAngleTrig"], t["tdmRangeTrig"] = trig["ANGLE_TYPE"], trig["RANGE_UNITS"]
    # does the KVN OMM writer need the Tle object; does dumps accept a list of measure sets
    t["ommKvnNeedsTle"] = "tle.tle." in ast.get_source_segment(open(os.path.join(CCSDS_DIR, "omm.py")).read(), _func(omm, "_dumps_kvn"))
    t["tdmDumpsAcceptsList"] = "Measure" in ast.get_source_segment(open(os.path.join(CCSDS_DIR, "tdm.py")).read(), _func(tdm, "dumps")) and \
        "MeasureSet" in ast.get_source_segment(open(os.path.join(CCSDS_DIR, "commons.py")).read(), _func(commons, "detect2dump"))
    # do the XML writers skip an empty user-defined dict (`if data._data.get(...)`) or write an empty element (`if ... in data._data`)
    skips = []
    for mod in (opm, omm):
        for n in ast.walk(_func(mod, "_dumps_xml")):
            if isinstance(n, ast.If) and "userDefinedParameters" in ast.dump(n) and "ccsds_user_defined" in ast.dump(n.test):
                skips.append(not (isinstance(n.test, ast.Compare) and isinstance(n.test.ops[0], ast.In)))
    if len(skips) != 2 or skips[0] != skips[1]:
        raise RuntimeError(f"user-defined block of the OPM / OMM XML writers differs: {skips}")
    t["xmlUdSkipsEmpty"] = skips[0]
    # which XML groups the readers wrap into a list
    w = {"opm": _wrapped_keys(_func(opm, "_loads_xml")), "omm": _wrapped_keys(_func(omm, "_loads_xml")),
         "oem": _wrapped_keys(_func(oem, "_loads_xml")), "tdm": _wrapped_keys(_func(tdm, "_loads_xml"))}
    t["wrap"] = {"wrapOpmManeuver": "maneuverParameters" in w["opm"], "wrapOpmUd": "USER_DEFINED" in w["opm"],
                 "wrapOmmUd": "USER_DEFINED" in w["omm"], "wrapOemSegment": "segment" in w["oem"],
                 "wrapOemStateVector": "stateVector" in w["oem"], "wrapOemCov": "covarianceMatrix" in w["oem"],
                 "wrapTdmSegment": "segment" in w["tdm"], "wrapTdmObservation": "observation" in w["tdm"]}
    # ---- Generated/CcsdsExtTables.lean: what the written dates mean, constructor options of the objects written
    src = {f: open(os.path.join(CCSDS_DIR, f)).read() for f in ("opm.py", "oem.py", "tdm.py")}
    # do the writers convert a date to the TIME_SYSTEM of the message: directly (`.change_scale(`) or through a helper of commons.py that does
    csrc = open(os.path.join(CCSDS_DIR, "commons.py")).read()
    helpers = [n.name for n in ast.walk(commons) if isinstance(n, ast.FunctionDef) and "change_scale" in ast.get_source_segment(csrc, n)]
    t["scaleConv"] = {k: "change_scale" in src[k + ".py"] or any(re.search(r"\b%s\(" % h, src[k + ".py"]) for h in helpers) for k in ("opm", "oem", "tdm")}
    # the scale the dates of one segment are converted to: the label of that segment, or one scale for the whole message
    t["scaleOfSegment"] = {"oem": scale_reference(oem, "oem.py"), "tdm": scale_reference(tdm, "tdm.py")}
    # attribute of a ContinuousMan printed as MAN_EPOCH_IGNITION: `date = man.<attr>` under `isinstance(man, ContinuousMan)`,
    # else the first element returned by the helper that holds that test
    attrs = set()
    for fn in [n for n in ast.walk(opm) if isinstance(n, ast.FunctionDef)]:
        hits = [n for n in ast.walk(fn) if isinstance(n, ast.If) and "id='ContinuousMan'" in ast.dump(n.test) and "isinstance" in ast.dump(n.test)]
        if not hits or fn.name.startswith("_loads"):
            continue
        found = set()
        for n in hits:
            for b in n.body:
                if isinstance(b, ast.Assign) and isinstance(b.targets[0], ast.Name) and b.targets[0].id == "date" and isinstance(b.value, ast.Attribute):
                    found.add(b.value.attr)
        if not found:
            for n in ast.walk(fn):
                if isinstance(n, ast.Return) and isinstance(n.value, ast.Tuple) and n.value.elts and isinstance(n.value.elts[0], ast.Attribute) \
                        and n.value.elts[0].attr in ("date", "start", "stop", "median"):
                    found.add(n.value.elts[0].attr)
        attrs |= found
    if len(attrs) != 1:
        raise RuntimeError(f"cannot tell which date of a ContinuousMan the OPM writers print: {sorted(attrs)}")
    t["manIgnitionAttr"] = attrs.pop()
    pos = set()
    for f in ("_loads_kvn", "_loads_xml"):
        for n in ast.walk(_func(opm, f)):
            if isinstance(n, ast.Call) and getattr(n.func, "id", "") == "ContinuousMan":
                kw = {k.arg: _const(k.value) for k in n.keywords}
                pos.add(kw.get("date_pos", "start"))
    if len(pos) != 1:
        raise RuntimeError(f"OPM readers rebuild continuous maneuvers with different date_pos: {sorted(pos, key=str)}")
    t["manReadDatePos"] = str(pos.pop())
    conv = lambda fn: any(x in ast.get_source_segment(src["oem.py"], _func(oem, fn)) for x in ('.form = "cartesian"', 'form="cartesian"'))
    t["oemKvnConvertsForm"], t["oemXmlConvertsForm"] = conv("_dumps_kvn"), conv("_dumps_xml")
    t["opmWritesKeplerian"] = "dkep2dv" in src["opm.py"] or "Keplerian" in src["opm.py"].replace("Keplerian elements", "")
    # CENTER_NAME: under which test the writers split the CamelCase name of the centre (`" ".join(re.findall("[A-Z][^A-Z]*", name))`), and
    # that the four readers rebuild the frame name with `.title().replace(" ", "")`
    def center_pats(fname):
        fn = _func(commons, fname)
        local = {n.name for n in commons.body if isinstance(n, ast.FunctionDef)} - {fname}
        fns = [fn] + [_func(commons, c.func.id) for c in ast.walk(fn) if isinstance(c, ast.Call) and isinstance(c.func, ast.Name) and c.func.id in local]
        found = []
        for f in fns:
            for n in ast.walk(f):
                if isinstance(n, ast.If) and any('" ".join(re.findall("[A-Z][^A-Z]*"' in ast.unparse(b).replace("'", '"') for b in n.body):
                    tst = n.test
                    if isinstance(tst, ast.Call) and ast.unparse(tst.func) == "re.search" and isinstance(_const(tst.args[0]), str):
                        found.append(tst.args[0].value.split("|"))
                    elif isinstance(tst, ast.Compare) and isinstance(tst.ops[0], ast.In) and isinstance(_const(tst.left), str):
                        found.append([tst.left.value])
                    else:
                        raise RuntimeError(f"{fname}: test guarding the CamelCase split not understood: {ast.unparse(tst)}")
        if len(found) != 1:
            raise RuntimeError(f"{fname}: CamelCase split of the centre name not found (or found {len(found)} times)")
        if ".upper()" not in ast.get_source_segment(csrc, fn):
            raise RuntimeError(f"{fname}: centre name no longer upper-cased")
        for pt in found[0]:
            if pt != "L\\d" and not pt.isalnum():
                raise RuntimeError(f"{fname}: pattern {pt!r} is neither a plain word nor L\\d")
        return found[0]
    t["kvnCenterPats"], t["xmlCenterPats"] = center_pats("dump_kvn_meta_odm"), center_pats("dump_xml_meta_odm")
    for mod, nm, fns in ((opm, "opm.py", ("_loads_kvn", "_loads_xml")), (oem, "oem.py", ("_loads_kvn", "_loads_xml"))):
        msrc = open(os.path.join(CCSDS_DIR, nm)).read()
        for f in fns:
            seg = ast.get_source_segment(msrc, _func(mod, f))
            if '.title().replace(" ", "")' not in seg or '.lower() != "earth"' not in seg:
                raise RuntimeError(f"{nm} {f}: the centre rule `center.title().replace(' ', '')` / `center.lower() != 'earth'` changed")
    # names of the centres the library can create (live objects)
    cs = centres()
    t["centerNames"] = sorted({centre_frame(c).center.name for c in cs.values() if c["src"] != "lagrange"})
    lag = sorted({centre_frame(c).center.name for c in cs.values() if c["src"] == "lagrange"})
    t["lagrangeNames"] = [n for n in lag if " " not in n]
    t["lagrangeBlankNames"] = [n for n in lag if " " in n]
    # the USER_DEFINED_ prefix of the KVN keys: writers `f"USER_DEFINED_{k} = {v}\\n"`, readers `k.startswith(P)` ... `k[N:]`
    wp, rp, rs = set(), set(), set()
    for mod, name in ((opm, "opm.py"), (omm, "omm.py")):
        for n in ast.walk(_func(mod, "_dumps_kvn")):
            if isinstance(n, ast.JoinedStr) and n.values and isinstance(n.values[0], ast.Constant) and str(n.values[0].value).startswith("USER_DEFINED"):
                wp.add(n.values[0].value)
        fn = _func(mod, "_loads_kvn")
        for n in ast.walk(fn):
            if isinstance(n, ast.Call) and isinstance(n.func, ast.Attribute) and n.func.attr == "startswith" and n.args and str(_const(n.args[0])).startswith("USER_DEFINED"):
                rp.add(n.args[0].value)
            if isinstance(n, ast.Subscript) and isinstance(n.slice, ast.Slice) and n.slice.upper is None and isinstance(_const(n.slice.lower), int) and isinstance(n.value, ast.Name):
                rs.add(n.slice.lower.value)
    if len(wp) != 1 or len(rp) != 1 or len(rs) != 1:
        raise RuntimeError(f"cannot read how the KVN readers/writers spell user-defined keys: writers {sorted(wp)}, readers startswith {sorted(rp)}, slice {sorted(rs)}")
    t["udWritePrefix"], t["udReadPrefix"], t["udReadSkip"] = wp.pop(), rp.pop(), rs.pop()
    # frames (live objects): name, CENTER_NAME and REF_FRAME as the KVN writer prints them — the ten Earth-centred frames and every frame
    # centred elsewhere that the library can create (solar-system bodies, bodies of the JPL test kernels, Lagrange points)
    from beyond.frames import get_frame
    from beyond.io.ccsds import dumps as _dumps
    from beyond.orbits import StateVector as _SV
    ft = []
    frs = [get_frame(f) for f in FRAMES] + [centre_frame(c) for _, c in sorted(centres().items())]
    seen = set()
    for fr in frs:
        if fr.name in seen:
            continue
        seen.add(fr.name)
        txt = _dumps(_SV([7.0e6, 1.0e5, -3.0e5, 10.0, 7500.0, 300.0], _date(7367 * 86400 * 10**6, "UTC"), "cartesian", fr), fmt="kvn", kep=False)
        cn = re.search(r"^CENTER_NAME\s*=\s*(.*?)\s*$", txt, re.M).group(1)
        rf = re.search(r"^REF_FRAME\s*=\s*(.*?)\s*$", txt, re.M).group(1)
        if fr.name != fr.center.name and cn != "EARTH":
            raise RuntimeError(f"frame {fr.name} is centred on {fr.center.name}: the readers rebuild the frame from the centre name")
        ft.append((fr.name, cn, rf))
    t["frameTable"] = ft
    return t


def extract(ctx):
    t = read_tables()
    ctx.tables = t
    pair = lambda a, b: f"({json.dumps(a)}, {json.dumps(b)})"
    L = ["/- GENERATED by harness/props/C13.py from beyond/io/ccsds/*.py (AST) and the live frame objects — do not edit. -/",
         "namespace BeyondVerif.Generated",
         f"def unitNames : List String := {lstr(t['unitNames'])}",
         f"def covElems : List String := {lstr(t['covElems'])}",
         "def covRead : List (List String) := [" + ",\n  ".join(lstr(r) for r in t["covRead"]) + "]",
         "def covWriteKeys : List (List String) := [" + ",\n  ".join(lstr(r) for r in t["covWriteKeys"]) + "]",
         "def covAliasOut : List (String × String) := [" + ", ".join(pair(a, b) for a, b in t["covAliasOut"]) + "]",
         f"def covAliasIn : List String × String := ({lstr(t['covAliasIn'][0])}, {json.dumps(t['covAliasIn'][1])})",
         "def manAliasOut : List (String × String) := [" + ", ".join(pair(a, b) for a, b in t["manAliasOut"]) + "]",
         f"def manAliasIn : List String × String := ({lstr(t['manAliasIn'][0])}, {json.dumps(t['manAliasIn'][1])})",
         f"def ommTheories : List String := {lstr(t['ommTheories'])}",
         "def oemCovRowKeys : List (List String) := [" + ",\n  ".join(lstr(r) for r in t["oemCovRowKeys"]) + "]",
         "def tdmNames : List (String × String) := [" + ", ".join(pair(a, b) for a, b in t["tdmNames"]) + "]",
         "def frameTable : List (String × String × String) := [" + ", ".join(f"({json.dumps(a)}, {json.dumps(b)}, {json.dumps(c)})" for a, b, c in t["frameTable"]) + "]"]
    L.append("def tdmReadKinds : List (String × String × Bool) := [" + ", ".join(f"({json.dumps(a)}, {json.dumps(b)}, {'true' if c else 'false'})" for a, b, c in t["tdmReadKinds"]) + "]")
    L.append(f"def tdmAngleTrig : List String := {lstr(t['tdmAngleTrig'])}")
    L.append(f"def tdmRangeTrig : List String := {lstr(t['tdmRangeTrig'])}")
    L.append(f"def ommKvnNeedsTle : Bool := {'true' if t['ommKvnNeedsTle'] else 'false'}")
    L.append(f"def xmlUdSkipsEmpty : Bool := {'true' if t['xmlUdSkipsEmpty'] else 'false'}")
    L.append(f"def tdmDumpsAcceptsList : Bool := {'true' if t['tdmDumpsAcceptsList'] else 'false'}")
    for k, v in t["wrap"].items():
        L.append(f"def {k} : Bool := {'true' if v else 'false'}")
    L.append("end BeyondVerif.Generated")
    ch = core.write_if_changed(os.path.join(core.LEAN, "BeyondVerif", "Generated", "CcsdsTables.lean"), "\n".join(L) + "\n")
    b = lambda v: "true" if v else "false"
    E = ["/- GENERATED by harness/props/C13.py from beyond/io/ccsds/*.py (AST) — do not edit. -/",
         "namespace BeyondVerif.Generated",
         f"def opmManScaleConv : Bool := {b(t['scaleConv']['opm'])}",
         f"def oemPointScaleConv : Bool := {b(t['scaleConv']['oem'])}",
         f"def tdmObsScaleConv : Bool := {b(t['scaleConv']['tdm'])}",
         f"def oemPointScaleOfSegment : Bool := {b(t['scaleOfSegment']['oem'])}",
         f"def tdmObsScaleOfSegment : Bool := {b(t['scaleOfSegment']['tdm'])}",
         f"def manIgnitionAttr : String := {json.dumps(t['manIgnitionAttr'])}",
         f"def manReadDatePos : String := {json.dumps(t['manReadDatePos'])}",
         f"def oemKvnConvertsForm : Bool := {b(t['oemKvnConvertsForm'])}",
         f"def oemXmlConvertsForm : Bool := {b(t['oemXmlConvertsForm'])}",
         f"def opmWritesKeplerian : Bool := {b(t['opmWritesKeplerian'])}",
         f"def udWritePrefix : String := {json.dumps(t['udWritePrefix'])}",
         f"def udReadPrefix : String := {json.dumps(t['udReadPrefix'])}",
         f"def udReadSkip : Nat := {t['udReadSkip']}",
         f"def kvnCenterPats : List String := {lstr(t['kvnCenterPats'])}",
         f"def xmlCenterPats : List String := {lstr(t['xmlCenterPats'])}",
         f"def centerNames : List String := {lstr(t['centerNames'])}",
         f"def lagrangeNames : List String := {lstr(t['lagrangeNames'])}",
         f"def lagrangeBlankNames : List String := {lstr(t['lagrangeBlankNames'])}",
         "end BeyondVerif.Generated"]
    ch2 = core.write_if_changed(os.path.join(core.LEAN, "BeyondVerif", "Generated", "CcsdsExtTables.lean"), "\n".join(E) + "\n")
    return (["Generated/CcsdsTables.lean"] if ch else []) + (["Generated/CcsdsExtTables.lean"] if ch2 else [])


# ---------------------------------------------------------------- correspondence: compiled model vs real dumps/loads

KEP_FRAMES = {"G50", "EME2000", "GCRF", "MOD", "TOD", "TEME", "CIRF"}   # only decides whether ignored lines are present


def hx(s):
    return "x" + str(s).encode().hex()


def _date_txt(us):
    return (T0 + pytd(microseconds=us)).strftime("%Y-%m-%dT%H:%M:%S.%f")


def _cov_toks(c):
    if c is None:
        return ["0"]
    return ["1", "-" if c["frame"] == "own" else c["frame"]] + [f"{c['vals'][i][j] / 1000000.0:0.12e}" for i in range(6) for j in range(i + 1)]


def _ud_toks(ud):
    if ud is None:
        return ["-"]
    return [str(len(ud))] + [t for k, v in ud.items() for t in (hx(k), hx(v))]


def _sv_toks(c):
    return [_date_txt(c["epoch"])] + [f"{x / 1000.0:0.6f}" for x in c["state"]]


def tokens(c, kep=False, has_tle=False):
    """message tokens (grammar of lean/BeyondVerif/Drv/C13.lean) of a canonical tuple, numbers printed with the writers' own formats"""
    t = c["type"]
    if t == "opm":
        out = [hx(c["name"]), hx(c["id"]), c["frame"], c["scale"]] + _sv_toks(c)
        out += ["1"] + ["k"] * 7 if kep else ["0"]
        out += _cov_toks(c["cov"])
        out.append(str(len(c["mans"])))
        for m in c["mans"]:
            out += [str(int(f"{m['dur']:0.3f}".replace(".", ""))), _date_txt(m["epoch"]), "-" if m["frame"] is None else m["frame"],
                    "-" if m["comment"] is None else hx(m["comment"])] + [f"{x / 1000.0:.6f}" for x in m["dv"]]
        return out + _ud_toks(c["ud"])
    if t == "omm":
        i, Om, e, om, M, n = c["elems"]
        deg = math.degrees
        out = [hx(c["name"]), hx(c["id"]), c["frame"], c["scale"], _date_txt(c["epoch"]),
               f"{n / (2 * math.pi / 86400.0):0.8f}", f"{e:0.7f}", f"{deg(i):0.4f}", f"{deg(Om):0.4f}", f"{deg(om):0.4f}", f"{deg(M):0.4f}",
               str(int(c["norad_id"])), str(int(c["element_nb"])), str(int(c["revolutions"])), f"{c['bstar']:.9f}", f"{c['ndot'] / 2:.8f}", f"{c['ndotdot'] / 6:.1f}"]
        return out + _cov_toks(c["cov"]) + _ud_toks(c["ud"]) + ["1" if has_tle else "0"]
    if t == "oem":
        out = [str(len(c["segs"]))]
        for s in c["segs"]:
            p0 = s["points"][0]
            out += [hx(s["name"]), hx(s["id"]), p0["frame"], p0["scale"], s["method"].upper(), "-" if s["order"] is None else str(s["order"]), str(len(s["points"]))]
            for p in s["points"]:
                out += _sv_toks(p) + _cov_toks(p["cov"])
        return out
    raise ValueError(t)


def _obs_toks(o):
    v = o["value"]
    txt = {"Range": lambda: f"{v / 1000.0:.6f}", "Azimut": lambda: f"{-math.degrees(v) % 360:.2f}",
           "Elevation": lambda: f"{math.degrees(v):.2f}", "Doppler": lambda: f"{v:.6f}"}[o["kind"]]()
    return [o["kind"], str(len(o["path"]))] + [hx(p) for p in o["path"]] + [_date_txt(o["epoch"]), txt]


def tdm_tokens_in(c):
    return [c["obs"][0]["scale"], str(len(c["obs"]))] + [t for o in c["obs"] for t in _obs_toks(o)]


def tdm_tokens_out(back):
    """loaded TDM: scale, number of sets, each set"""
    from beyond.utils.measures import MeasureSet
    sets = [back] if isinstance(back, MeasureSet) else list(back)
    out = [sets[-1][0].date.scale.name if sets and len(sets[-1]) else "", str(len(sets))]
    for s in sets:
        c = canon(s)
        out.append(str(len(c["obs"])))
        for o in c["obs"]:
            out += _obs_toks(o)
    return out


def corr_case(out, spec, via, kind):
    """one object: both encodings, round trip + re-dump, real code vs model"""
    from beyond.io.ccsds import loads
    t = spec["type"]
    obj, kw = build(spec)
    c0 = canon(obj, spec, kw)
    kep = t == "opm" and spec["kep"] and obj.frame.orientation.name in KEP_FRAMES
    has_tle = t == "omm" and "tle" in obj._data
    toks = tdm_tokens_in(c0) if t == "tdm" else tokens(c0, kep=kep, has_tle=has_tle)
    lines, reals = [], []
    for fmt in ("kvn", "xml"):
        lines.append(f"c13 rt {t} {fmt} " + " ".join(toks))
        back = None
        try:
            text = Fmt(fmt, via).dumps(obj, **kw)
            try:
                back = loads(text)
                if t == "tdm":
                    reals.append("ok " + " ".join(tdm_tokens_out(back)))
                else:
                    reals.append("ok " + " ".join(tokens(canon(back, spec), kep=False, has_tle=t == "omm" and "tle" in back._data)))
            except Exception as e:
                reals.append(f"err load {type(e).__name__}")
        except Exception as e:
            reals.append(f"err dump {type(e).__name__}")
        for f2 in ("kvn", "xml"):
            lines.append(f"c13 redump {t} {fmt} {f2} " + " ".join(toks))
            if back is None:
                reals.append(reals[-1] if reals[-1].startswith("err") else "?")
                continue
            try:
                Fmt(f2, "arg").dumps(back)
                reals.append("ok")
            except Exception as e:
                reals.append(f"err redump {type(e).__name__}")
    return lines, reals


def _model_domain(spec):
    """the structural model has no Keplerian maneuvers, no form of the points and one time scale per message (frames centred elsewhere than on the Earth are in: regenerated frame table):
    those three options go through the `ext` operations (kepl, form, stamp)"""
    if spec["type"] == "opm":
        spec["mans"] = [dict(m, scale=None) for m in spec["mans"] if m["kind"] in ("I", "C")]
    if spec["type"] == "oem":
        for s in spec["segs"]:
            s["form"] = "cartesian"
            for p in s["points"]:
                p["scale"] = None
    if spec["type"] == "tdm":
        for o in spec["obs"]:
            o["scale"] = None
        spec.pop("pscale", None)          # a scale per path: `ext segs`
    return spec


def _sv0(scale="UTC", ep=7367 * 86400 * 10**6 + 123456, dx=0.0):
    from beyond.orbits import StateVector
    return StateVector([7.0e6 + dx, 1.0e5, -3.0e5, 10.0, 7500.0, 300.0], _date(ep, scale), "cartesian", "EME2000", name="SAT", cospar_id="2020-001A")


def _tai_of(m):
    return _tai(m.date)


def ext_cases(rng, n):
    """(request line, reply of the real code) for the operations of Model/CcsdsExt.lean"""
    from beyond.io.ccsds import dumps, loads
    from beyond.dates import timedelta
    from beyond.orbits import Ephem, StateVector
    from beyond.orbits.man import ImpulsiveMan, ContinuousMan, KeplerianImpulsiveMan, KeplerianContinuousMan
    from beyond.utils.measures import MeasureSet, Range
    out = []
    ep = 7367 * 86400 * 10**6
    for i in range(n):
        fmt = "kvn" if i % 2 == 0 else "xml"
        # thrust window of a continuous maneuver dated by its start / median / stop
        pos = rng.choice(["start", "median", "stop"])
        dur_ms = rng.choice([2, 1000, 180000, 240000, 2 * rng.randrange(1, 5 * 10**6)])
        date = ep + rng.randrange(10**5) * 10**6 + rng.randrange(10**6)
        sv = _sv0()
        sv.maneuvers = [ContinuousMan(_date(date, "UTC"), timedelta(milliseconds=dur_ms), dv=[1.0, 2.0, 3.0], date_pos=pos)]
        try:
            m = loads(dumps(sv, fmt=fmt)).maneuvers[0]
            real = f"{_us(m.start)} {_us(m.stop)}"
        except Exception as e:
            real = f"err {type(e).__name__}"
        out.append((f"c13 ext window {date} {dur_ms * 1000} {pos}", real, {"op": "window", "fmt": fmt, "date": date, "dur_ms": dur_ms, "date_pos": pos}))
        # a secondary date labelled in another scale than the message
        msg, sc = rng.choice(SCALES), rng.choice(SCALES)
        clock = ep + rng.randrange(10**5) * 10**6 + rng.randrange(10**6)
        d = _date(clock, sc)
        off_s, off_m = _us(d) - _tai(d), _us(d.change_scale(msg)) - _tai(d)
        site = rng.choice(["opm", "oem", "tdm"])
        try:
            if site == "opm":
                sv = _sv0(msg)
                sv.maneuvers = [ImpulsiveMan(d, [1.0, 2.0, 3.0])]
                back = loads(dumps(sv, fmt=fmt)).maneuvers[0].date
            elif site == "oem":
                e = Ephem([_sv0(msg, clock - 3600 * 10**6), _sv0(sc, clock, 5.0)])
                back = loads(dumps(e, fmt=fmt))[1].date
            else:
                ms = MeasureSet([Range(["A", "B", "A"], _date(clock - 3600 * 10**6, msg), 1e6), Range(["A", "B", "A"], d, 2e6)])
                back = loads(dumps(ms, fmt=fmt))[1].date
            real = f"{_us(back)} {back.scale.name}"
        except Exception as e:
            real = f"err {type(e).__name__}"
        out.append((f"c13 ext stamp {site} {msg} {sc} {clock} {off_s} {off_m}", real, {"op": "stamp", "site": site, "fmt": fmt, "msg": msg, "scale": sc, "clock": clock}))
    # a message of several segments (OEM: a list of ephemerides, TDM: a set of several paths), every segment dated in its own time
    # scale, some dates labelled otherwise; scales whose clocks differ by a constant over the message (no UT1 / TDB: `stamp` above)
    const = ["UTC", "TAI", "TT", "GPS"]
    for i in range(max(6, n // 2)):
        fmt = "kvn" if i % 2 == 0 else "xml"
        site = "tdm" if i % 3 else "oem"
        base = ep + rng.randrange(10**5) * 10**6 + rng.randrange(10**6)
        offs = {sc: _us(_date(base, sc)) - _tai(_date(base, sc)) for sc in const}
        nseg = rng.choice([2, 2, 3])
        segs = []
        for k in range(nseg):
            own = rng.choice(const)
            seg = []
            for j in range(rng.choice([2, 2, 3, 4])):
                sc = own if j == 0 or rng.random() < 0.8 else rng.choice(const)
                seg.append((base + (j * nseg + k) * 240 * 10**6 + rng.randrange(10**6), sc))
            segs.append(seg)
        try:
            if site == "tdm":
                ms = [Range([f"ST{k}", "SAT", f"ST{k}"], _date(c, sc), 1e6 + c % 1000) for k, seg in enumerate(segs) for c, sc in seg]
                if rng.random() < 0.5:                                      # as they were taken: the paths interleaved, each path in order
                    ms.sort(key=_tai_of)
                back = loads(dumps(MeasureSet(ms), fmt=fmt))
                back = [back] if isinstance(back, MeasureSet) else back
                real = " ".join(f"{len(b)} " + " ".join(f"{_us(m.date)} {m.date.scale.name}" for m in b) for b in back)
            else:
                ephs = [Ephem([_sv0(sc, c, float(j)) for j, (c, sc) in enumerate(seg)]) for seg in segs]
                back = loads(dumps(ephs, fmt=fmt))
                back = [back] if isinstance(back, Ephem) else back
                real = " ".join(f"{len(b)} " + " ".join(f"{_us(o.date)} {o.date.scale.name}" for o in b) for b in back)
        except Exception as e:
            real = f"err {type(e).__name__}"
        line = f"c13 ext segs {site} {len(segs)} " + " ".join(f"{len(seg)} " + " ".join(f"{c} {sc}" for c, sc in seg) for seg in segs) + \
            f" {len(offs)} " + " ".join(f"{sc} {o}" for sc, o in offs.items())
        out.append((line, real, {"op": "segs", "site": site, "fmt": fmt, "segs": segs}))
    for i in range(max(4, n // 3)):
        name = _ud_key(rng).replace(" ", "")
        typ = "opm" if i % 2 == 0 else "omm"
        try:
            obj, kw = build(witness_specs()[4 if typ == "opm" else 7])
            obj._data["ccsds_user_defined"] = {name: "v"}
            back = loads(dumps(obj, fmt="kvn"))._data.get("ccsds_user_defined", {})
            real = list(back)[0] if len(back) == 1 else ("none" if not back else "several")
        except Exception as e:
            real = f"err {type(e).__name__}"
        out.append((f"c13 ext udkey {name}", real, {"op": "udkey", "type": typ, "name": name}))
    for label, c in sorted(centres().items()):
        for fmt in ("kvn", "xml"):
            f = centre_frame(c)
            sv = StateVector([7.0e6, 1.0e5, -3.0e5, 10.0, 7500.0, 300.0], _date(ep, "UTC"), "cartesian", f, name="SAT", cospar_id="2020-001A")
            enc = lambda x: x.replace(" ", "_")
            try:
                txt = dumps(sv, fmt=fmt, kep=False)
                wr = re.search(r"CENTER_NAME\s*=\s*(.*)$|<CENTER_NAME>(.*)</CENTER_NAME>", txt, re.M)
                wr = (wr.group(1) or wr.group(2)).strip()
                try:
                    rd = loads(txt).frame.name
                except Exception as e:
                    m = re.search(r"'([^']*)'", str(e))
                    rd = m.group(1) if type(e).__name__ == "UnknownFrameError" and m else f"err:{type(e).__name__}"
                real = f"{enc(wr)} {enc(rd)}"
            except Exception as e:
                real = f"err dump {type(e).__name__}"
            out.append((f"c13 ext center {fmt} {enc(f.center.name)}", real, {"op": "center", "fmt": fmt, "centre": label, "name": f.center.name}))
    for fmt in ("kvn", "xml"):
        for form in FORMS[1:]:
            pts = [_sv0("UTC", ep + k * 60 * 10**6, float(k)) for k in range(2)]
            for p in pts:
                p.form = form
            try:
                dumps(Ephem(pts), fmt=fmt)
                real = "ok"
            except Exception as e:
                real = f"err dump {type(e).__name__}"
            out.append((f"c13 ext form {fmt} {form}", real, {"op": "form", "fmt": fmt, "form": form}))
        for k, man in enumerate([KeplerianImpulsiveMan(_date(ep + 10**9, "UTC"), da=1000.0), KeplerianContinuousMan(_date(ep + 10**9, "UTC"), timedelta(seconds=60), da=1000.0)]):
            sv = _sv0()
            sv.maneuvers = [man]
            try:
                txt = dumps(sv, fmt=fmt)
                real = "zeros" if not any(loads(txt).maneuvers[0]._dv) else "dv"
            except Exception as e:
                real = f"err dump {type(e).__name__}"
            out.append((f"c13 ext kepl {k}", real, {"op": "kepl", "fmt": fmt, "continuous": k}))
    return out


def correspondence(ctx):
    out = Outcome()
    rng = ctx.rng
    n = {"opm": ctx.n(60, 1500), "omm": ctx.n(40, 1000), "oem": ctx.n(40, 1000), "tdm": ctx.n(50, 1200)}
    cases = []
    ext = ext_cases(rng, ctx.n(30, 600))
    for t, k in n.items():
        for i in range(k):
            spec = _model_domain(GENS[t](rng))
            via = "config" if i % 5 == 4 else "arg"
            lines, reals = corr_case(out, spec, via, t)
            cases.append((spec, via, lines, reals))
    model = core.Driver().run([l for c in cases for l in c[2]] + [e[0] for e in ext])
    for (line, real, inp), m in zip(ext, model[len(model) - len(ext):]):
        out.count(key=line, nontrivial=True, kind="ext " + inp["op"], result=real.split(" ")[0] if real.startswith("err") or inp["op"] in ("form", "kepl") else "value")
        if m != real:
            out.fail("ccsds-model-ext", f"model and implementation differ on `ext {inp['op']}`", inp, observed=real, expected=m)
    k = 0
    for spec, via, lines, reals in cases:
        for line, real in zip(lines, reals):
            m = model[k]
            k += 1
            op = " ".join(line.split(" ", 5)[1:4 if line.split()[1] == "rt" else 5])
            out.count(key=line[:300], nontrivial=True, kind=op, result=real.split(" ")[0] + ("" if real.startswith("ok") else ":" + real.split(" ")[-1]))
            if m != real:
                out.fail("ccsds-model", f"model and implementation differ on `{op}`", {"spec": spec, "via": via, "op": op}, observed=real[:600], expected=m[:600])
        out.sample({"line": lines[0][:200], "reply": reals[0][:200]}, limit=3)
    return out
