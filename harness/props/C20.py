"""C20 — conversion routing is correct for every registration order."""
import collections
import itertools
import json
import os
import subprocess
import sys

from harness import core
from harness.core import Outcome

ID = "C20"


class _Timeout(BaseException):
    pass


def _on_alarm(sig, frame):
    raise _Timeout()


_BOUND_HITS = [0]


def guarded(fn, *args, limit=3.0):
    """run fn(*args) under a CPU-time bound (SIGVTALRM, so that the wall-clock timer of a forked child stays armed): a changed
    library may loop or raise inside `a + b` or inside `path()` itself. returns (status, value) with status ok / timeout / memory /
    exc — and `skipped` (not run) once three evaluations of this process have hit the bound: a library whose walk does not
    terminate is reported with the first failing inputs instead of exhausting the wall clock of the whole check"""
    import signal
    if _BOUND_HITS[0] >= 3:
        return "skipped", None
    old = signal.signal(signal.SIGVTALRM, _on_alarm)
    signal.setitimer(signal.ITIMER_VIRTUAL, limit)
    try:
        return "ok", fn(*args)
    except _Timeout:
        _BOUND_HITS[0] += 1
        return "timeout", None
    except MemoryError:
        _BOUND_HITS[0] += 1
        return "memory", None
    except Exception as e:  # noqa: BLE001
        return "exc", f"{type(e).__name__}: {e}"[:200]
    finally:
        signal.setitimer(signal.ITIMER_VIRTUAL, 0)
        signal.signal(signal.SIGVTALRM, old)


def guarded_check(out, inp, fn, *args):
    """an oracle evaluation whose registrations (`+`) themselves may loop or raise: that is a failing input, not a harness error"""
    st, v = guarded(fn, out, *args)
    if st == "ok":
        return v
    if st == "skipped":
        return None
    if st == "exc":
        out.fail("node-link-raises:" + v.split(":")[0], "linking two nodes (Node.__add__) raises", inp, observed=v)
    else:
        out.fail("node-link-does-not-terminate", f"linking two nodes (Node.__add__) or walking their tables exceeds the {st} bound", inp, observed=st)
    return None
LEAN_TARGETS = ["BeyondVerif.Props.C20", "BeyondVerif.Props.C20Forest", "BeyondVerif.Props.C20Graph", "BeyondVerif.Props.C20Registry", "BeyondVerif.Props.C20Named",
                "BeyondVerif.Props.C20NamedForest", "BeyondVerif.Props.C20Convert", "BeyondVerif.Props.C20LinkKey", "BeyondVerif.Props.C20LinkKeyReg", "BeyondVerif.Props.C20Small", "BeyondVerif.Witness.C20"]
THEOREMS = [
    "BeyondVerif.C20.path_valid_chain",
    "BeyondVerif.C20.nbrs_iff_linked",
    "BeyondVerif.C20.dirInv_build",
    "BeyondVerif.C20.unknown_iff_no_route",
    "BeyondVerif.C20.forms_routing_exact",
    "BeyondVerif.C20.scales_routing_exact",
    "BeyondVerif.C20.orient_routing_exact",
    "BeyondVerif.C20.small_forests_exact",
    "BeyondVerif.C20.forest_routes_exact",
    "BeyondVerif.C20.forest_build_succeeds",
    "BeyondVerif.C20.forest_routes_exact_bounded",
    "BeyondVerif.C20.forest_path_unique",
    "BeyondVerif.C20.forest_tables_exact",
    "BeyondVerif.C20.forest_routingExact",
    "BeyondVerif.C20.new_registration_preserves",
    "BeyondVerif.Node.refreshRoutes_spec",
    "BeyondVerif.Node.ginv_refresh",
    "BeyondVerif.Node.update_traverse",
    "BeyondVerif.C20.graph_routes_total",
    "BeyondVerif.C20.graph_build_succeeds",
    "BeyondVerif.C20.graph_path_simple",
    "BeyondVerif.C20.graph_routes_total_bounded",
    "BeyondVerif.C20.graph_steps_bound",
    "BeyondVerif.C20.shortest_if_steps_not_stale",
    "BeyondVerif.C20.link_ext",
    "BeyondVerif.C20.shortest_of_closed",
    "BeyondVerif.C20.three_nodes_shortest",
    "BeyondVerif.C20.four_nodes_shortest_of_certificate",
    "BeyondVerif.C20.forestHist_perm",
    "BeyondVerif.C20.tree_any_order_routes_exact",
    "BeyondVerif.C20.tree_any_order_routingExact",
    "BeyondVerif.C20.named_model_is_node_model",
    "BeyondVerif.C20.named_path_valid_chain",
    "BeyondVerif.Reg.sim_refresh",
    "BeyondVerif.Reg.build_lockstep",
    "BeyondVerif.C20.named_tables_quotient",
    "BeyondVerif.C20.named_graph_routes_total",
    "BeyondVerif.C20.named_forest_routes_nearest",
    "BeyondVerif.C20.named_forest_build_succeeds",
    "BeyondVerif.C20.named_graph_build_succeeds",
    "BeyondVerif.C20.applyOps_spec",
    "BeyondVerif.C20.registered_run",
    "BeyondVerif.C20.convert_resolves",
    "BeyondVerif.C20.convert_never_unknown_transformation",
    "BeyondVerif.C20.fresh_names_keep_methods",
    "BeyondVerif.C20.sites_register_root",
    "BeyondVerif.C20.builtin_links_have_methods",
    "BeyondVerif.C20.import_registered",
    "BeyondVerif.C20.builtin_convert_never_unknown_transformation",
    "BeyondVerif.C20.convert_total",
    "BeyondVerif.C20.small_named_forests_exact",
    "BeyondVerif.C20.linkKey_injective",
    "BeyondVerif.C20.key_sites_plain",
    "BeyondVerif.C20.collision_infix",
    "BeyondVerif.C20.collision_suffix",
    "BeyondVerif.C20.normKey_collision",
    "BeyondVerif.C20.goodName_iff",
    "BeyondVerif.C20.linkKey_eq_iff",
    "BeyondVerif.C20.fresh_names_keep_methods_str",
    "BeyondVerif.C20.collision_changes_lookup",
    "BeyondVerif.C20.convertS_eq_convert",
    "BeyondVerif.C20.applyOpsS_enc",
    "BeyondVerif.C20W.pentagon_not_shortest",
    "BeyondVerif.C20W.pentagon_stale_entry",
    "BeyondVerif.C20W.ring_detours",
    "BeyondVerif.C20W.topo_ctor_instance_only_regression",
    "BeyondVerif.C20W.subclass_registration_unresolvable",
]
LEVEL_TEXT = ("Lean theorems over the routing model. ANY graph (cycles, repeated links, any order and orientation; no self-link): a route is found exactly for the connected pairs, "
              "the walk of path terminates, the returned path is a chain of inserted links without repeated node (<= n - 1 hops), never longer than the steps field of the "
              "source's entry, and it is a shortest chain whenever that field is not stale (graph_routes_total, graph_path_simple, graph_steps_bound, shortest_if_steps_not_stale, "
              "graph_build_succeeds; by a descent invariant kept by every single table rebuild, ginv_refresh, and a generic induction over the depth-first _update, update_traverse). "
              "SMALL node sets: on <= 3 nodes EVERY history (any length, repeats, the triangle) routes every pair along a shortest chain (three_nodes_shortest: finite certificate of the reachable "
              "states evaluated by the kernel, sound for every history by shortest_of_closed; the model reads the graph only through get: link_ext); on 4 nodes the same given the certificate "
              "(four_nodes_shortest_of_certificate; evaluated by the compiled model in every run). "
              "FORESTS of any size, in ANY order of their links (forestHist_perm, tree_any_order_routes_exact): every connected pair is routed along the unique simple chain, every "
              "unconnected pair is Unknown, fuel >= number of nodes suffices (forest_routes_exact, forest_routes_exact_bounded, forest_path_unique, forest_tables_exact, forest_routingExact); "
              "linking a fresh leaf changes no existing route (new_registration_preserves); the three built-in graphs, regenerated from the source in execution order each run, and all forest "
              "histories on <=4 nodes are additionally checked by (kernel) decide. "
              "SHARED NAMES (Model/Registry.lean: node identity distinct from node name): for every history and every assignment of names the named tables are the name-quotient of the plain "
              "tables (named_tables_quotient: same direction and steps as the plain entry of a node of that name with the fewest steps; sim_refresh, build_lockstep); hence in ANY graph a route "
              "to a name is found iff a node of that name is connected, along a simple path that stops at the first node of the name (named_graph_routes_total), and in every forest it leads "
              "to a NEAREST node of the name — no chain of links to any node of the name is shorter (named_forest_routes_nearest); small_named_forests_exact keeps the <=3-node kernel check. "
              "REGISTRY: method table keyed (holder, '<a>_to_<b>') with lookup on the START object through instance dict and MRO, as convert_to does; for every history of executions of "
              "registration sites that store the method of each link they insert on the base class every link stays registered (registered_run, convert_resolves); the registration sites and the "
              "class-body methods of the current source are regenerated from the AST each run (sites_register_root, builtin_links_have_methods, decide) and COMPOSED: from the import-time "
              "orientation registry (import_registered) resp. the empty centre registry, after any history of executions of the regenerated sites, no routed step is 'Unknown transformation' "
              "(builtin_convert_never_unknown_transformation), and convert_to either returns a resolved chain along a simple path to a node of the goal name or raises Unknown '<goal>', the latter "
              "exactly when no connected object carries the name (convert_total). "
              "LINK NAMES: every registration site and both convert_to form the attribute name as f'{a}_to_{b}' (key_sites_plain, decide on the regenerated shapes); that name determines the pair of "
              "names iff no first name contains '_to_' or ends with '_to' (linkKey_injective, goodName_iff: decidable predicate goodName, evaluated by the compiled model on the names live in the real "
              "registries); Model/RegistryStr.lean keys the method table by the STRING as the code does: under goodName registering under a new name changes no pre-existing lookup "
              "(fresh_names_keep_methods_str) and the string-keyed registry IS the pair-keyed one (convertS_eq_convert, applyOpsS_enc); outside it the lookup changes (collision_changes_lookup, "
              "collision_infix, collision_suffix, normKey_collision: kernel-checked). "
              "Exact differential correspondence of all three models with the real Node / Orientation / Center classes on exhaustive/random histories, including an exhaustive exploration of every "
              "state reachable on <=4 nodes (and a bounded one on 5) by any sequence of links.")
LEVEL_NOTE = ("shortest-chain clause for cyclic graphs is false of the code (known finding, pinned; characterised: needs a stale entry at the source, detour <= n - 1 hops, rings closed last "
              "attain n - 2 hops for distance 2 (kernel-checked n <= 8), none on <= 4 nodes, excess 1 / stretch 3/2 on 5 nodes); the bare TopocentricOrientation constructor registers on the base "
              "class since the fix of C20-topocentric-ctor-instance-only (regression witness kept); models hand-written, tied by correspondence, registration sites and built-in tables regenerated "
              "from the source; Lean kernel + propext/Classical.choice/Quot.sound")
TECHNIQUE = ("Lean 4 proof by induction over insertion / registration histories (descent invariant per table rebuild, generic depth-first traversal lemma, simulation between the named and the plain "
             "model) + kernel decide on tables and sites regenerated from the source; exact model/implementation correspondence, exhaustive over reachable states on small node sets")
TRUSTED = [
    "harness/extract_graphs.py: records every Node.__add__ executed at import of beyond (execution order) -> Generated/Graphs.lean",
    "harness/c20_sites.py: reads the registration sites (setattr holder, key composition, link operands, order, calls of other sites) from the AST of center.py, orient.py, "
    "stations.py, frames.py, lagrange.py, solarsystem.py, jpl.py -> Generated/RegSites.lean; hand-written there: per site, which source expression denotes self / parent / other "
    "(checked for consistency at every inlined call; anything unrecognised aborts the extraction)",
    "correspondence: real Node objects vs compiled Lean model on identical insertion histories, exact comparison of neighbour sets, every routing table and every path "
    "(also with nodes sharing names, with self-links and repeated links, rings closed last up to 30 nodes, trees in a random order of their links); real Orientation / Center classes and "
    "subclasses (TopocentricOrientation, LocalOrbitalOrientation, LagrangeOrient, JplCenter, user-defined "
    "sub- and sub-subclasses) driven through the registration sites of the code and raw + / setattr vs the compiled registry model: graph, and for every start object and goal name "
    "the exception kind or the chain of (step, direct/reverse, object owning the resolved method) of a real convert_to call; the same against the STRING-keyed model (driver op sreg) on "
    "freely spelled names, including names containing '_to_' / ending with '_to' whose pairs share one attribute name",
    "correspondence closure: every state reachable on 2, 3, 4 nodes (complete: 2 / 16 / 1474 states) and on 5 nodes within 4 (quick) / 6 (thorough) rounds by ANY sequence of links is "
    "explored independently in the compiled model (driver op closure) and on the real Node class; numbers of states, of non-shortest states / pairs, worst detour and stretch must agree",
    "driver op closed4: the compiled model evaluates the certificate closedB of Props/C20Small.lean on the enumerated states of <= 4 nodes (hypothesis of "
    "four_nodes_shortest_of_certificate; the 3-node certificate is also evaluated by the kernel, closed3)",
    "correspondence link names: goodName / linkKey of the compiled model vs Python's `in` / endswith / f-string on the same names",
    "correspondence real-registry: in a forked child every Node.__add__ (patched) and every stored '<a>_to_<b>' attribute (class / instance dict comparison before and after each "
    "public-API registration: solarsystem, jpl with tests/data/jpl, lagrange, stations below any frame, orbit frames, re-registrations) is recorded and replayed in the compiled registry "
    "model; neighbour sets, routing tables and, for every start object and goal name, the chain of resolved link methods of the live Earth / ITRF graphs are compared exactly",
    "harness/props/C20.py guarded / forked: every real Node.__add__ and table walk of the harness runs in a forked child (wall clock, RLIMIT_AS) under a per-history CPU bound; "
    "a raising or non-terminating link is reported as a failing input",
    "harness/c20_registry.py: bounded walk of Node.routes (n+2 steps) used to decide that a real path()/convert_to call terminates before making it",
]
ASSUMPTIONS = [
    "the models Model/Node.lean, Model/Registry.lean and Model/RegistryStr.lean are hand-written; they are tied to beyond/utils/node.py, beyond/frames/center.py, orient.py by the exact "
    "correspondence runs and (registration sites, built-in links and class-body methods, shapes of the attribute names) by tables regenerated from the source",
    "the any-graph theorems (graph_*, named_graph_*, named_forest_*, convert_total) assume no self-link `a + a` (forest histories have none; the library never links a node to itself); the "
    "model itself is compared with the real class on histories WITH self-links as well",
    "Model/Registry.lean keys methods by pairs of names; the code keys by the string f'{a}_to_{b}' (Model/RegistryStr.lean, shape regenerated from the AST: key_sites_plain); the two coincide "
    "(convertS_eq_convert) when every name satisfies the decidable predicate goodName — evaluated on the names live in the real registries in every run; collisions outside are the open finding "
    "C20-link-name-collision and ARE reproduced by the string-keyed model",
    "a Center and its Node are one object of the model (Center.__init__ creates exactly one Node under the same name); single inheritance below Orientation / Center (MRO = chain)",
    "no conversion runs in the middle of a registration site (a site's link and setattr are observed together)",
]
OPEN = [
    "'shortest on every history on <= 4 nodes': a kernel theorem for <= 3 nodes (three_nodes_shortest); for 4 nodes a theorem GIVEN the Boolean certificate closedB pairs4 (reachable pairs4) "
    "(four_nodes_shortest_of_certificate; soundness of the certificate proved for every history: shortest_of_closed), which the compiled model evaluates to true in every run (driver op "
    "closed4, 1582 states) - its evaluation by the kernel was measured at about 8 CPU-minutes / 5 GB in 16 slices and is not part of the build; independently, the exhaustive exploration of "
    "the compiled model is compared with the real class (<= 4 nodes complete in every run)",
    "the figures for 5 nodes (6360 of 2 206 106 reachable states route one pair with one hop too many) are an exhaustive exploration of the compiled model (complete once, "
    "corpus/C20_closure5.json, bounded rounds against the real class in every run), not kernel theorems; "
    "'rings closed last take n - 2 hops for distance 2' is kernel-checked for n <= 8 and compared with the real class up to 30 nodes, not proved for every n",
    "which of several equidistant nodes of one name a route reaches (depends on the neighbour order) is not characterised",
]
NOT_COVERED = ["'a shortest chain in general' is false of the current code (known finding C20-cyclic-nonshortest); proved instead: valid simple chain, <= n - 1 hops, shortest when the source's "
               "steps field is not stale",
               "names containing '_to_' or ending with '_to': two different pairs of names share one link method (known finding C20-link-name-collision); convert_resolves / convert_total speak "
               "about names satisfying goodName; the string-keyed model reproduces the behaviour outside, no correctness claim is made there",
               "which of several live nodes of ONE name a conversion designates beyond 'a nearest one': the newest registration of a key shadows the older one; "
               "numerical results of conversions that pass through such a name (analytical and JPL 'Sun' both alive; a frame hanging behind a station that was re-created under its name) "
               "are not claimed - the property speaks of registrations under new names",
               "the VALUE composed along the chain (order in which Orientation.convert_to multiplies the link matrices, inversion of the links followed backward; the sum of offsets in "
               "Center.convert_to): C20 stops at the chain of (step, direct / reverse, resolved link method), which is compared with a real convert_to call; that the result equals the "
               "link-by-link composition is C02's clause (path independence A->B->C = A->C) - seeded/C20-m9 (wrong product order for a chain that goes backward first and direct "
               "afterwards) leaves every chain, direction flag and resolved method unchanged and is reported by C02, deliberately not by C20",
               "self-links `a + a` in the any-graph theorems (modelled and compared, not covered by the descent invariant)"]
RULE = ("correspondence: exhaustive enumeration of forest insertion histories (all orders, all orientations, every prefix) "
        "on n<=5 (quick) / n<=6 (thorough) nodes plus random forests (<=40 nodes), random cyclic graphs, random multigraphs with self-links and repeated links, rings closed last (5..15 / 5..30 "
        "nodes), trees in a random order of their links; exhaustive exploration of every reachable state on <=4 nodes (5 nodes: bounded rounds); the same with shared names (3 nodes: every name "
        "assignment x every history; 4 nodes sampled/exhaustive; random <=12 nodes; star-of-same-named-children shapes); registry scenarios: every driven site below a plain / subclass / "
        "sub-subclass parent, random interleavings of sites and raw operations, the same with freely spelled names from collision-prone pools (string-keyed model); a case is non-trivial when it "
        "has >=2 links; distinct = distinct history. oracle: BFS on the real Node objects (by identity when names are shared): valid simple chain, <= steps field, shortest unless the source's "
        "entry is stale, nearest node of a name in forests; registry interleavings on the real frame registry in forked children (solarsystem, jpl with tests/data/jpl, lagrange, stations below "
        "non-ITRF parents, orbit frames, re-registrations) under step / time / memory bounds, goodName evaluated on every live name")


def extract(ctx):
    p = subprocess.run([sys.executable, os.path.join(core.VERIF, "harness", "extract_graphs.py")],
                       capture_output=True, text=True, timeout=300, env=dict(os.environ, VERIF_REPO=core.REPO))
    if p.returncode != 0:
        raise RuntimeError(p.stderr[-500:])
    links = json.loads(p.stdout.strip().split("\n")[-1])["links"]
    # connected components, in order of first appearance
    comp = {}
    for a, b in links:
        ca, cb = comp.get(a), comp.get(b)
        if ca is None and cb is None:
            s = [a, b] if a != b else [a]
            for x in s:
                comp[x] = s
        elif ca is None:
            cb.append(a); comp[a] = cb
        elif cb is None:
            ca.append(b); comp[b] = ca
        elif ca is not cb:
            ca.extend(cb)
            for x in cb:
                comp[x] = ca
    groups = []
    for a, _ in links:
        if not any(comp[a] is g for g in groups):
            groups.append(comp[a])
    label = {"TAI": "scales", "cartesian": "forms", "ITRF": "orient"}
    out = ["namespace BeyondVerif.Generated"]
    seen = set()
    ctx.graphs = {}
    for g in groups:
        name = next((v for k, v in label.items() if k in g), None)
        if name is None or name in seen:
            raise RuntimeError(f"unexpected graph component {g}")
        seen.add(name)
        names = []
        hist = []
        for a, b in links:
            if comp[a] is g:
                for x in (a, b):
                    if x not in names:
                        names.append(x)
                hist.append((names.index(a), names.index(b)))
        ctx.graphs[name] = (names, hist)
        out.append(f"def {name}Names : List String := [" + ", ".join(f'"{n}"' for n in names) + "]")
        out.append(f"def {name}N : Nat := {len(names)}")
        out.append(f"def {name}Hist : List (Nat × Nat) := [" + ", ".join(f"({a}, {b})" for a, b in hist) + "]")
    if seen != set(label.values()):
        raise RuntimeError(f"missing built-in graph: {set(label.values()) - seen}")
    out.append("end BeyondVerif.Generated")
    ch = core.write_if_changed(os.path.join(core.LEAN, "BeyondVerif", "Generated", "Graphs.lean"), "\n".join(out) + "\n")
    changed = ["Generated/Graphs.lean"] if ch else []
    # registration sites (which object each `<a>_to_<b>` method is stored on), from the AST of the anchored files
    from harness import c20_sites
    sites = c20_sites.extract_sites(core.REPO)
    onames = ctx.graphs["orient"][0]
    meth = []
    for a, b in c20_sites.orientation_class_methods(core.REPO):
        if a not in onames or b not in onames:
            raise RuntimeError(f"Orientation.{a}_to_{b}: not a pair of built-in orientations")
        meth.append((onames.index(a), onames.index(b)))
    ctx.sites = sites
    ctx.orient_builtin = (list(onames), [list(e) for e in ctx.graphs["orient"][1]], [list(e) for e in meth])
    if core.write_if_changed(os.path.join(core.LEAN, "BeyondVerif", "Generated", "RegSites.lean"), c20_sites.to_lean(sites, meth)):
        changed.append("Generated/RegSites.lean")
    # how the attribute names are formed at the registration sites and in the two convert_to
    if core.write_if_changed(os.path.join(core.LEAN, "BeyondVerif", "Generated", "LinkKeys.lean"),
                             c20_sites.keys_to_lean(c20_sites.extract_shapes(core.REPO), c20_sites.extract_lookups(core.REPO))):
        changed.append("Generated/LinkKeys.lean")
    return changed


# ---------------------------------------------------------------- real code

def real_build(n, hist):
    from beyond.utils.node import Node
    nodes = [Node(str(i)) for i in range(n)]
    for a, b in hist:
        nodes[a] + nodes[b]
    return nodes


def real_dump(n, nodes):
    nb = ";".join(f"{u}:" + ",".join(x.name for x in nodes[u].neighbors) for u in range(n))
    tabs = ";".join(f"{u}:" + ",".join(f"{t}>{r.direction.name}/{r.steps}" for t, r in sorted(nodes[u].routes.items(), key=lambda kv: int(kv[0]))) for u in range(n))
    paths = []
    for s in range(n):
        for t in range(n):
            paths.append(real_path(nodes, s, t, n))
    return "N " + nb + " R " + tabs + " P " + ";".join(paths)


def real_path(nodes, s, t, n):
    """Node.path with the same loop bound as the model (n+2 hops), so a non-terminating walk is reported 'L'"""
    goal = str(t)
    if s == t:
        return str(s)
    if goal not in nodes[s].routes:
        try:
            nodes[s].path(goal)
        except ValueError:
            return "U"
        return "?"
    # bounded re-implementation of the walk *only* to detect loops; the result is then taken from the real method
    obj = nodes[s]
    for _ in range(n + 2):
        if goal not in obj.routes:
            return "K"
        obj = obj.routes[goal].direction
        if obj.name == goal:
            return ".".join(x.name for x in nodes[s].path(goal))
    return "L"


def forest_histories(n, maxlen=None):
    """every sequence of ordered pairs each joining two components (all orders, orientations, prefixes)"""
    maxlen = n - 1 if maxlen is None else maxlen

    def rec(hist, comp):
        if hist:
            yield list(hist)
        if len(hist) == maxlen:
            return
        for a in range(n):
            for b in range(n):
                if comp[a] != comp[b]:
                    c2 = [comp[a] if c == comp[b] else c for c in comp]
                    hist.append((a, b))
                    yield from rec(hist, c2)
                    hist.pop()
    yield from rec([], list(range(n)))


def line(n, hist):
    return f"node {n} " + " ".join(f"{a}-{b}" for a, b in hist)


def random_forest(rng, n):
    comp = list(range(n))
    hist = []
    k = rng.randint(1, n - 1)
    tries = 0
    while len(hist) < k and tries < 10 * n:
        tries += 1
        a, b = rng.randrange(n), rng.randrange(n)
        if comp[a] != comp[b]:
            cb = comp[b]
            comp = [comp[a] if c == cb else c for c in comp]
            hist.append((a, b))
    return hist


def random_tree_history(rng, n):
    comp = list(range(n))
    hist = []
    while len(hist) < n - 1:
        a, b = rng.randrange(n), rng.randrange(n)
        if comp[a] != comp[b]:
            cb = comp[b]
            comp = [comp[a] if c == cb else c for c in comp]
            hist.append((a, b))
    return hist


def random_graph(rng, n):
    k = rng.randint(n - 1, min(n * (n - 1) // 2, n + 3))
    pairs = [(a, b) for a in range(n) for b in range(n) if a != b]
    hist = []
    seen = set()
    while len(hist) < k:
        a, b = rng.choice(pairs)
        if frozenset((a, b)) in seen and rng.random() < 0.8:
            continue
        seen.add(frozenset((a, b)))
        hist.append((a, b))
    return hist


def correspondence(ctx):
    out = Outcome()
    cases = []
    nmax = ctx.n(4, 5)
    for n in range(2, nmax + 1):
        for h in forest_histories(n):
            cases.append((n, h, "forest-exhaustive"))
    for n in (5, 6, 7, 8):
        for _ in range(ctx.n(150, 3000)):
            cases.append((n, random_tree_history(ctx.rng, n), f"tree-{n}-random"))
    for _ in range(ctx.n(300, 5000)):
        n = ctx.rng.randint(5, 40)
        cases.append((n, random_forest(ctx.rng, n), "forest-random"))
    for _ in range(ctx.n(300, 5000)):
        n = ctx.rng.randint(3, 8)
        cases.append((n, random_graph(ctx.rng, n), "cyclic-random"))
    # any graph: self-links and repeated links included (the theorems of Props/C20Graph.lean exclude self-links; the model does not)
    for _ in range(ctx.n(200, 3000)):
        n = ctx.rng.randint(2, 7)
        cases.append((n, random_multigraph(ctx.rng, n), "multigraph-selflinks"))
    # rings closed last (Witness/C20.lean: ringHist): the detour grows with the ring
    for n in range(5, ctx.n(16, 31)):
        cases.append((n, ring_history(n), "ring-closed-last"))
    # trees assembled from sub-trees: a leaf-by-leaf history in a random order of its links (Props/C20Graph.lean: tree_any_order_routes_exact)
    for _ in range(ctx.n(150, 2000)):
        n = ctx.rng.randint(4, 14)
        cases.append((n, permuted_tree(ctx.rng, n), "tree-any-order"))
    # the built-in graphs in execution order
    for name, (names, hist) in getattr(ctx, "graphs", {}).items():
        cases.append((len(names), hist, "builtin-" + name))
    lines = [line(n, h) for n, h, _ in cases]
    model = core.Driver().run(lines)
    from harness import c20_registry as R
    side, why = R.forked(_corr_real_side, [(n, h) for n, h, _ in cases], getattr(ctx, "graphs", {}), time_limit=ctx.n(300, 1500), mem_gb=4.0)
    if side is None:
        out.fail("node-real-side", "the real Node class could not be driven through the histories within the time / memory bound", {"n": len(cases)}, observed=why)
        side = {"dumps": ["?"] * len(cases), "live": {}}
    for (n, h, kind), m, real in zip(cases, model, side["dumps"]):
        out.count(key=(n, tuple(h)), nontrivial=len(h) >= 2, kind=kind, links=min(len(h), 9))
        if real != m and not str(real).startswith("SKIPPED"):
            out.fail("node-tables", "routing tables / paths differ between Model/Node.lean and beyond.utils.node",
                     {"n": n, "hist": h}, observed=real, expected=m)
        out.sample({"line": line(n, h), "reply": m[:160]}, limit=3)
    # live built-in objects (tables as they are in the imported package) vs the model
    for name, (names, hist) in getattr(ctx, "graphs", {}).items():
        m = core.Driver().run([line(len(names), hist)])[0]
        exp = side["live"].get(name, "?")
        out.count(key="live-" + name, kind="live-" + name)
        if exp != m and not str(exp).startswith("SKIPPED"):
            out.fail("node-live", f"live {name} graph tables differ from the model run on the recorded history", name, observed=exp, expected=m)
    correspondence_interleaved(ctx, out)
    correspondence_named(ctx, out)
    correspondence_registry(ctx, out)
    correspondence_registry_str(ctx, out)
    correspondence_link_names(ctx, out)
    correspondence_closure(ctx, out)
    correspondence_real_registry(ctx, out)
    return out


def _interleaved_real_side(cases):
    """histories on ONE set of live objects: after every link all tables are dumped and every path is queried (read, modify,
    read again), so that anything the objects remember between two queries shows"""
    from harness import c20_registry as R
    from beyond.utils.node import Node
    out = []
    for names, h in cases:
        def run():
            dumps = []
            if names is None:
                n = 1 + max(max(e) for e in h)
                nodes = [Node(str(i)) for i in range(n)]
                for a, b in h:
                    nodes[a] + nodes[b]
                    dumps.append(real_dump(n, nodes))
            else:
                nodes = [Node(str(x)) for x in names]
                for a, b in h:
                    nodes[a] + nodes[b]
                    dumps.append(R.dump_real_nodes(nodes) + " P " + ";".join(R.real_named_paths(nodes, names)))
            return dumps
        st, v = guarded(run, limit=6.0)
        out.append(v if st == "ok" else [f"{st.upper()}:{v}"])
    return out


def correspondence_interleaved(ctx, out):
    """queries interleaved with links on the same live Node objects (plain and shared names) vs the model run on every prefix"""
    from harness import c20_registry as R
    cases = []
    for _ in range(ctx.n(60, 600)):
        n = ctx.rng.randint(3, 7)
        r = ctx.rng.random()
        h = random_graph(ctx.rng, n) if r < 0.4 else (random_tree_history(ctx.rng, n) if r < 0.7 else [e for e in random_multigraph(ctx.rng, n)])
        if not h:
            continue
        if ctx.rng.random() < 0.5:
            cases.append((None, h, "interleaved-plain"))
        else:
            n = 1 + max(max(e) for e in h)
            cases.append((random_names(ctx.rng, n), h, "interleaved-named"))
    lines = []
    for names, h, _ in cases:
        for i in range(1, len(h) + 1):
            lines.append(line(1 + max(max(e) for e in h), h[:i]) if names is None else R.named_line(names, h[:i]))
    model = core.Driver().run(lines)
    reals, why = R.forked(_interleaved_real_side, [(nm, h) for nm, h, _ in cases], time_limit=ctx.n(120, 600), mem_gb=4.0)
    if reals is None:
        out.fail("interleaved-real-side", "the real Node class could not be driven through the interleaved histories within the time / memory bound", {"n": len(cases)}, observed=why)
        return
    k = 0
    for (names, h, kind), real in zip(cases, reals):
        ms = model[k:k + len(h)]
        k += len(h)
        out.count(key=(kind, None if names is None else tuple(names), tuple(h)), nontrivial=len(h) >= 2, kind=kind)
        if list(real) != list(ms) and not str(real[0]).startswith("SKIPPED"):
            i = next((j for j, (a, b) in enumerate(zip(real, ms)) if a != b), min(len(real), len(ms)))
            out.fail("node-interleaved", "tables / paths read BETWEEN the links on the same live objects differ from the model run on the prefix",
                     {"names": names, "hist": [list(e) for e in h], "after_links": i + 1}, observed=(real[i] if i < len(real) else None), expected=(ms[i] if i < len(ms) else None))


def random_multigraph(rng, n):
    """any sequence of `+`: self-links, repeated links (either orientation), cycles"""
    hist = []
    for _ in range(rng.randint(1, 2 * n + 2)):
        r = rng.random()
        if r < 0.12:
            a = rng.randrange(n)
            hist.append((a, a))
        elif r < 0.3 and hist:
            a, b = rng.choice(hist)
            hist.append((a, b) if rng.random() < 0.5 else (b, a))
        else:
            hist.append((rng.randrange(n), rng.randrange(n)))
    return hist


def ring_history(n):
    """two arms from node 0 closed last by (n-2) + (n-1): Witness/C20.lean ringHist"""
    return [(0, 1), (0, 2)] + [(k + 1, k + 3) for k in range(n - 3)] + [(n - 2, n - 1)]


def permuted_tree(rng, n):
    """a tree grown leaf by leaf from node 0, its links then taken in a random order (sub-trees are assembled apart and joined later)"""
    hist = []
    for v in range(1, n):
        p = rng.randrange(v)
        hist.append((v, p) if rng.random() < 0.5 else (p, v))
    rng.shuffle(hist)
    return hist


def _closure_real(n, rounds, limit):
    """every state of the REAL Node objects reachable from n unlinked nodes by any sequence of `a + b` (a != b), breadth first;
    a state = neighbour order + tables; same statistics as the driver op `closure`"""
    import math
    from beyond.utils.node import Node

    def build(hist):
        nodes = [Node(str(i)) for i in range(n)]
        for a, b in hist:
            nodes[a] + nodes[b]
        return nodes

    def key(nodes):
        return tuple((tuple(int(x.name) for x in nd.neighbors), tuple(sorted((int(t), int(r.direction.name), r.steps) for t, r in nd.routes.items())))
                     for nd in nodes)
    pairs = [(a, b) for a in range(n) for b in range(n) if a != b]
    seen = {key(build(()))}
    frontier = [()]
    st = {"states": 1, "nonshort_states": 0, "nonshort_pairs": 0, "maxexcess": 0, "ratio": (1, 1), "notsimple": 0, "stepsviolated": 0, "rounds": 0}
    wit = None
    for _ in range(rounds):
        if not frontier:
            break
        nxt = []
        for h in frontier:
            for e in pairs:
                h2 = h + (e,)
                nodes = build(h2)
                k = key(nodes)
                if k in seen:
                    continue
                seen.add(k)
                nxt.append(h2)
                st["states"] += 1
                if st["states"] > limit:
                    return {"limit": st["states"]}
                adj = [[int(x.name) for x in nd.neighbors] for nd in nodes]
                bad = 0
                for s_ in range(n):
                    d = {s_: 0}
                    q = [s_]
                    for u in q:
                        for v in adj[u]:
                            if v not in d:
                                d[v] = d[u] + 1
                                q.append(v)
                    for t in range(n):
                        if t == s_:
                            continue
                        r = real_path(nodes, s_, t, n)
                        if t not in d:
                            if r != "U":
                                st["notsimple"] += 1
                            continue
                        if r in ("U", "K", "L", "?"):
                            st["notsimple"] += 1
                            continue
                        p = r.split(".")
                        hops = len(p) - 1
                        if len(set(p)) != len(p):
                            st["notsimple"] += 1
                        ent = nodes[s_].routes.get(str(t))
                        if ent is None or hops > ent.steps:
                            st["stepsviolated"] += 1
                        if hops != d[t]:
                            bad += 1
                            if hops - d[t] > st["maxexcess"]:
                                st["maxexcess"] = hops - d[t]
                                wit = [list(map(list, h2)), s_, t, r]
                            if hops * st["ratio"][1] > st["ratio"][0] * d[t]:
                                st["ratio"] = (hops, d[t])
                if bad:
                    st["nonshort_states"] += 1
                    st["nonshort_pairs"] += bad
        frontier = nxt
        st["rounds"] += 1
    g = math.gcd(*st["ratio"])
    st["ratio"] = [st["ratio"][0] // g, st["ratio"][1] // g]
    st["complete"] = 0 if frontier else 1
    st["witness"] = wit
    return st


def correspondence_closure(ctx, out):
    """EXHAUSTIVE over histories: every state reachable on n nodes by any sequence of links (repeated links, cycles, any order
    and orientation) — the compiled model and the real Node class are explored independently, the statistics must agree:
    number of states, of states / pairs routed along a non-shortest chain, worst detour, worst stretch; paths that repeat a
    node or exceed the steps field of their source are counted (must be 0: Props/C20Graph.lean)"""
    import math
    from harness import c20_registry as R
    if any(f["family"] in ("node-tables", "node-real-side", "node-interleaved") for f in out.failures):
        out.notes.append("closure exploration skipped: the model and the real class already disagree on single histories")
        return
    # certificate of Props/C20Small.lean (hypothesis of four_nodes_shortest_of_certificate; closed3 is also a kernel theorem)
    reply = core.Driver().run(["closed4"])[0]
    out.count(key=("closed4",), kind="closed4-certificate", nontrivial=True)
    out.notes.append("certificate closedB (Props/C20Small.lean), compiled model: " + reply[:120])
    try:
        cm = {k: int(v) for k, v in (x.split("=") for x in reply.split())}
    except Exception:  # noqa: BLE001
        cm = {}
    if cm.get("closed4") != 1 or cm.get("closed3") != 1:
        out.fail("small-graph-certificate", "the certificate closedB of Props/C20Small.lean (reachable states on <= 4 nodes closed under every link, no stale steps field) "
                 "does not evaluate to true in the compiled model", {"op": "closed4"}, observed=reply[:200])
    plan = [(2, 40), (3, 40), (4, 40), (5, ctx.n(4, 6))]
    for n, rounds in plan:
        reply = core.Driver().run([f"closure {n} 3000000 {rounds}"])[0]
        real, why = R.forked(_closure_real, n, rounds, 3000000, time_limit=ctx.n(120, 900), mem_gb=4.0)
        out.count(key=("closure", n, rounds), kind=f"closure-{n}-nodes", nontrivial=True)
        if real is None or "limit" in (real or {}):
            out.fail("closure-real-side", "exploration of the reachable states of the real Node class did not finish", {"n": n, "rounds": rounds}, observed=why or real)
            continue
        try:
            m = dict(x.split("=") for x in reply.split())
            a, b = map(int, m["maxratio"].split("/"))
            g = math.gcd(a, b)
            mm = {"states": int(m["states"]), "nonshort_states": int(m["nonshort_states"]), "nonshort_pairs": int(m["nonshort_pairs"]),
                  "maxexcess": int(m["maxexcess"]), "ratio": [a // g, b // g], "notsimple": int(m["notsimple"]), "stepsviolated": int(m["stepsviolated"]),
                  "rounds": int(m["rounds"]), "complete": int(m["complete"])}
        except Exception:  # noqa: BLE001
            out.fail("closure-model-side", "driver reply of the state exploration is malformed", {"n": n, "rounds": rounds}, observed=reply[:200])
            continue
        rr = {k: real[k] for k in mm}
        out.cases += mm["states"]
        out.notes.append(f"closure n={n} rounds<={rounds}: " + ", ".join(f"{k}={v}" for k, v in mm.items()) + f" witness={real.get('witness')}")
        if rr != mm:
            out.fail("closure-statistics", "statistics of the exhaustive state exploration differ between the compiled model and the real Node class",
                     {"n": n, "rounds": rounds, "witness": real.get("witness")}, observed=rr, expected=mm)
        if rr["notsimple"] or rr["stepsviolated"]:
            out.fail("closure-path-not-simple", "a reachable state routes a connected pair along a path that repeats a node / is not found / exceeds the steps field",
                     {"n": n, "rounds": rounds}, observed=rr)
        if n <= 4 and (rr["nonshort_states"] or not rr["complete"]):
            out.fail("small-graph-not-shortest", "on <= 4 nodes some reachable state routes a pair along a non-shortest chain (known finding says never)",
                     {"n": n, "witness": real.get("witness")}, observed=rr)
        out.sample({"closure": n, "rounds": rounds, "model": reply[:200]}, limit=6)


def _link_names_real(names):
    """the Python side of goodName / linkKey"""
    return [[("_to_" not in a) and not a.endswith("_to") for a in names],
            [[ord(c) for c in f"{a}_to_{b}"] for a in names[:12] for b in names[:12]]]


def link_name_pool(rng):
    from harness import c20_registry as R
    base = ["EME2000", "ITRF", "Earth", "Moon", "Toulouse", "Site 1", "Site-1", "S_to", "S", "to_Earth", "A_to_B", "_to_", "_to", "to_", "to", "", "x_to_", "_tox", "a_t", "é_to", "_to_to", "x_to\u00e9"]
    for p in R.NAME_POOLS:
        base += [x.replace("{t}", "T") for x in p]
    alphabet = ["_", "t", "o", "_to", "_to_", "a", "E", "-", " "]
    for _ in range(60):
        base.append("".join(rng.choice(alphabet) for _ in range(rng.randint(0, 6))))
    return base


def correspondence_link_names(ctx, out):
    """Model/LinkKey.lean linkKey and Model/RegistryStr.lean goodName vs Python's f-string / `in` / endswith on the same names"""
    from harness import c20_registry as R
    names = link_name_pool(ctx.rng)
    good, keys = _link_names_real(names)
    lines = ["goodname " + R.codepoints(a) for a in names] + [f"linkkey {R.codepoints(a)} {R.codepoints(b)}" for a in names[:12] for b in names[:12]]
    rep = core.Driver().run(lines)
    for a, g, m in zip(names, good, rep[:len(names)]):
        out.count(key=("goodname", a), kind="link-name-predicate", good=g)
        if m != ("1" if g else "0"):
            out.fail("link-name-predicate", "goodName of the model differs from ('_to_' not in a and not a.endswith('_to'))", {"name": a}, observed=g, expected=m)
    for (a, b), k, m in zip([(a, b) for a in names[:12] for b in names[:12]], keys, rep[len(names):]):
        out.count(key=("linkkey", a, b), kind="link-key")
        if ".".join(map(str, k)) != m:
            out.fail("link-key", "linkKey of the model differs from f'{a}_to_{b}'", {"a": a, "b": b}, observed=k, expected=m)
    # the theorem linkKey_eq_iff on the real strings: good first names => the key determines the pair
    seen = {}
    for a in names:
        for b in names:
            k = f"{a}_to_{b}"
            if k in seen and seen[k] != (a, b):
                a2, b2 = seen[k]
                ga = ("_to_" not in a) and not a.endswith("_to")
                ga2 = ("_to_" not in a2) and not a2.endswith("_to")
                out.tally("kind=link-key-collision-outside-predicate")
                if ga and ga2:
                    out.fail("link-key-collision-good-names", "two pairs of names with good first names share one attribute name (contradicts linkKey_eq_iff)",
                             {"pairs": [[a, b], [a2, b2]]}, observed=k)
            seen.setdefault(k, (a, b))


def correspondence_registry_str(ctx, out):
    """Model/RegistryStr.lean (method table keyed by the attribute-name STRING, as the code does) vs the real Orientation / Center
    classes on names spelled freely — including names containing '_to_' / ending with '_to', where two pairs of names share one
    method (open finding C20-link-name-collision): the model must reproduce which object's method every step resolves to"""
    from harness import c20_registry as R
    labels = core.Driver().run(["sites"])[0].split(";")
    sc = R.fixed_string_scenarios(labels, ORIENT_MRO, CENTER_MRO)
    for i in range(ctx.n(120, 2000)):
        w = "orient" if i % 2 else "center"
        x = R.random_string_scenario(ctx.rng, w, labels, ORIENT_MRO if w == "orient" else CENTER_MRO, f"{i}")
        x["kind"] = "sreg-random-" + w
        sc.append(x)
    model = core.Driver().run([R.sreg_line(x) for x in sc])
    real, why = R.forked(R.real_reg_dumps, sc, labels, time_limit=ctx.n(120, 600))
    if real is None:
        out.fail("registry-str-real-side", "the real classes could not be driven through the string-named scenarios within the time/memory bound", {"n": len(sc)}, observed=why)
        return
    for x, m, r in zip(sc, model, real):
        col = R.has_key_collision(x, labels)
        out.count(key=("sreg", x["world"], tuple(x["names"]), tuple(x["classes"]), tuple(x["ops"]), tuple(x["strs"])), kind=x["kind"], key_collision=col,
                  unresolved="UT:" in m)
        if r != m:
            out.fail("registry-str-convert", "method resolution of convert_to on freely spelled names differs between Model/RegistryStr.lean (string-keyed) and the real classes",
                     {k: x[k] for k in ("world", "names", "classes", "ops", "strs", "tag")}, observed=r, expected=m)
        out.sample({"line": R.sreg_line(x)[:240], "reply": m[:200]}, limit=4)


def correspondence_real_registry(ctx, out):
    """Model/Registry.lean vs the REAL registries of beyond.frames (centres below Earth, orientations around ITRF) after
    histories of public-API registrations (solarsystem, jpl, lagrange, stations below any frame, orbit frames, re-registrations):
    every Node.__add__ and every stored '<a>_to_<b>' attribute is recorded in a forked child and replayed in the model; neighbour
    sets, routing tables and, for every start object and goal name, the resolved chain of link methods are compared exactly"""
    from harness import c20_registry as R
    builtin = getattr(ctx, "orient_builtin", None)
    if builtin is None:
        out.fail("real-registry-tie", "built-in orientation tables were not extracted", {})
        return
    scen = [(nm, ops) for nm, ops in R.fixed_scenarios()] + [R.topo_direct_scenario()]
    for i in range(ctx.n(6, 120)):
        scen.append((f"random{i}", R.random_scenario(ctx.rng, ctx.rng.randint(3, 10))))
    lines, meta = [], []
    bound_hits = 0
    for nm, ops in scen:
        if bound_hits >= 2:
            continue
        res = R.run_forked(ops, {"builtin": builtin, "no_convert": True}, time_limit=40.0)
        bound_hits += any(f["family"] == "scenario-exceeds-bound" for f in res.get("fails", []))
        if res.get("error") or not res.get("tie"):
            if not res.get("fails"):
                out.fail("real-registry-tie", "scenario could not be recorded on the real registry", {"registry_scenario": ops}, observed=res.get("error"))
            continue     # a scenario the real code fails on is a matter for the oracle, which runs the same scenarios
        for world in ("orient", "center"):
            line, real = res["tie"][world]
            lines.append(line)
            meta.append((nm, ops, world, real))
    model = core.Driver().run(lines)
    for (nm, ops, world, real), line, m in zip(meta, lines, model):
        out.count(key=("real-registry", world, line), kind="real-registry-" + world, objects=min(int(line.split()[1]) // 10 * 10, 60))
        if real != m:
            # first differing field, for the report
            rs, ms = real.split(";"), m.split(";")
            k = next((i for i, (a, b) in enumerate(zip(rs, ms)) if a != b), min(len(rs), len(ms)))
            out.fail("real-registry-tie", f"{world} registry after a history of public registrations differs from Model/Registry.lean run on the recorded links / setattr",
                     {"registry_scenario": ops, "world": world, "request": line[:400]}, observed=";".join(rs[max(0, k - 1):k + 2])[:300], expected=";".join(ms[max(0, k - 1):k + 2])[:300])
        out.sample({"scenario": nm, "world": world, "request": line[:200], "reply": m[:160]}, limit=8)


def random_names(rng, n):
    """names for n nodes, some of them shared"""
    names = []
    for _ in range(n):
        if names and rng.random() < 0.4:
            names.append(rng.choice(names))
        else:
            names.append(max(names, default=-1) + 1)
    return names


def named_cases(ctx, rng, quick_n, thorough_n):
    cases = []
    # exhaustive: every name assignment on 3 nodes x every forest history; on 4 nodes every assignment x a slice of the histories
    for names in itertools.product(range(3), repeat=3):
        for h in forest_histories(3):
            cases.append((list(names), h, "named-exhaustive-3"))
    h4 = list(forest_histories(4))
    for names in itertools.product(range(3), repeat=4):
        if len(set(names)) == 4:
            continue
        for h in (h4 if ctx.thorough else rng.sample(h4, 6)):
            cases.append((list(names), h, "named-exhaustive-4"))
    for _ in range(ctx.n(quick_n, thorough_n)):
        n = rng.randint(4, 12)
        names = random_names(rng, n)
        r = rng.random()
        h = random_tree_history(rng, n) if r < 0.4 else (random_forest(rng, n) if r < 0.8 else random_graph(rng, min(n, 8)))
        if r >= 0.8:
            names = names[:min(n, 8)]
        if rng.random() < 0.2 and h:
            h = h + [rng.choice(h)]          # a link executed twice (create_station links the orientation twice)
        cases.append((names, h, "named-random"))
    # the shapes of the real registries: a root with same-named children having sub-trees (Earth / Earth / Earth)
    for _ in range(ctx.n(60, 600)):
        k = rng.randint(2, 4)
        names, h = [0], []
        for _c in range(k):
            names.append(0 if rng.random() < 0.7 else 1)
            child = len(names) - 1
            sub = []
            for _s in range(rng.randint(0, 3)):
                names.append(rng.randint(2, 5))
                sub.append((len(names) - 1, rng.choice([child] + [x for x, _ in sub])))
            grp = [(child, 0) if rng.random() < 0.5 else (0, child)] + [(a, b) if rng.random() < 0.5 else (b, a) for a, b in sub]
            if rng.random() < 0.5:
                rng.shuffle(grp)
            h += grp
        cases.append((names, h, "named-same-name-children"))
    return cases


def _named_real_side(cases):
    from harness import c20_registry as R
    out = []
    for names, h in cases:
        st, v = guarded(R.real_named_dump, names, h)
        out.append(v if st == "ok" else f"{st.upper()}:{v}")
    return out


def correspondence_named(ctx, out):
    """Model/Registry.lean (named routing) vs real Node objects several of which carry one name"""
    from harness import c20_registry as R
    cases = named_cases(ctx, ctx.rng, 400, 6000)
    model = core.Driver().run([R.named_line(nm, h) for nm, h, _ in cases])
    reals, why = R.forked(_named_real_side, [(nm, h) for nm, h, _ in cases], time_limit=ctx.n(300, 1500), mem_gb=4.0)
    if reals is None:
        out.fail("named-real-side", "the real Node class could not be driven through the shared-name histories within the time / memory bound", {"n": len(cases)}, observed=why)
        return
    for (names, h, kind), m, real in zip(cases, model, reals):
        out.count(key=("named", tuple(names), tuple(h)), nontrivial=len(h) >= 2 and len(set(names)) < len(names), kind=kind)
        if real != m and not str(real).startswith("SKIPPED"):
            out.fail("named-node-tables", "routing tables / paths of nodes sharing names differ between Model/Registry.lean and beyond.utils.node",
                     {"names": names, "hist": h}, observed=real, expected=m)
        out.sample({"line": R.named_line(names, h), "reply": m[:160]}, limit=4)


ORIENT_MRO = {0: [0], 1: [1, 0], 2: [2, 0], 3: [3, 0], 4: [4, 0], 5: [5, 4, 0]}
CENTER_MRO = {0: [0], 1: [1, 0], 2: [2, 0]}


def registry_scenarios(ctx, rng, labels, quick_n, thorough_n):
    from harness import c20_registry as R
    sc = []
    S = {lab: i for i, lab in enumerate(labels)}
    # fixed: every driven site once below a plain parent and once below a parent of a subclass, queried from everywhere
    k = 0
    for site, cls in (("TopocentricOrientation.__init__", 1), ("create_station[orient]", 1), ("LocalOrbitalOrientation.__init__", 2),
                      ("orbit2frame[orient]", 2), ("LagrangeOrient.__init__", 3), ("lagrange[orient]", 3)):
        for pcls in (0, 4, 5, 3, 1):
            if pcls == 0:
                names, classes, ops = [0, 1, 2], [0, 0, cls], [f"A:c0:1:0:1", "L:0:1", f"S:{S[site]}:2:1:0"]
            elif pcls in (4, 5):
                names, classes, ops = [0, 1, 2], [0, pcls, cls], [f"A:c0:1:0:1", "L:0:1", f"S:{S[site]}:2:1:0"]
            elif pcls == 3:
                names, classes, ops = [0, 1, 2], [0, 3, cls], [f"S:{S['LagrangeOrient.__init__']}:1:0:0", f"S:{S[site]}:2:1:0"]
            else:
                names, classes, ops = [0, 1, 2], [0, 1, cls], [f"S:{S['create_station[orient]']}:1:0:0", f"S:{S[site]}:2:1:0"]
            sc.append({"world": "orient", "tag": f"F{k}", "names": names, "classes": classes, "mro": ORIENT_MRO, "ops": ops, "kind": "reg-fixed-orient"})
            k += 1
    for site, cls in (("Center.add_link", 0), ("Center.add_link", 2), ("JplCenter.add_link", 1), ("create_station[center]", 0), ("orbit2frame[center]", 0)):
        for pcls in (0, 1, 2):
            sc.append({"world": "center", "tag": f"F{k}", "names": [0, 1, 2, 1], "classes": [0, pcls, cls, 0], "mro": CENTER_MRO,
                       "ops": [f"S:{S['JplCenter.add_link'] if pcls == 1 else S['Center.add_link']}:1:0:0", f"S:{S[site]}:2:1:0", f"S:{S['Center.add_link']}:3:0:0"],
                       "kind": "reg-fixed-center"})
            k += 1
    for i in range(ctx.n(quick_n, thorough_n)):
        w = "orient" if i % 3 else "center"
        x = R.random_reg_scenario(rng, w, labels, ORIENT_MRO if w == "orient" else CENTER_MRO, f"{k}")
        x["kind"] = "reg-random-" + w
        sc.append(x)
        k += 1
    return sc


def correspondence_registry(ctx, out):
    """Model/Registry.lean (method table, lookup through the class hierarchy, convert_to) vs the real Orientation / Center
    classes and subclasses, driven through the registration sites of the code and raw `+` / setattr"""
    from harness import c20_registry as R
    labels = core.Driver().run(["sites"])[0].split(";")
    want = list(getattr(ctx, "sites", {}) or labels)
    if labels != want:
        out.fail("registry-sites", "registration sites compiled into the driver differ from the ones extracted from the source", want, observed=labels)
        return
    sc = registry_scenarios(ctx, ctx.rng, labels, 250, 4000)
    model = core.Driver().run([R.reg_line(x) for x in sc])
    real, why = R.forked(R.real_reg_dumps, sc, labels, time_limit=ctx.n(120, 600))
    if real is None:
        out.fail("registry-real-side", "the real classes could not be driven through the scenarios within the time/memory bound", {"n": len(sc)}, observed=why)
        return
    for x, m, r in zip(sc, model, real):
        shared = len(set(x["names"])) < len(x["names"])
        out.count(key=("reg", x["world"], tuple(x["names"]), tuple(x["classes"]), tuple(x["ops"])), kind=x["kind"], shared_names=shared,
                  unresolved="UT:" in m)
        if r != m:
            out.fail("registry-convert", "method resolution of convert_to (which object's <a>_to_<b> method each step uses / Unknown transformation) differs "
                     "between Model/Registry.lean and the real classes", {k: x[k] for k in ("world", "names", "classes", "ops")}, observed=r, expected=m)
        out.sample({"line": R.reg_line(x), "reply": m[:200]}, limit=6)


def _corr_real_side(cases, graphs):
    """runs in a forked child: one dump per history, each under a CPU bound (the `+` of a changed library may loop or raise)"""
    dumps = []
    for n, h in cases:
        st, v = guarded(lambda: real_dump(n, real_build(n, h)))
        dumps.append(v if st == "ok" else f"{st.upper()}:{v}")
    live = {}
    tabs = live_builtin_tables()
    for name, (names, hist) in graphs.items():
        st, v = guarded(lambda: dump_named(names, tabs.get(name)), limit=10.0)
        live[name] = v if st == "ok" else f"{st.upper()}:{v}"
    return {"dumps": dumps, "live": live}


def live_builtin_tables():
    from beyond.orbits import forms
    from beyond.dates import date
    from beyond.frames import orient
    return {"forms": forms.CART, "scales": date.TAI if hasattr(date, "TAI") else None, "orient": orient.ITRF}


def dump_named(names, root):
    """same format as real_dump but for live named Node objects reachable from root"""
    nodes = {root.name: root}
    for k in root.routes:
        nodes[k] = root.path(k)[-1]
    idx = {n: i for i, n in enumerate(names)}
    n = len(names)
    objs = [nodes[nm] for nm in names]
    nb = ";".join(f"{u}:" + ",".join(str(idx[x.name]) for x in objs[u].neighbors) for u in range(n))
    tabs = ";".join(f"{u}:" + ",".join(f"{idx[t]}>{idx[r.direction.name]}/{r.steps}" for t, r in sorted(objs[u].routes.items(), key=lambda kv: idx[kv[0]])) for u in range(n))
    paths = []
    for s in range(n):
        for t in range(n):
            try:
                paths.append(".".join(str(idx[x.name]) for x in objs[s].path(names[t])))
            except ValueError:
                paths.append("U")
    return "N " + nb + " R " + tabs + " P " + ";".join(paths)


# ---------------------------------------------------------------- oracle on the real code

def bfs(n, hist, s):
    adj = collections.defaultdict(list)
    for a, b in hist:
        adj[a].append(b); adj[b].append(a)
    d = {s: 0}
    q = [s]
    for u in q:
        for v in adj[u]:
            if v not in d:
                d[v] = d[u] + 1
                q.append(v)
    return d


def has_long_induced_cycle(n, hist):
    """True when some set of >= 5 nodes induces a simple cycle (a chordless ring of >= 5 links)"""
    edges = {frozenset(e) for e in hist if e[0] != e[1]}
    adj = collections.defaultdict(set)
    for e in edges:
        a, b = tuple(e)
        adj[a].add(b); adj[b].add(a)
    nodes = [u for u in range(n) if len(adj[u]) >= 2]
    for k in range(5, len(nodes) + 1):
        for sub in itertools.combinations(nodes, k):
            ss = set(sub)
            if all(len(adj[u] & ss) == 2 for u in sub):
                # connected?
                seen = {sub[0]}
                q = [sub[0]]
                for u in q:
                    for v in adj[u] & ss:
                        if v not in seen:
                            seen.add(v); q.append(v)
                if len(seen) == k:
                    return True
    return False


def check_history(out, n, hist, kind):
    return guarded_check(out, {"n": n, "hist": [list(e) for e in hist]}, _check_history, n, hist, kind)


def _check_history(out, n, hist, kind):
    nodes = real_build(n, hist)
    _check_built(out, n, hist, nodes, {})
    out.count(key=(n, tuple(hist)), nontrivial=len(hist) >= 2, kind=kind)
    return nodes


def check_interleaved(out, n, hist, kind):
    return guarded_check(out, {"n": n, "hist": [list(e) for e in hist], "interleaved": True}, _check_interleaved, n, hist, kind)


def _check_interleaved(out, n, hist, kind):
    """read, modify, read again on the SAME live objects: every clause is checked after every link (anything a node remembers from
    an earlier query — a memoised path, a table not rebuilt — shows as a wrong answer for the current set of links)"""
    from beyond.utils.node import Node
    nodes = [Node(str(i)) for i in range(n)]
    for i, (a, b) in enumerate(hist):
        nodes[a] + nodes[b]
        before = len(out.failures)
        _check_built(out, n, list(hist[:i + 1]), nodes, {"interleaved": True, "full_hist": [list(e) for e in hist]})
        if len(out.failures) > before:
            break
    out.count(key=("interleaved", n, tuple(hist)), nontrivial=len(hist) >= 2, kind=kind)


def _check_built(out, n, hist, nodes, extra):
    linked = {frozenset(e) for e in hist}
    is_forest = len(linked) == len(hist) and all(True for _ in [0]) and _is_forest(n, hist)
    for s in range(n):
        d = bfs(n, hist, s)
        for t in range(n):
            r = real_path(nodes, s, t, n)
            if t not in d:
                if r != "U":
                    out.fail("unconnected-not-reported", "unconnected pair not reported as unknown", dict({"n": n, "hist": hist, "s": s, "t": t}, **extra), observed=r, expected="U")
                continue
            if r in ("U", "K", "L", "?"):
                out.fail("connected-no-route", "connected pair has no usable route", dict({"n": n, "hist": hist, "s": s, "t": t}, **extra), observed=r, expected=f"path of {d[t]} steps")
                continue
            p = [int(x) for x in r.split(".")]
            valid = p[0] == s and p[-1] == t and all(frozenset((p[i], p[i + 1])) in linked for i in range(len(p) - 1))
            ent = nodes[s].routes.get(str(t))
            if not valid:
                out.fail("invalid-chain", "returned path is not a chain of existing links", dict({"n": n, "hist": hist, "s": s, "t": t}, **extra), observed=r)
            elif len(set(p)) != len(p) or len(p) > n:
                # Props/C20Graph.lean graph_path_simple: any graph, any history
                out.fail("path-repeats-node", "returned path visits a node twice / has more than n - 1 hops", dict({"n": n, "hist": hist, "s": s, "t": t}, **extra), observed=r)
            elif s != t and (ent is None or len(p) - 1 > ent.steps):
                # Props/C20Graph.lean graph_steps_bound
                out.fail("steps-field-exceeded", "returned path has more hops than the steps field of the source's table entry", dict({"n": n, "hist": hist, "s": s, "t": t}, **extra),
                         observed=r, expected=None if ent is None else ent.steps)
            elif s != t and len(p) - 1 != d[t] and ent.steps == d[t]:
                # Props/C20Graph.lean shortest_if_steps_not_stale
                out.fail("nonshortest-without-stale-entry", "non-shortest path although the source's steps field equals the distance", dict({"n": n, "hist": hist, "s": s, "t": t}, **extra), observed=r)
            elif len(p) - 1 != d[t]:
                fam = "forest-not-unique-path" if is_forest else "cyclic-nonshortest"
                out.fail(fam, "returned path is valid but not a shortest chain", dict({"n": n, "hist": hist, "s": s, "t": t}, **extra), observed=r, expected=f"{d[t]} steps")


def check_interleaved_known(out, n, hist, kind):
    """interleaved queries on a cyclic history: the non-shortest routes are the open finding, everything else is checked"""
    tmp = Outcome()
    check_interleaved(tmp, n, hist, kind)
    out.cases += tmp.cases
    out.keys |= tmp.keys
    for k, v in tmp.dist.items():
        out.dist[k] = out.dist.get(k, 0) + v
    out.failures.extend(f for f in tmp.failures if f["family"] != "cyclic-nonshortest")


def check_history_known(out, n, hist, kind):
    """a history of the family whose non-shortest routes ARE the open finding (rings closed last): everything but the
    shortest-chain clause is checked, and the detour must be the one the model predicts (n - 2 hops for two links)"""
    tmp = Outcome()
    check_history(tmp, n, hist, kind)
    out.cases += tmp.cases
    out.keys |= tmp.keys
    for k, v in tmp.dist.items():
        out.dist[k] = out.dist.get(k, 0) + v
    ns = [f for f in tmp.failures if f["family"] == "cyclic-nonshortest"]
    out.failures.extend(f for f in tmp.failures if f["family"] != "cyclic-nonshortest")
    src = n - 3
    arm = list(range(src, 0, -2)) + [0] + list(range(2, n - 1, 2)) if src % 2 else list(range(src, -1, -2)) + list(range(1, n - 1, 2))
    want = ".".join(map(str, arm))
    got = [f["observed"] for f in ns if (f["input"]["s"], f["input"]["t"]) == (n - 3, n - 2)]
    if got != [want]:
        out.fail("ring-detour-changed", "the route between the two neighbours of the last-linked node of a ring closed last is not the long way round (n - 2 hops)",
                 {"n": n, "hist": [list(e) for e in hist], "s": n - 3, "t": n - 2}, observed=got, expected=want)


def _is_forest(n, hist):
    comp = list(range(n))
    for a, b in hist:
        if comp[a] == comp[b]:
            return False
        cb = comp[b]
        comp = [comp[a] if c == cb else c for c in comp]
    return True


def check_new_registration(out, rng, n, hist):
    return guarded_check(out, {"n": n, "hist": [list(e) for e in hist], "then": "a fresh leaf"}, _check_new_registration, rng, n, hist)


def _check_new_registration(out, rng, n, hist):
    """adding a leaf under a fresh name leaves every pre-existing path unchanged"""
    nodes = real_build(n, hist)
    before = [[real_path(nodes, s, t, n) for t in range(n)] for s in range(n)]
    from beyond.utils.node import Node
    leaf = Node(str(n))
    at = rng.randrange(n)
    if rng.random() < 0.5:
        leaf + nodes[at]
    else:
        nodes[at] + leaf
    after = [[real_path(nodes, s, t, n + 1) for t in range(n)] for s in range(n)]
    out.count(key=("reg", n, tuple(hist), at), kind="new-registration")
    if before != after:
        out.fail("registration-changes-routes", "registering a new leaf changed routes between pre-existing nodes",
                 {"n": n, "hist": hist, "leaf_at": at}, observed=after, expected=before)


def check_frame_registry(out, rng, rounds):
    """interleave create_station / as_frame with conversions on the real frame registry"""
    import numpy as np
    from beyond.dates import Date
    from beyond.frames import create_station, get_frame
    from beyond.frames.frames import EME2000
    from beyond.orbits import StateVector
    date = Date(2015, 6, 3, 12, 0, 0)
    sv = StateVector([7.0e6, 1.2e5, -3.4e5, 120.0, 7500.0, 300.0], date, "cartesian", "EME2000")
    base = ["EME2000", "MOD", "TOD", "TEME", "PEF", "ITRF", "TIRF", "CIRF", "GCRF", "G50"]

    def snapshot(names):
        return {(a, b): np.array(sv.copy(frame=a).copy(frame=b)) for a in names for b in names if a != b}
    names = list(base[:6])
    before = snapshot(names)
    tag = f"V{rng.randrange(10**6)}"
    for i in range(rounds):
        if rng.random() < 0.6:
            nm = f"{tag}S{i}"
            create_station(nm, (rng.uniform(-80, 80), rng.uniform(-180, 180), rng.uniform(0, 3000)))
        else:
            nm = f"{tag}O{i}"
            sv.as_frame(nm, orientation=rng.choice(["QSW", "TNW"]))
        # the new frame itself must be reachable from and to an old one
        x = sv.copy(frame=nm).copy(frame="EME2000")
        if not np.allclose(np.array(x), np.array(sv), rtol=0, atol=1e-5):
            out.fail("registry-roundtrip", "conversion through a freshly registered frame does not come back", {"frame": nm}, observed=list(map(float, x)))
        after = snapshot(names)
        out.count(key=("registry", i, nm), kind="frame-registry")
        for k in before:
            if not np.array_equal(before[k], after[k]):
                out.fail("registration-changes-conversion", "registering a new frame changed a conversion between pre-existing frames",
                         {"pair": k, "new": nm}, observed=list(map(float, after[k])), expected=list(map(float, before[k])))
                return


PINNED = os.path.join(core.VERIF, "corpus", "C20_pinned_cyclic_failures.json")


def pinned_failures():
    """fixed list of cyclic histories (independent of VERIF_SEED); returns the sorted list of failing (hist, s, t, observed)"""
    import random
    rng = random.Random(20260929)
    tmp = Outcome()
    for _ in range(1500):
        n = rng.randint(5, 7)
        check_history(tmp, n, random_graph(rng, n), "pinned")
    pent = [(0, 1), (1, 2), (2, 3), (3, 4), (4, 0)]
    for perm in itertools.permutations(pent):
        check_history(tmp, 5, list(perm), "pinned")
    other = [f for f in tmp.failures if f["family"] != "cyclic-nonshortest"]
    fails = sorted(json.dumps([f["input"]["n"], f["input"]["hist"], f["input"]["s"], f["input"]["t"], f["observed"]]) for f in tmp.failures if f["family"] == "cyclic-nonshortest")
    return fails, other, tmp.cases


def check_pinned(out):
    """the known finding C20-cyclic-nonshortest is pinned to the exact set of failing (history, pair, path) on a
    fixed list of cyclic histories: any difference from the committed set is a new violation"""
    fails, other, cases = pinned_failures()
    out.failures.extend(other)
    expected = json.load(open(PINNED))
    out.cases += cases
    out.tally("kind=cyclic-pinned")
    if fails != expected:
        new = sorted(set(fails) - set(expected))
        gone = sorted(set(expected) - set(fails))
        out.fail("cyclic-nonshortest-changed", "set of non-shortest routes on the pinned cyclic histories differs from the recorded known finding",
                 {"new_failures": new[:5], "no_longer_failing": gone[:5], "n_new": len(new), "n_gone": len(gone)})


def check_nested_and_body_frames(out, rng, rounds):
    """registrations whose links do not hang below Earth / EME2000: an orbit-attached frame built from a state that is itself
    expressed in another orbit-attached frame, and a local orbital frame whose parent is a body-centred frame (frame name !=
    orientation name).  Every pair of frames must stay convertible along the existing links, with the chained offsets."""
    import numpy as np
    from beyond.dates import Date
    from beyond.orbits import StateVector
    from beyond.env.solarsystem import get_frame as solar_frame
    tag = f"N{rng.randrange(10**6)}"
    for i in range(rounds):
        date = Date(2020, 5, 17, 12, 0, 0)
        tpv = np.array([6878137.0 + rng.uniform(-1e5, 1e5), rng.uniform(-1e4, 1e4), rng.uniform(-1e4, 1e4), rng.uniform(-5, 5), 5400.0, 5300.0])
        rel = np.array([rng.uniform(-500, 500) for _ in range(3)] + [rng.uniform(-0.5, 0.5) for _ in range(3)])
        tname, cname = f"{tag}T{i}", f"{tag}C{i}"

        def attempt(fam, what, fn, expected, tol):
            out.count(key=(fam, i), kind=fam)
            try:
                got = np.asarray(fn(), dtype=float)
            except Exception as e:  # noqa: BLE001
                out.fail(fam, what + " (raises)", {"target": tpv.tolist(), "rel": rel.tolist()}, observed=repr(e), expected=list(map(float, expected)))
                return
            if np.abs(got - expected).max() > tol:
                out.fail(fam, what, {"target": tpv.tolist(), "rel": rel.tolist()}, observed=got.tolist(), expected=list(map(float, expected)))

        target = StateVector(tpv, date, "cartesian", "EME2000")
        target.as_frame(tname)
        chaser_rel = StateVector(rel, date, "cartesian", tname)
        chaser_rel.as_frame(cname)
        origin = StateVector(np.zeros(6), date, "cartesian", cname)
        attempt("nested-orbit-frame", "origin of a frame attached to a state given in another orbit-attached frame is not target + relative state",
                lambda: origin.copy(frame="EME2000"), tpv + rel, 1e-4)
        attempt("nested-orbit-frame", "target seen from the nested frame is not minus the relative state", lambda: target.copy(frame=cname), -rel, 1e-4)
        probe = StateVector(tpv + [10.0, 20.0, 30.0, 0, 0, 0], date, "cartesian", "EME2000")
        attempt("nested-orbit-frame", "EME2000 -> nested -> target differs from EME2000 -> target",
                lambda: probe.copy(frame=cname).copy(frame=tname), np.asarray(probe.copy(frame=tname), dtype=float), 1e-4)
        # local orbital frame below a body-centred parent
        moon = solar_frame("Moon")
        lpv = np.array([1837.4e3 + rng.uniform(0, 5e4), 12.0e3, -40.0e3, 15.0, 1150.0 + rng.uniform(-50, 50), 1170.0])
        for ori in ("QSW", "TNW"):
            lname = f"{tag}L{i}{ori}"
            lro = StateVector(lpv, date, "cartesian", "Moon")
            try:
                lro.as_frame(lname, orientation=ori, parent=moon)
            except Exception as e:  # noqa: BLE001
                out.fail("lof-body-parent", "cannot attach a local orbital frame below a body-centred parent frame", {"lro": lpv.tolist(), "orientation": ori}, observed=repr(e))
                continue
            delta = np.array([10.0, 20.0, 30.0, 0.0, 0.0, 0.0])
            r, v = lpv[:3], lpv[3:]
            w = np.cross(r, v) / np.linalg.norm(np.cross(r, v))
            if ori == "QSW":
                a1 = r / np.linalg.norm(r); a2 = np.cross(w, a1); a3 = w
            else:
                a1 = v / np.linalg.norm(v); a3 = w; a2 = np.cross(w, a1)
                a1, a2, a3 = a1, a2, a3   # T, N, W
            exp = np.array([delta[:3] @ a1, delta[:3] @ a2, delta[:3] @ a3])
            probe = StateVector(lpv + delta, date, "cartesian", "Moon")
            attempt("lof-body-parent", f"Moon frame -> {ori} frame attached below it is wrong", lambda: probe.copy(frame=lname)[:3], exp, 1e-6)
            relsv = StateVector(np.concatenate([exp, np.zeros(3)]), date, "cartesian", lname)
            attempt("lof-body-parent", f"{ori} frame attached below the Moon frame -> Moon frame is wrong", lambda: relsv.copy(frame="Moon")[:3], (lpv + delta)[:3], 1e-5)
            attempt("lof-body-parent", "an unrelated pre-existing frame (ITRF) cannot reach the new frame", lambda: lro.copy(frame="ITRF").copy(frame=lname)[:3], np.zeros(3), 1e-3)


def check_named_history(out, names, hist, kind):
    return guarded_check(out, {"names": list(names), "hist": [list(e) for e in hist]}, _check_named_history, names, hist, kind)


def _check_named_history(out, names, hist, kind):
    """nodes sharing names: from every node, every NAME carried by a connected node is reached along existing links (the
    nearest such node when the links form a forest), every other name is reported unknown; the walk is step-bounded"""
    from beyond.utils.node import Node
    nodes = [Node(str(x)) for x in names]
    for a, b in hist:
        nodes[a] + nodes[b]
    _check_named_built(out, names, hist, nodes, {})
    out.count(key=("named", tuple(names), tuple(map(tuple, hist))), nontrivial=len(hist) >= 2 and len(set(names)) < len(names), kind=kind)


def _check_named_built(out, names, hist, nodes, extra):
    from harness import c20_registry as R
    n = len(names)
    idx = {id(x): i for i, x in enumerate(nodes)}
    linked = {frozenset(e) for e in hist}
    forest = _is_forest(n, hist)
    inp = dict({"names": list(names), "hist": [list(e) for e in hist]}, **extra)
    for s in range(n):
        d = bfs(n, hist, s)
        for goal in sorted(set(names)):
            if names[s] == goal:
                continue
            st, p = R.bounded_walk(nodes[s], str(goal), n + 2)
            cands = [d[v] for v in d if names[v] == goal]
            where = dict(inp, s=s, goal=goal)
            if not cands:
                if st != "U":
                    out.fail("named-unconnected-not-reported", "name carried by no connected node is not reported as unknown", where, observed=st, expected="U")
                continue
            if st != "ok":
                what = {"L": "routing loop (Node.path would not terminate)", "U": "connected name reported as Unknown", "K": "route breaks at an intermediate node"}[st]
                out.fail("named-connected-no-route:" + st, what + " although a node of that name is connected", where,
                         observed=[idx[id(x)] for x in p][:12], expected=f"a chain of {min(cands)} links")
                continue
            p = [idx[id(x)] for x in nodes[s].path(str(goal))]
            if not (p[0] == s and names[p[-1]] == goal and all(frozenset((p[i], p[i + 1])) in linked for i in range(len(p) - 1))):
                out.fail("named-invalid-chain", "returned path is not a chain of existing links ending at a node of the goal name", where, observed=p)
            elif len(set(p)) != len(p) or any(names[x] == goal for x in p[:-1]):
                # Props/C20NamedForest.lean named_graph_routes_total: any graph, any names
                out.fail("named-path-not-simple", "returned path repeats a node or passes through an earlier node of the goal name", where, observed=p)
            elif forest and len(p) - 1 != min(cands):
                out.fail("named-forest-not-nearest", "in a forest the path does not lead to the nearest node of that name", where, observed=p, expected=f"{min(cands)} steps")


def check_named_interleaved(out, names, hist, kind):
    return guarded_check(out, {"names": list(names), "hist": [list(e) for e in hist], "interleaved": True}, _check_named_interleaved, names, hist, kind)


def _check_named_interleaved(out, names, hist, kind):
    """shared names, queries between the links on the same live objects: a node of the name registered LATER and nearer must be
    the one reached from then on"""
    from beyond.utils.node import Node
    nodes = [Node(str(x)) for x in names]
    for i, (a, b) in enumerate(hist):
        nodes[a] + nodes[b]
        before = len(out.failures)
        _check_named_built(out, names, list(hist[:i + 1]), nodes, {"interleaved": True, "full_hist": [list(e) for e in hist]})
        if len(out.failures) > before:
            break
    out.count(key=("named-interleaved", tuple(names), tuple(map(tuple, hist))), nontrivial=len(hist) >= 2 and len(set(names)) < len(names), kind=kind)


def check_registry_scenarios(out, ctx, rng, big):
    """histories on the REAL frame registry (beyond.frames, beyond.env.solarsystem, beyond.env.jpl with tests/data/jpl,
    beyond.frames.lagrange), each in a forked child under a step / time / memory bound: harness/c20_registry.py"""
    from harness import c20_registry as R
    scen = [(nm, ops, "registry-fixed") for nm, ops in R.fixed_scenarios()]
    scen.append(R.to_names_scenario() + ("registry-known",))    # open finding C20-link-name-collision: family link-name-collision
    scen.append(R.topo_direct_scenario() + ("registry-regression",))   # fixed finding C20-topocentric-ctor-instance-only: family link-method-unresolvable:topo_direct
    for i in range(60 if ctx.thorough else (20 if big else 6)):
        scen.append((f"random{i}", R.random_scenario(rng, rng.randint(4, 12 if big else 9)), "registry-random"))
    tot = {}
    bound_hits = 0
    for nm, ops, kind in scen:
        if bound_hits >= 2:
            out.tally("kind=registry-skipped-after-bound")     # a library whose conversions do not terminate: two failing scenarios are enough
            continue
        res = R.run_forked(ops, {"max_pairs": 60 if big else 40}, time_limit=60.0 if big else 25.0)
        bound_hits += any(f["family"] == "scenario-exceeds-bound" for f in res.get("fails", []))
        if res.get("error"):
            raise RuntimeError(f"registry scenario {nm}: {res['error']} {res.get('tb', '')}")
        c = res.get("counts", {})
        for k, v in c.items():
            tot[k] = tot.get(k, 0) + v
        out.count(key=("registry", nm, json.dumps(ops, sort_keys=True)), kind=kind)
        out.cases += c.get("conversions", 0) + c.get("route_walks", 0)
        seen = set()
        for f in res["fails"]:
            if f["family"] in seen:
                continue
            seen.add(f["family"])
            out.fail(f["family"], f["what"], {"registry_scenario": ops, "name": nm, "detail": f["detail"]}, observed=f["detail"])
        # the decidable hypothesis of linkKey_injective / fresh_names_keep_methods_str, evaluated by the compiled model on the names
        # that are live in the REAL registries (library-made names included): a key collision needs a name outside the predicate
        live = res.get("names", [])
        good = core.Driver().run(["goodname " + R.codepoints(x) for x in live]) if live else []
        bad = [x for x, g in zip(live, good) if g != "1"]
        out.tally(f"kind=registry-names-{'all-good' if not bad else 'some-outside-predicate'}")
        tot["names_checked"] = tot.get("names_checked", 0) + len(live)
        if bad and kind != "registry-known":
            out.fail("name-outside-predicate", "a name live in the real registries contains '_to_' or ends with '_to' (the harness never creates one outside the "
                     "scenario of the open finding; a library-made one would put the built-in registry outside linkKey_injective)",
                     {"registry_scenario": ops, "name": nm}, observed=bad)
        if not bad and "link-name-collision" in seen:
            out.fail("link-name-collision-good-names", "two pairs of names share a link method although every live name satisfies goodName "
                     "(contradicts Props/C20LinkKeyReg.lean fresh_names_keep_methods_str)", {"registry_scenario": ops, "name": nm}, observed=live)
    out.notes.append("real-registry scenarios: " + ", ".join(f"{k}={v}" for k, v in sorted(tot.items())))
    out.sample({"registry_scenario": scen[0][1][:3], "checked": "bounded route sweep by identity, link-method resolvability from every start object, all pairs convert, unchanged by new names"})


def _registry_families(seed, rounds_a, rounds_b):
    import random
    import warnings
    import logging
    warnings.filterwarnings("ignore")
    logging.disable(logging.CRITICAL)
    rng = random.Random(seed)
    out = Outcome()
    check_frame_registry(out, rng, rounds_a)
    check_nested_and_body_frames(out, rng, rounds_b)
    return {"failures": out.failures, "cases": out.cases, "dist": out.dist, "keys": [repr(k) for k in out.keys]}


class _MiniCtx:
    def __init__(self, thorough):
        self.thorough = thorough

    def n(self, quick, thorough):
        return thorough if self.thorough else quick


def _node_level_oracle(seed, thorough, big):
    """runs in a forked child (memory / wall-clock bound); every evaluation under its own CPU bound (guarded_check)"""
    import random
    rng = random.Random(seed)
    ctx = _MiniCtx(thorough)
    out = Outcome()
    # forests: exhaustive small, sampled larger
    for n in range(2, (6 if ctx.thorough else 5)):
        for h in forest_histories(n):
            check_history(out, n, h, "forest-exhaustive")
    # larger trees: uniformly random insertion histories (order and orientation random)
    for n in (5, 6, 7, 8):
        for _ in range(3000 if big else 150):
            check_history(out, n, random_tree_history(rng, n), f"tree-{n}-random")
    for _ in range(2000 if big else 200):
        n = rng.randint(5, 30)
        check_history(out, n, random_forest(rng, n), "forest-random")
    # general graphs: shortest-chain clause
    for n in (3, 4):
        pairs = list(itertools.combinations(range(n), 2))
        for k in range(n, len(pairs) + 1):
            for es in itertools.combinations(pairs, k):
                for perm in itertools.permutations(es):
                    if ctx.thorough or (perm[0][0] + 3 * perm[-1][1] + len(perm)) % 7 == 0:
                        check_history(out, n, list(perm), "cyclic-exhaustive")
    pent = [(0, 1), (1, 2), (2, 3), (3, 4), (4, 0)]
    for perm in itertools.permutations(pent):
        if big or perm[0] == (0, 1):
            check_history(out, 5, list(perm), "pentagon")
    for _ in range(3000 if big else 300):
        n = rng.randint(4, 7)
        check_history(out, n, random_graph(rng, n), "cyclic-random")
    for _ in range(2000 if big else 300):
        n = rng.randint(4, 9)
        check_history(out, n, [e for e in random_multigraph(rng, n) if e[0] != e[1]], "multigraph")
    for n in range(5, 31 if big else 14):
        check_history_known(out, n, ring_history(n), "ring-closed-last")
    for _ in range(1500 if big else 150):
        n = rng.randint(4, 14)
        check_history(out, n, permuted_tree(rng, n), "tree-any-order")
    for _ in range(600 if big else 80):
        n = rng.randint(3, 8)
        r = rng.random()
        h = random_tree_history(rng, n) if r < 0.5 else (random_forest(rng, n) if r < 0.7 else [e for e in random_graph(rng, n)])
        if r < 0.7:
            check_interleaved(out, n, h, "interleaved-forest")
        else:
            check_interleaved_known(out, n, h, "interleaved-cyclic")
    for _ in range(600 if big else 80):
        n = rng.randint(3, 9)
        h = random_tree_history(rng, n) if rng.random() < 0.7 else random_forest(rng, n)
        check_named_interleaved(out, random_names(rng, n), h, "interleaved-named")
    for _ in range(2000 if big else 300):
        n = rng.randint(2, 12)
        check_new_registration(out, rng, n, random_forest(rng, n))
    for names, h, kind in named_cases(ctx, rng, 3000 if big else 300, 3000):
        check_named_history(out, names, h, kind)
    check_pinned(out)
    return {"failures": out.failures, "cases": out.cases, "dist": out.dist, "keys": [repr(k) for k in out.keys]}


def _absorb(out, res):
    out.failures.extend(res["failures"])
    out.cases += res["cases"]
    out.keys |= set(res["keys"])
    for k, v in res["dist"].items():
        out.dist[k] = out.dist.get(k, 0) + v


def oracle(ctx, widened):
    out = Outcome()
    rng = ctx.rng
    big = widened or ctx.thorough
    from harness import c20_registry as R
    res, why = R.forked(_node_level_oracle, rng.randrange(2**32), ctx.thorough, big, time_limit=1500.0 if big else 300.0, mem_gb=4.0)
    if res is None:
        out.fail("node-level-oracle-exceeds-bound", "the Node-level oracle did not finish within its time / memory bound", {}, observed=why)
    else:
        _absorb(out, res)
    check_registry_scenarios(out, ctx, rng, big)
    # the two in-process families on the real registry run in a forked child as well: a changed library may loop in path()
    from harness import c20_registry as R
    res, why = R.forked(_registry_families, rng.randrange(2**32), 12 if big else 5, 6 if big else 2, time_limit=300.0 if big else 60.0)
    if res is None:
        out.fail("registry-families-exceed-bound", "conversions interleaved with create_station / as_frame did not finish within the time / memory bound", {}, observed=why)
    else:
        _absorb(out, res)
    out.sample({"history": [(0, 1), (1, 2), (3, 2)], "checked": "all pairs: valid simple chain == BFS distance, unconnected -> ValueError"})
    return out


def replay(f):
    out = Outcome()
    i = f["input"]
    if "registry_scenario" in i:
        from harness import c20_registry as R
        res = R.run_forked(i["registry_scenario"], time_limit=60.0)
        for x in res["fails"]:
            if x["family"] == f["family"]:
                out.fail(x["family"], x["what"], i, observed=x["detail"])
                break
    elif "names" in i and i.get("interleaved"):
        check_named_interleaved(out, i["names"], [tuple(e) for e in i.get("full_hist", i["hist"])], "replay")
    elif "names" in i:
        check_named_history(out, i["names"], [tuple(e) for e in i["hist"]], "replay")
    elif "hist" in i and i.get("interleaved"):
        check_interleaved(out, i["n"], [tuple(e) for e in i.get("full_hist", i["hist"])], "replay")
    elif "hist" in i:
        check_history(out, i["n"], [tuple(e) for e in i["hist"]], "replay")
    return out
